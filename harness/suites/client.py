"""
Suite `client` (C08, C09, C19, C11): real sync / async clients over scripted transports vs the model's
`clientSend` (Client.lean + Retry.lean + Tracer.lean).
"""
from __future__ import annotations

import itertools
import json

from .. import core
from ..core import enc, dec, Finding
from .. import impl_client as IC
from .. import impl_server as S
from .. import userclasses as U
from .msg import _req_spec, REG

NAME = 'client'
SERIAL = False
HALVES = ('sync', 'async')
F = IC.f2bits


def text_reply(value=None, text=None):
    t = json.dumps(value) if text is None else text
    return {'k': 'text', 'text': t, 'load': S.load_result(t)}


def exc_reply(name):
    return {'k': 'exc', 'name': name}


def client_cfg(strict=True, tracers=0, caller_ctx=False, retry=None, error_cls=None):
    cl = {'strict': strict, 'tracers': str(tracers), 'caller_ctx': caller_ctx, 'mros': IC.MROS, 'reg': REG}
    if retry is not None:
        cl['retry'] = retry
    if error_cls is not None:
        cl['error_cls'] = U.errclass_json(error_cls)
    return cl


def send_case(cl, request, attempts, call=False, tag=None, **extra):
    c = {'suite': NAME, 'op': 'send', 'client': cl, 'request': request, 'attempts': attempts, 'call': call}
    if tag:
        c['tag'] = tag
    c.update(extra)
    return c


def single(method='m', params=None, id=1):
    return {'kind': 'single', 'req': _req_spec(method, params, id)}


def batch(reqs):
    return {'kind': 'batch', 'reqs': reqs}


def ok(id, result='r'):
    return {'jsonrpc': '2.0', 'id': id, 'result': result}


def err(id, code=2001, message='e', data=None):
    e = {'code': code, 'message': message}
    if data is not None:
        e['data'] = data
    return {'jsonrpc': '2.0', 'id': id, 'error': e}


# ------------------------------------------------------------------------------------------------
# generators
# ------------------------------------------------------------------------------------------------

def gen_relate(tier, rng):
    thorough = tier == 'thorough'
    # single calls x every id relation x strict on/off
    for req_id in (1, 0, 'a', '1', -5, 'Abc'):
        for resp_id in (req_id, None, 2, '1', 1, 'a', '', 0, 1.0, True, 'A', 'abc', 'ABC'):
            for strict in (True, False):
                for body in ('result', 'error', 'both', 'neither'):
                    doc = {'jsonrpc': '2.0', 'id': resp_id}
                    if body in ('result', 'both'):
                        doc['result'] = {'v': [1]}
                    if body in ('error', 'both'):
                        doc['error'] = {'code': 2001, 'message': 'boom', 'data': {'d': 1}}
                    yield send_case(client_cfg(strict=strict), single(id=req_id), [text_reply(doc)], call=True, tag='relate')
    for doc in ([], {}, 1, None, 's', [ok(1)], {'jsonrpc': '1.0', 'id': 1, 'result': 1}, {'id': 1, 'result': 1},
                {'jsonrpc': '2.0', 'id': 1, 'error': {'code': '1', 'message': 'm'}}, {'jsonrpc': '2.0', 'id': 1, 'error': {'code': -32601, 'message': 'Method not found'}},
                {'jsonrpc': '2.0', 'id': 1, 'error': {'code': 0, 'message': ''}}, {'jsonrpc': '2.0', 'id': 1, 'error': {'code': 2002, 'message': 'x', 'data': None}}):
        for ecls in (None, U.ClientBaseError):
            yield send_case(client_cfg(error_cls=ecls), single(), [text_reply(doc)], call=True, tag='relate')
    for t in ('', ' ', '{', 'nul', '[1,'):
        yield send_case(client_cfg(), single(), [text_reply(text=t) if t else {'k': 'empty'}], call=True, tag='relate')
    yield send_case(client_cfg(), single(), [{'k': 'none'}], call=True, tag='relate')
    # notifications: any body is unexpected in strict mode
    for strict in (True, False):
        for rep in ({'k': 'none'}, {'k': 'empty'}, text_reply(ok(None)), text_reply([]), text_reply(text=' '), exc_reply('ConnErr')):
            yield send_case(client_cfg(strict=strict), single(id=None), [rep], tag='relate')
            yield send_case(client_cfg(strict=strict), batch([_req_spec('a', None, None), _req_spec('b', [1], None)]), [rep], tag='relate')
    # batches: every response document a server could return
    maxcalls = 4
    for ncalls in range(1, maxcalls + 1):
        # notifications among the calls: none, one at each position, two
        notif_layouts = [()] + [(p,) for p in range(ncalls + 1)] + [(0, ncalls + 1)]
        if not thorough and ncalls >= 3:
            notif_layouts = [(), (1,), (0, ncalls + 1)]
        for layout in notif_layouts:
            ids = [1, 'x', 3, 0][:ncalls]
            reqs = [_req_spec(f'm{i}', [i], id) for i, id in enumerate(ids)]
            for k, pos in enumerate(layout):
                reqs.insert(pos, _req_spec(f'n{k}', None, None))
            docs = []
            base = [ok(id, f'res{i}') for i, id in enumerate(ids)]
            perms = list(itertools.permutations(base))
            if len(perms) > 24 and not thorough:
                perms = rng.sample(perms, 8)
            docs += [list(p) for p in perms]
            for i in range(ncalls):
                docs.append(base[:i] + base[i + 1:])                       # omission
                docs.append(base + [base[i]])                               # duplication
                docs.append(base[:i] + [err(ids[i])] + base[i + 1:])        # an error among successes
                docs.append(list(reversed(base[:i] + [err(ids[i], -32601, 'Method not found')] + base[i + 1:])))
                wrong = '1' if ids[i] == 1 else (1 if ids[i] == 'x' else str(ids[i]))      # '3' for 3, '0' for 0
                docs.append(base[:i] + [ok(wrong, 'typed')] + base[i + 1:])  # id of the wrong JSON type
                docs.append(base[:i] + [ok(None, 'nullid')] + base[i + 1:])  # null id
                docs.append(base[:i] + [ok(99, 'subst')] + base[i + 1:])     # another id in its place
                docs.append(base[:i] + base[i + 1:] + [ok(98, 'a'), ok(99, 'b')])   # one missing, two nobody asked for
            docs.append(base + [ok(99, 'extra')])                           # addition
            docs.append([ok(99, 'extra')] + list(reversed(base)))
            docs.append(base + [ok(None, 'null-extra')])
            docs.append([ok(98, 'extra')] + base + [ok(99, 'extra')])
            docs.append([])
            docs.append({'jsonrpc': '2.0', 'id': None, 'error': {'code': -32600, 'message': 'Invalid Request', 'data': 'batch'}})
            docs.append({'jsonrpc': '2.0', 'id': None, 'error': {'code': 2001, 'message': 'typed'}})
            docs.append({'jsonrpc': '2.0', 'id': 5, 'error': {'code': 1, 'message': 'm'}})
            docs.append({'jsonrpc': '2.0', 'id': None, 'result': 1})
            docs.append([1])
            # literal null elements are not responses
            docs.append(base[:1] + [None] + base[1:])
            docs.append([None])
            docs.append(base + [None, None])
            docs.append(base[:-1] + [{'jsonrpc': '2.0', 'id': ids[-1]}])
            for doc in docs:
                for strict in (True, False):
                    yield send_case(client_cfg(strict=strict), batch(reqs), [text_reply(doc)], tag='relate')
            # one batch object used twice: some calls, sent; more calls added to the same batch, sent again
            if ncalls >= 2 and not layout:
                for first_n in range(1, ncalls):
                    for doc in [list(p) for p in perms[:6]] + [list(reversed(base))]:
                        yield send_case(client_cfg(), batch(reqs), [text_reply(doc)], tag='relate', regrow={'first_n': first_n})


def gen_relate_random(tier, rng):
    """seeded random response documents: a random sub-multiset of the expected responses, mutated ids, extras, shuffled"""
    for _ in range(6000 if tier == 'thorough' else 500):
        ncalls = rng.randrange(1, 5)
        pool = [1, 'x', 3, 0, '', -7, '3', 2 ** 40]
        ids = rng.sample(pool, ncalls)
        reqs = [_req_spec(f'm{i}', [i], id) for i, id in enumerate(ids)]
        for k in range(rng.choice([0, 0, 1, 2])):
            reqs.insert(rng.randrange(len(reqs) + 1), _req_spec(f'n{k}', None, None))
        doc = []
        for i, id in enumerate(ids):
            r = rng.random()
            if r < 0.08:
                continue                                             # omitted
            rid = id
            if r < 0.16:
                rid = rng.choice([None, str(id) if isinstance(id, int) else 5, 99, rng.choice(ids)])
            doc.append(ok(rid, f'res{i}') if rng.random() < 0.75 else err(rid, rng.choice([2001, -32601, 5, 0])))
            if rng.random() < 0.05:
                doc.append(doc[-1])
        if rng.random() < 0.1:
            doc.append(ok(rng.choice([99, None, 'zz']), 'extra'))
        rng.shuffle(doc)
        yield send_case(client_cfg(strict=rng.random() < 0.7), batch(reqs), [text_reply(doc)], tag='relate')


OUTCOMES = {
    'ok': lambda: text_reply(ok(1)),
    'listed-code': lambda: text_reply(err(1, 2001)),
    'unlisted-code': lambda: text_reply(err(1, 2002)),
    'listed-exc': lambda: exc_reply('ConnErr'),
    'sub-exc': lambda: exc_reply('SubConnErr'),
    'unlisted-exc': lambda: exc_reply('TimeoutErr'),
    'bad-body': lambda: text_reply(text='{'),
}
BATCH_OUTCOMES = {
    'ok': lambda: text_reply([ok(1), ok(2)]),
    'listed-code': lambda: text_reply({'jsonrpc': '2.0', 'id': None, 'error': {'code': 2001, 'message': 'batch-level'}}),
    'unlisted-code': lambda: text_reply([err(1, 2001), ok(2)]),          # an element error does not retry the batch
    'listed-exc': lambda: exc_reply('ConnErr'),
    'sub-exc': lambda: exc_reply('SubConnErr'),
    'unlisted-exc': lambda: exc_reply('TimeoutErr'),
    'bad-body': lambda: text_reply([ok(1)]),                             # missing response: IdentityError
}


def backoffs(n, rng):
    j0 = [F(0.0)] * 8
    j1 = [F(x) for x in (0.25, 0.5, 0.125, 1.5, 0.0, 2.0, 0.75, 0.1)]
    yield {'k': 'periodic', 'attempts': str(n), 'interval': F(0.0), 'jitter': j0}
    yield {'k': 'periodic', 'attempts': str(n), 'interval': F(1.5), 'jitter': j1}
    yield {'k': 'exponential', 'attempts': str(n), 'base': F(1.0), 'factor': F(2.0), 'max': None, 'jitter': j0}
    yield {'k': 'exponential', 'attempts': str(n), 'base': F(0.1), 'factor': F(3.0), 'max': F(0.5), 'jitter': j1}
    yield {'k': 'exponential', 'attempts': str(n), 'base': F(2.0), 'factor': F(1.5), 'max': F(1.0), 'jitter': j0}      # cap below the first delay
    yield {'k': 'fibonacci', 'attempts': str(n), 'multiplier': F(1.0), 'max': F(1.0), 'jitter': j0}
    yield {'k': 'fibonacci', 'attempts': str(n), 'multiplier': F(0.5), 'max': None, 'jitter': j1}
    yield {'k': 'fibonacci', 'attempts': str(n), 'multiplier': F(0.3), 'max': F(100.0), 'jitter': j1}
    yield {'k': 'fibonacci', 'attempts': str(n), 'multiplier': F(1.0), 'max': F(2.0), 'jitter': j1}        # the cap applies to delay + jitter
    yield {'k': 'periodic', 'attempts': str(n), 'interval': F(0.5), 'jitter': j1}


def strategy(backoff, codes='one', excs='one'):
    s = {'backoff': backoff}
    s['codes'] = {'none': None, 'empty': [], 'one': ['2001'], 'several': ['2001', '-32000', '7']}[codes]
    if codes == 'empty':
        s['codes_kind'] = 'empty'
    s['excs'] = {'none': None, 'empty': [], 'one': ['ConnErr'], 'several': ['ConnErr', 'ValueError'], 'base': ['Exception']}[excs]
    return s


def gen_retry(tier, rng):
    thorough = tier == 'thorough'
    maxn = 4 if thorough else 3
    kinds = list(OUTCOMES)
    for n in range(0, maxn + 1):
        seqs = list(itertools.product(kinds, repeat=min(n + 2, 3))) if n + 2 <= 3 or not thorough else None
        if seqs is None or n + 2 > 3:
            # longer sequences: all prefixes of retryable outcomes followed by every terminal kind
            seqs = []
            for k in range(0, n + 2):
                for pre in itertools.product(['listed-code', 'listed-exc', 'sub-exc'], repeat=k):
                    if len(pre) > 3 and rng.random() > (0.3 if thorough else 0.08):
                        continue
                    for last in kinds:
                        seqs.append(tuple(pre) + (last,))
        bos = list(backoffs(n, rng))
        for seq in seqs:
            picks = bos if thorough else rng.sample(bos, 2)
            for bo in picks:
                for codes, excs in (('one', 'one'), ('several', 'several'), ('none', 'one'), ('one', 'none'), ('empty', 'empty'), ('one', 'base')):
                    if not thorough and rng.random() > 0.45:
                        continue
                    st = strategy(bo, codes, excs)
                    atts = [OUTCOMES[k]() for k in seq]
                    yield send_case(client_cfg(retry=st), single(), atts, call=True, tag='retry')
                    if rng.random() < 0.25:
                        yield send_case(client_cfg(retry=st), batch([_req_spec('a', None, 1), _req_spec('b', None, 2)]),
                                        [BATCH_OUTCOMES[k]() for k in seq], tag='retry')
                    if rng.random() < 0.15:
                        # notification through a retrying client (D9): delivered once, returns at once
                        yield send_case(client_cfg(retry=st), single(id=None), [{'k': 'none'}] + atts, tag='retry')
                        yield send_case(client_cfg(retry=st), single(id=None), [exc_reply('ConnErr'), {'k': 'none'}], tag='retry')
                    if rng.random() < 0.2:
                        # per-request strategy replaces the client-wide one; explicit None disables
                        other = strategy(bos[(bos.index(bo) + 1) % len(bos)], 'several', 'several')
                        yield send_case(client_cfg(retry=other), single(), atts, call=True, tag='retry', req_retry=st)
                        yield send_case(client_cfg(retry=st), single(), atts, call=True, tag='retry', req_retry=None)
                        yield send_case(client_cfg(), single(), atts, call=True, tag='retry', req_retry=st)
                        # ... for batches (client.batch.send(..., _retry_strategy=...)) as well
                        b2 = batch([_req_spec('a', None, 1), _req_spec('b', None, 2)])
                        batts = [BATCH_OUTCOMES[k]() for k in seq]
                        yield send_case(client_cfg(retry=other), b2, batts, tag='retry', req_retry=st)
                        yield send_case(client_cfg(retry=st), b2, batts, tag='retry', req_retry=None)
                        yield send_case(client_cfg(), b2, batts, tag='retry', req_retry=st)


def gen_sessions(tier, rng):
    """several requests through ONE client object with a client-wide strategy: every request has the full retry budget
    and the backoff starts over (the model knows no state between requests)"""
    j0 = [F(0.0)] * 8
    sid = 0
    for n in (1, 2, 3):
        for bo in ({'k': 'periodic', 'attempts': str(n), 'interval': F(1.5), 'jitter': j0},
                   {'k': 'exponential', 'attempts': str(n), 'base': F(1.0), 'factor': F(2.0), 'max': None, 'jitter': j0},
                   {'k': 'fibonacci', 'attempts': str(n), 'multiplier': F(0.5), 'max': None, 'jitter': j0}):
            st = strategy(bo, 'one', 'one')
            for _ in range(6 if tier == 'thorough' else 2):
                sid += 1
                for step in range(3):
                    k = rng.randrange(0, n + 1)
                    seq = [rng.choice(['listed-code', 'listed-exc']) for _ in range(k)] + [rng.choice(['ok', 'listed-code', 'unlisted-code', 'listed-exc'])]
                    if rng.random() < 0.3:
                        yield send_case(client_cfg(retry=st), batch([_req_spec('a', None, 1), _req_spec('b', None, 2)]),
                                        [BATCH_OUTCOMES[x]() for x in seq], tag='retry', session=f's{sid}')
                    else:
                        yield send_case(client_cfg(retry=st), single(), [OUTCOMES[x]() for x in seq], call=True, tag='retry', session=f's{sid}')


TRACE_OUTCOMES = {
    'ok': lambda: text_reply(ok(1)),
    'error-response': lambda: text_reply(err(1, 2001)),
    'transport-exc': lambda: exc_reply('ConnErr'),
    'undecodable': lambda: text_reply(text='{'),
    'identity-mismatch': lambda: text_reply(ok(7)),
    'base-exception': lambda: exc_reply('Cancel'),
    # what an attempt cancelled in mid-await (task.cancel(), wait_for timeout) ends in, and Ctrl-C
    # bodies whose refusal is raised `from` a lower-level exception (KeyError for a missing member): tracers get the
    # exception the caller gets, not its cause
    'missing-member': lambda: text_reply({'id': 1, 'result': 1}),
    'error-without-code': lambda: text_reply({'jsonrpc': '2.0', 'id': 1, 'error': {'message': 'm'}}),
    'cancelled': lambda: exc_reply('CancelledError'),
    'keyboard-interrupt': lambda: exc_reply('KeyboardInterrupt'),
}


def gen_trace(tier, rng):
    thorough = tier == 'thorough'
    kinds = list(TRACE_OUTCOMES)
    for n in range(0, 4):
        for ntr in range(0, 4):
            for caller_ctx in (False, True):
                seqs = []
                for k in range(0, n + 1):
                    for pre in itertools.product(['error-response', 'transport-exc'], repeat=k):
                        for last in kinds:
                            seqs.append(tuple(pre) + (last,))
                if not thorough and len(seqs) > 14:
                    seqs = rng.sample(seqs, 14)
                for seq in seqs:
                    st = strategy({'k': 'periodic', 'attempts': str(n), 'interval': F(0.0), 'jitter': []}, 'one', 'one') if n else None
                    atts = [TRACE_OUTCOMES[k]() for k in seq]
                    yield send_case(client_cfg(tracers=ntr, caller_ctx=caller_ctx, retry=st), single(), atts, call=True, tag='trace')
                    if rng.random() < 0.25:
                        # the library's own LoggingTracer configured first: it must cope with every request kind and outcome
                        cfgl = client_cfg(tracers=ntr, caller_ctx=caller_ctx, retry=st)
                        cfgl['logging_tracer'] = True
                        yield send_case(cfgl, single(), atts, call=True, tag='trace')
                        yield send_case(cfgl, batch([_req_spec('a', None, 1), _req_spec('b', None, 2)]),
                                        [text_reply([ok(1), ok(2)]) if k == 'ok' else TRACE_OUTCOMES[k]() for k in seq], tag='trace')
                    if rng.random() < 0.3:
                        yield send_case(client_cfg(tracers=ntr, caller_ctx=caller_ctx, retry=st), single(id=None),
                                        [{'k': 'none'}] if seq[-1] == 'ok' else [exc_reply('ConnErr'), {'k': 'none'}], tag='trace')
                    if rng.random() < 0.3:
                        b = batch([_req_spec('a', None, 1), _req_spec('n', None, None)])
                        yield send_case(client_cfg(tracers=ntr, caller_ctx=caller_ctx, retry=st), b,
                                        [text_reply([ok(1)]) if k == 'ok' else TRACE_OUTCOMES[k]() for k in seq], tag='trace')


def gen_raising(tier, rng):
    """a last tracer whose completion hook raises: every tracer before it still sees exactly one completion per begin"""
    for ntr in (1, 2, 3):
        for caller_ctx in (False, True):
            for kind in ('ok', 'error-response', 'transport-exc'):
                for n in (0, 2):
                    st = strategy({'k': 'periodic', 'attempts': str(n), 'interval': F(0.0), 'jitter': []}, 'one', 'one') if n else None
                    cl = client_cfg(tracers=ntr, caller_ctx=caller_ctx, retry=st)
                    cl['raising_tracer'] = True
                    yield send_case(cl, single(), [TRACE_OUTCOMES[kind]()], call=True, tag='trace-raising')
                    yield send_case(cl, single(id=None), [{'k': 'none'}], tag='trace-raising')
                    yield send_case(cl, batch([_req_spec('a', None, 1), _req_spec('b', None, 2)]),
                                    [text_reply([ok(1), ok(2)]) if kind == 'ok' else TRACE_OUTCOMES[kind]()], tag='trace-raising')


def balanced(trace):
    """per tracer: the events alternate begin, completion, begin, completion, ..."""
    by = {}
    for e in trace:
        by.setdefault(e['t'], []).append(e['k'])
    return all(all((k == 'begin') == (i % 2 == 0) for i, k in enumerate(ks)) and len(ks) % 2 == 0 for ks in by.values())


def gen_overlap(tier, rng):
    """attempts in flight at the same time on one client object: each is traced like a lone request"""
    for n in (2, 3):
        for ntr in (1, 2, 3):
            for kind in TRACE_OUTCOMES:
                if kind in ('cancelled', 'keyboard-interrupt', 'base-exception'):
                    continue
                yield send_case(client_cfg(tracers=ntr, caller_ctx=True), single(), [TRACE_OUTCOMES[kind]()], call=True, tag='trace', overlap={'n': str(n)})


def generate(tier, rng):
    yield from gen_overlap(tier, rng)
    yield from gen_relate(tier, rng)
    yield from gen_relate_random(tier, rng)
    yield from gen_retry(tier, rng)
    yield from gen_sessions(tier, rng)
    yield from gen_trace(tier, rng)
    yield from gen_raising(tier, rng)


# ------------------------------------------------------------------------------------------------
# implementation, projections
# ------------------------------------------------------------------------------------------------

def run_impl(c):
    if c.get('overlap'):
        out = {}
        for half, is_async in (('sync', False), ('async', True)):
            lone = IC.run_send(c, is_async)                   # the lone request (what the model describes)
            ov = IC.run_overlap(c, is_async)
            # every overlapping request is traced and answered exactly like the lone one
            same = all(x['trace'] == lone['trace'] and x['final'] == lone['final'] for x in ov['overlap']) and not ov['stray']
            if not same:
                bad = next((x for x in ov['overlap'] if x['trace'] != lone['trace'] or x['final'] != lone['final']), {'trace': ov['stray'], 'final': None})
                lone = dict(lone, trace=bad['trace'], final=bad['final'], overlap_differs=True)
            out[half] = lone
        return out
    return {'sync': IC.run_send(c, False), 'async': IC.run_send(c, True)}


def halves(out):
    if 'sync' in out:
        return out
    return {h: out for h in HALVES}


TAGS = {'C08': ('relate',), 'C09': ('retry',), 'C19': ('trace', 'retry', 'trace-raising'), 'C11': ('relate', 'retry', 'trace')}


def relevant(prop, c):
    return c.get('tag') in TAGS.get(prop, ())


def _kind(final):
    """outcome of the send: response / nothing / which exception"""
    if final is None:
        return None
    if 'raised' in final:
        return {'raised': final['raised']}
    return {'resp': final['resp']}


def _proj_one(prop, c, o):
    if prop == 'C08':
        # `value_call`: the same exchange through call() / batch.call() (the model has one notion of the value)
        return {'final': _kind(o['final']), 'value': o['value'], 'related': o['related'], 'value_call': o.get('value_call', o['value'])}
    if prop == 'C09':
        return {'sends': o['sends'], 'sleeps': o['sleeps'], 'final': _kind(o['final']), 'value': o['value']}
    if prop == 'C19' and c.get('tag') == 'trace-raising':
        # the model knows no failing tracers; what it says about the others - one completion per begin - is what is compared
        return {'balanced': balanced(o['trace'])}
    if prop == 'C19':
        return {'trace': o['trace'], 'raised': (o['final'] or {}).get('raised'),
                'trace_dunder': o['trace_dunder'] if o.get('trace_dunder') is not None else o['trace']}
    if prop == 'C11':
        return {k: o.get(k) for k in ('wire', 'sends', 'sleeps', 'final', 'value', 'related', 'trace')} | {'value_call': o.get('value_call', o['value'])}
    return None


def project(prop, c, out):
    if prop not in TAGS or not relevant(prop, c):
        return None
    hs = halves(out)
    return {h: _proj_one(prop, c, hs[h]) for h in HALVES}


def label(c, mo):
    f = mo['final']
    fin = 'raised:' + (f['raised'].get('exc') or 'rpc') if 'raised' in f else ('none' if f['resp'] is None else next(iter(f['resp'])))
    return f'{c.get("tag")}/{c["request"]["kind"]}/sends={mo["sends"]}/{fin}/tr={min(len(mo["trace"]), 9)}'


# ------------------------------------------------------------------------------------------------
# oracles (implementation-side predicates, independent of the model)
# ------------------------------------------------------------------------------------------------

def _attempt_kind(c, k, strategy):
    """classification of attempt k against the strategy, computed from the script alone"""
    a = c['attempts'][min(k, len(c['attempts']) - 1)]
    codes = set(strategy.get('codes') or [])
    excs = strategy.get('excs') or []
    is_notif = (c['request']['kind'] == 'single' and c['request']['req']['id'] is None) or (
        c['request']['kind'] == 'batch' and all(r['id'] is None for r in c['request']['reqs']))
    if a['k'] == 'exc':
        mro = dict(IC.MROS)[a['name']]
        return 'retry' if any(e in mro for e in excs) else 'stop'
    return None       # response-dependent: decided from the observation


def oracle(prop, c, out):
    f = []
    if prop == 'C11':
        a, b = out['sync'], out['async']
        pa, pb = _proj_one('C11', c, a), _proj_one('C11', c, b)
        if pa != pb:
            diff = [k for k in pa if pa[k] != pb[k]]
            f.append(Finding(prop, 'twin-diff:client:' + ','.join(diff), 'sync and async client behave differently', c, {'sync': pa, 'async': pb}))
        return f
    for half in HALVES:
        o = out[half]
        f += _oracle_half(prop, c, o, half)
    return f


def _effective_strategy(c):
    if 'req_retry' in c:
        return c['req_retry']
    return c['client'].get('retry')


def _delays(b):
    """reference backoff delays straight from the property's formulas (float arithmetic)"""
    n = int(b['attempts'])
    jit = [IC.bits2f(x) for x in b['jitter']] + [0.0] * 16
    out = []
    if b['k'] == 'periodic':
        for k in range(n):
            out.append(IC.bits2f(b['interval']) + jit[k])
    elif b['k'] == 'exponential':
        base, factor = IC.bits2f(b['base']), IC.bits2f(b['factor'])
        mx = None if b.get('max') is None else IC.bits2f(b['max'])
        for k in range(n):
            v = base * factor ** k + jit[k]
            out.append(min(mx, v) if mx is not None else v)
    else:
        mult = IC.bits2f(b['multiplier'])
        mx = None if b.get('max') is None else IC.bits2f(b['max'])
        fib = [1, 2]
        while len(fib) < n + 2:
            fib.append(fib[-1] + fib[-2])
        for k in range(n):
            v = fib[k] * mult + jit[k]
            out.append(min(mx, v) if mx is not None else v)
    return [IC.f2bits(x) for x in out]


def _oracle_half(prop, c, o, half):
    f = []

    def fail(key, what, expected=None):
        f.append(Finding(prop, key, f'[{half}] {what}', c, o, expected))
    req = c['request']
    strict = c['client']['strict']
    final = o['final']
    if prop == 'C08' and c.get('tag') == 'relate':
        a = c['attempts'][0]
        if a['k'] != 'text' or a['load']['k'] != 'ok':
            return f
        doc = dec(a['load']['j'])
        from .msg import valid_response_shape, valid_error_shape
        if req['kind'] == 'single' and req['req']['id'] is not None:
            rid = dec(req['req']['id'])
            if not valid_response_shape(doc):
                if final.get('raised') != {'exc': 'DeserializationError'}:
                    fail('invalid-body-accepted', 'a body that is not a valid JSON-RPC response did not raise the deserialisation error')
            elif strict and doc.get('id') is not None and enc(doc['id']) != enc(rid):
                if final.get('raised') != {'exc': 'IdentityError'}:
                    fail('id-mismatch-accepted', 'strict mode: a response with a different non-null id was accepted')
            elif 'resp' in final:
                if o['related'] != [enc(rid)]:
                    fail('not-related', 'the accepted response is not linked to its request')
                if 'error' in doc and 'rpc' not in (o['value'].get('raised') or {}):
                    fail('server-error-not-raised', 'a server error was not raised to the caller')
        if req['kind'] == 'batch':
            calls = [dec(r['id']) for r in req['reqs'] if r['id'] is not None]
            if not calls:
                return f
            batch_level = isinstance(doc, dict) and isinstance(doc.get('jsonrpc'), str) and doc.get('jsonrpc') == '2.0' and doc.get('id') is None and valid_error_shape(doc.get('error'))
            valid = isinstance(doc, list) and all(valid_response_shape(x) for x in doc)
            if batch_level:
                if 'rpc' not in (o['value'].get('raised') or {}):
                    fail('batch-error-not-raised', 'a batch-level error object was not raised for the batch')
                return f
            if not valid:
                if final.get('raised') != {'exc': 'DeserializationError'}:
                    fail('invalid-body-accepted', 'a body that is not a valid response array did not raise the deserialisation error')
                return f
            ids = [x.get('id') for x in doc if x.get('id') is not None]
            enc_ids = [json.dumps(enc(i)) for i in ids]
            enc_calls = [json.dumps(enc(i)) for i in calls]
            dup = len(set(enc_ids)) != len(enc_ids)
            exact = sorted(enc_ids) == sorted(enc_calls)
            if strict and (dup or not exact):
                if final.get('raised') != {'exc': 'IdentityError'}:
                    fail('batch-mismatch-accepted', 'strict mode: missing / extra / repeated response ids were accepted')
            elif not dup and exact:
                if 'resp' not in final:
                    fail('valid-batch-refused', 'a complete duplicate-free response array was refused')
                    return f
                got = final['resp']['batch']['responses']
                if len(got) != len(doc):
                    fail('responses-dropped', f'the accepted batch response holds {len(got)} of the {len(doc)} elements the server sent '
                                              f'(an element without an id - a server error nobody can attribute - must not vanish)')
                # positional attribution: results in the order the calls were made, whatever the server's order
                by_id = {json.dumps(enc(x['id'])): x for x in doc if x.get('id') is not None}
                want_ids = [enc(i) for i in calls]
                got_ids = [r['id'] for r in got if r['id'] is not None]
                if got_ids != want_ids:
                    fail('positional-attribution', 'responses are not attributed to the calls in the order the calls were made', want_ids)
                elif [r['id'] for r in got][:len(want_ids)] != want_ids:
                    # elements nobody asked for (null id) never take the position of a call
                    fail('positional-attribution', 'position k does not hold the answer to the k-th call (a null-id element sits among them)', want_ids)
                elif all('error' not in by_id[k] for k in enc_calls) and all('error' not in x for x in doc):
                    want = [enc(by_id[k]['result']) for k in enc_calls]
                    if (o['value'].get('tuple') or [])[:len(want)] != want:
                        fail('positional-attribution', 'the result tuple is not in call order', want)
                rel = o['related']
                if rel is not None and [r for r in rel if r is not None] != want_ids:
                    fail('not-related', 'accepted responses are not linked to the requests with the same id')
    if prop == 'C08' and c.get('tag') == 'relate' and req['kind'] == 'batch' and 'resp' in final and o.get('related') is not None \
            and final['resp'] and final['resp'].get('batch') and final['resp']['batch'].get('error') is None:
        # every accepted response is linked to the request with the SAME id (strict or not); one nobody asked for is linked to none
        call_ids = [r['id'] for r in req['reqs'] if r['id'] is not None]
        for resp, rel in zip(final['resp']['batch']['responses'], o['related']):
            want = resp['id'] if (resp['id'] is not None and resp['id'] in call_ids) else None
            if rel != want:
                fail('related-by-id', f'a response with id {resp["id"]} is linked to the request with id {rel}', want)
                break
    if prop == 'C08' and c.get('tag') == 'relate' and 'value_call' in o and o['value_call'] != o['value']:
        fail('call-notation-value', 'call() / batch.call() (on a batch object possibly grown between two sends) does not hand the caller what '
                                    'send() + reading the results by position gives', o['value'])
    if prop == 'C09' and c.get('tag') == 'retry':
        st = _effective_strategy(c)
        sends = int(o['sends'])
        if st is None:
            if sends != 1 or o['sleeps']:
                fail('retry-without-strategy', 'a request without a strategy was re-sent')
            return f
        n = int(st['backoff']['attempts'])
        if sends > n + 1:
            fail('too-many-sends', f'{sends} sends with a strategy of {n} attempts')
        want_delays = _delays(st['backoff'])
        if o['sleeps'] != want_delays[:sends - 1]:
            fail('sleeps-not-backoff', 'the pauses are not the successive backoff delays (none before the first / after the last send)', want_delays[:sends - 1])
        # re-sent exactly when the previous attempt was retryable and attempts remained
        codes = set(st.get('codes') or [])
        excs = st.get('excs') or []
        is_notif = (req['kind'] == 'single' and req['req']['id'] is None)
        for k in range(sends):
            a = c['attempts'][min(k, len(c['attempts']) - 1)]
            retryable = None
            if a['k'] == 'exc':
                retryable = any(e in dict(IC.MROS)[a['name']] for e in excs)
            elif is_notif:
                retryable = False
            elif a['k'] == 'text' and a['load']['k'] == 'ok':
                d = dec(a['load']['j'])
                if isinstance(d, dict) and isinstance(d.get('error'), dict) and 'result' not in d and (req['kind'] == 'single' or d.get('id') is None):
                    code = d['error'].get('code')
                    if req['kind'] == 'single' and enc(d.get('id')) not in (['n'], req['req']['id']) and c['client']['strict']:
                        retryable = None
                    else:
                        retryable = str(code) in codes
                elif isinstance(d, dict) and 'result' in d and 'error' not in d and req['kind'] == 'single' and enc(d.get('id')) == req['req']['id']:
                    retryable = False
            if retryable is None:
                continue
            last = k == sends - 1
            if retryable and last and k < n:
                fail('not-resent', f'attempt {k} ended in a listed outcome with attempts remaining but was not re-sent')
            if not retryable and not last:
                fail('resent-unlisted', f'attempt {k} ended in an unlisted outcome but the request was re-sent')
        if not o.get('same_doc_each_attempt', True):
            fail('resend-changed-document', 'a re-sent request differs from the first one')
        # the caller receives the *last* attempt's outcome: its exception re-raised, never one of an earlier attempt
        a = c['attempts'][min(sends - 1, len(c['attempts']) - 1)]
        if a['k'] == 'text' and 'rpc' in (final.get('raised') or {}) and a.get('load', {}).get('k') == 'ok':
            d = dec(a['load']['j'])
            well = (isinstance(d, dict) and 'error' in d and 'result' not in d and d.get('jsonrpc') == '2.0'
                    and (d.get('id') is None or req['kind'] == 'single' and enc(d.get('id')) == req['req']['id']))
            if well:
                fail('last-response-raised', 'send() raised the error of the last (still failing) response instead of returning that response')
        raised = (final.get('raised') or {}).get('exc')
        if a['k'] == 'exc':
            if raised != IC.EXC[a['name']].__name__:
                fail('last-exception-not-raised', 'the last attempt raised but the caller did not receive that exception', a['name'])
        elif raised in {cls.__name__ for cls in IC.EXC.values()}:
            fail('stale-exception', 'the last attempt returned a response but the caller received an earlier attempt\'s exception')
    if prop in ('C19', 'C09') and c.get('tag') in ('trace', 'retry') and o.get('raised_attempt') is not None:
        # the exception object that reaches the caller is the one the LAST attempt raised, not an earlier one of the same type
        if o['raised_attempt'] != int(o['sends']) - 1:
            fail('stale-exception-object', f'the caller received the exception raised by attempt {o["raised_attempt"]}, '
                                           f'the last attempt was number {int(o["sends"]) - 1}')
    if prop == 'C19' and c.get('tag') == 'trace-raising' and not balanced(o['trace']):
        fail('completion-not-exactly-once', 'with a last tracer whose completion hook raises, an earlier tracer was told more (or less) than one '
                                            'completion for a begin: ' + ' '.join(e['t'] + ':' + e['k'] for e in o['trace']))
    if prop == 'C19' and o.get('trace_dunder') is not None and o['trace_dunder'] != o['trace']:
        fail('trace-call-operator', 'client(method, ...) with a caller-supplied trace context is not traced like client.send(...) '
                                    '(same events, same context)', o['trace'])
    if prop == 'C19' and c.get('tag') in ('trace', 'retry'):
        ntr = int(c['client']['tracers'])
        ev = o['trace']
        sends = int(o['sends'])
        ea = [a for a in (o.get('error_event_attempts') or [])]
        if ntr and ea and any(a is not None for a in ea):
            # on_error events come in blocks of `ntr` per failed attempt, each block given that attempt's own exception object
            blocks = [ea[i:i + ntr] for i in range(0, len(ea), ntr)]
            if any(len(set(b)) != 1 for b in blocks):
                fail('trace-exception-object', 'tracers of one attempt were given different exception objects')
        if len(ev) != 2 * ntr * sends:
            fail('trace-count', f'{len(ev)} tracer events for {sends} attempts and {ntr} tracers')
            return f
        for k in range(sends):
            seg = ev[2 * ntr * k: 2 * ntr * (k + 1)]
            begins, comps = seg[:ntr], seg[ntr:]
            if [(e['k'], e['t']) for e in begins] != [('begin', str(t)) for t in range(ntr)]:
                fail('trace-begin-order', 'begin events not once per tracer in configuration order')
                return f
            kinds = {e['k'] for e in comps}
            if [e['t'] for e in comps] != [str(t) for t in range(ntr)] or (ntr and kinds not in ({'end'}, {'error'})):
                fail('trace-completion', 'an attempt was not completed by exactly one end / error event per tracer, in order')
                return f
            ctxs = {e['ctx'] for e in seg}
            if len(ctxs) > 1:
                fail('trace-ctx', 'begin and completion of one attempt carry different trace contexts')
                return f
            if ntr and c['client']['caller_ctx'] and ctxs != {'0'}:
                fail('trace-ctx', 'the caller-supplied trace context was not passed to the tracers')
                return f
            last = k == sends - 1
            if last and ntr:
                raised = 'raised' in final
                if ('error' in kinds) != raised:
                    fail('trace-final-mismatch', 'the last attempt\'s completion event does not match what reached the caller')
                elif raised and comps[0]['exc'] != final['raised']:
                    fail('trace-exception-changed', 'the exception reported to the tracers differs from the one raised')
                elif not raised and comps[0].get('resp') != final['resp']:
                    fail('trace-response-changed', 'the response reported to the tracers differs from the one returned')
    return f
