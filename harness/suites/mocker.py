"""
Suite `mocker` (C20): operation / call histories through the real PjRpcMocker patching sync and async
transport methods (the harness' own client classes and the library's requests backend).
"""
from __future__ import annotations

import itertools
import json

from .. import core
from ..core import enc, dec, Finding
from .. import impl_server as S
from .. import userclasses as U

import pjrpc
from pjrpc.client.integrations.pytest import PjRpcMocker
from pjrpc.common import UNSET

NAME = 'mocker'
SERIAL = True
HALVES = ('sync', 'async', 'requests')
EPS = ['http://ep1', 'http://ep2']
METHODS = ['m1', 'm2']


def patch(kind, tag, once=False, id=None):
    if kind == 'result':
        payload = {'k': 'result', 'v': enc({'patch': tag})}
    elif kind == 'error':
        payload = {'k': 'error', 'err': {'code': str(2001), 'message': f'err-{tag}', 'data': {'v': enc(tag)}, 'cls': 'UserError2001'}}
    elif kind == 'callback':
        payload = {'k': 'callback', 'tag': str(tag)}
    elif kind == 'callback_raises':
        payload = {'k': 'callback_raises'}
    else:
        payload = {'k': 'nothing'}
    return {'once': once, 'payload': payload, 'id': None if id is None else enc(id)}


def request(ep, doc):
    text = json.dumps(doc)
    return {'op': 'request', 'ep': ep, 'text': text, 'load': S.load_result(text)}


def call(m, id, params=None):
    d = {'jsonrpc': '2.0', 'method': m}
    if id is not None:
        d['id'] = id
    if params is not None:
        d['params'] = params
    return d


def gen_history(rng, length, counters):
    """a well-formed history: replace / remove address existing patches"""
    ops = []
    queues = {}    # (ep, m) -> current queue length as the *specification* tracks it (for well-formedness only)
    onces = {}     # (ep, m) -> list of once flags in queue order
    for _ in range(length):
        k = rng.random()
        ep, m = rng.choice(EPS), rng.choice(METHODS)
        key = (ep, m)
        if k < 0.3:
            counters['tag'] += 1
            kind = rng.choice(['result', 'result', 'error', 'callback', 'callback', 'callback_raises'])
            once = rng.random() < 0.35
            ops.append({'op': 'add', 'ep': ep, 'm': m, 'patch': patch(kind, counters['tag'], once, id=rng.choice([None, None, 'cfg', 7]))})
            onces.setdefault(key, []).append(once)
        elif k < 0.38 and onces.get(key):
            counters['tag'] += 1
            idx = rng.randrange(len(onces[key]))
            once = rng.random() < 0.35
            ops.append({'op': 'replace', 'ep': ep, 'm': m, 'idx': str(idx), 'patch': patch(rng.choice(['result', 'error', 'callback', 'callback_raises']), counters['tag'], once)})
            onces[key][idx] = once
        elif k < 0.44 and onces.get(key):
            ops.append({'op': 'remove', 'ep': ep, 'm': m})
            onces.pop(key)
        elif k < 0.47 and any(e == ep for e, _ in onces):
            ops.append({'op': 'remove', 'ep': ep, 'm': None})
            for kk in [kk for kk in onces if kk[0] == ep]:
                onces.pop(kk)
        elif k < 0.5:
            ops.append({'op': 'reset'})
            onces.clear()
        else:
            # a call (single or batch), positional / named params, ids incl. 0 and ''
            def one():
                mm = rng.choice(METHODS + ['m3'])
                params = rng.choice([None, [1], [1, 'two'], {'a': 1}, {'a': None, 'b': [2]}, []])
                return call(mm, rng.choice([1, 2, 0, '', 'sid', None]), params)
            if rng.random() < 0.25:
                elems = [one() for _ in range(rng.randrange(1, 4))]
                seen = set()
                for e in elems:          # distinct ids inside a batch
                    while 'id' in e and json.dumps(e['id']) in seen:
                        e['id'] = rng.randrange(100, 200)
                    if 'id' in e:
                        seen.add(json.dumps(e['id']))
                doc = elems
            else:
                doc = one()
            ops.append(request(ep, doc))
            # track queue consumption for well-formedness of later replace ops
            for e in (doc if isinstance(doc, list) else [doc]):
                kk = (ep, e['method'])
                if onces.get(kk):
                    head = onces[kk].pop(0)
                    if not head:
                        onces[kk].append(head)
                    if not onces[kk]:
                        onces.pop(kk)
    return ops


def generate(tier, rng):
    thorough = tier == 'thorough'
    counters = {'tag': 0}
    # exhaustive short histories over one key: patches x once x calls
    for n_patches in (1, 2, 3):
        for flags in itertools.product([False, True], repeat=n_patches):
            for kinds in itertools.product(['result', 'error', 'callback', 'callback_raises'], repeat=n_patches) if n_patches < 3 else [('result', 'error', 'callback'), ('callback', 'callback_raises', 'result')]:
                for n_calls in (1, 2, 4, 7):
                    ops = [{'op': 'add', 'ep': EPS[0], 'm': 'm1', 'patch': patch(k, i, f)} for i, (k, f) in enumerate(zip(kinds, flags))]
                    ops += [request(EPS[0], call('m1', i, [i])) for i in range(n_calls)]
                    ops.append(request(EPS[0], call('m2', 99)))          # unpatched method / endpoint afterwards
                    ops.append(request(EPS[1], call('m1', 98)))
                    for pt in (False, True):
                        yield {'suite': NAME, 'passthrough': pt, 'ops': ops}
    for pt in (False, True):
        yield {'suite': NAME, 'passthrough': pt, 'ops': [request(EPS[0], call('m1', 1))]}
        yield {'suite': NAME, 'passthrough': pt, 'ops': [{'op': 'add', 'ep': EPS[0], 'm': 'm1', 'patch': patch('nothing', 0)}, request(EPS[0], call('m1', 1))]}
        # ids 0 and '' (D19), configured id used for a notification
        yield {'suite': NAME, 'passthrough': pt, 'ops': [{'op': 'add', 'ep': EPS[0], 'm': 'm1', 'patch': patch('result', 1, id='cfg')},
                                                        request(EPS[0], call('m1', 0)), request(EPS[0], call('m1', '')), request(EPS[0], call('m1', None))]}
        # batches whose elements draw replies configured with the same id (notifications take the configured id): the
        # mocker answers element-wise, it does not raise an identity error of its own (D30)
        for batch in ([call('m1', None), call('m1', None)], [call('m1', None, [1]), call('m2', 0), call('m1', None, {'a': 1})],
                      [call('m1', 5), call('m1', None), call('m1', None), call('m1', 'x')]):
            yield {'suite': NAME, 'passthrough': pt, 'ops': [{'op': 'add', 'ep': EPS[0], 'm': 'm1', 'patch': patch('result', 1, id='cfg')},
                                                            {'op': 'add', 'ep': EPS[0], 'm': 'm1', 'patch': patch('error', 2, id='cfg')},
                                                            request(EPS[0], batch), request(EPS[0], call('m1', 3))]}
    # the same patch configuration added twice is two patches (two once-patches answer two calls)
    for once in (False, True):
        for kind in ('result', 'error'):
            ops = [{'op': 'add', 'ep': EPS[0], 'm': 'm1', 'patch': patch(kind, 5, once)}, {'op': 'add', 'ep': EPS[0], 'm': 'm1', 'patch': patch(kind, 5, once)},
                   {'op': 'add', 'ep': EPS[0], 'm': 'm1', 'patch': patch('result', 6)}]
            ops += [request(EPS[0], call('m1', i)) for i in range(5)]
            yield {'suite': NAME, 'passthrough': False, 'ops': ops}
    # notifications to a patched endpoint are matched, recorded and consume patches like calls
    for once in (False, True):
        ops = [{'op': 'add', 'ep': EPS[0], 'm': 'm1', 'patch': patch('result', 1, once)}, {'op': 'add', 'ep': EPS[0], 'm': 'm1', 'patch': patch('result', 2)},
               request(EPS[0], call('m1', None, [1])), request(EPS[0], call('m1', 7)), request(EPS[0], [call('m1', None), call('m1', None, {'a': 1})]),
               request(EPS[0], call('m1', 8))]
        yield {'suite': NAME, 'passthrough': False, 'ops': ops}
    # replace(idx) addresses the live queue position, also after the queue has rotated
    for n_patches in (2, 3):
        for k_calls in range(0, 4):
            for idx in range(n_patches):
                ops = [{'op': 'add', 'ep': EPS[0], 'm': 'm1', 'patch': patch(('result', 'error', 'callback')[i], i)} for i in range(n_patches)]
                ops += [request(EPS[0], call('m1', i, [i])) for i in range(k_calls)]
                ops.append({'op': 'replace', 'ep': EPS[0], 'm': 'm1', 'idx': str(idx), 'patch': patch('result', 77)})
                ops += [request(EPS[0], call('m1', 10 + i)) for i in range(n_patches + 1)]
                yield {'suite': NAME, 'passthrough': False, 'ops': ops}
    n = 20000 if thorough else 2500
    for i in range(n):
        length = rng.choice([2, 3, 4, 4, 5, 6] if not thorough else [3, 4, 5, 6, 6, 8, 10])
        yield {'suite': NAME, 'passthrough': rng.random() < 0.4, 'ops': gen_history(rng, length, counters)}


# ------------------------------------------------------------------------------------------------
# implementation
# ------------------------------------------------------------------------------------------------

class CallbackError(Exception):
    pass


def _kwargs(p):
    kw = {'once': p['once']}
    pl = p['payload']
    if pl['k'] == 'result':
        kw['result'] = dec(pl['v'])
    elif pl['k'] == 'error':
        e = pl['err']
        kw['error'] = U.BY_NAME[e['cls']](int(e['code']), e['message'], **({} if e['data'] is None else {'data': dec(e['data']['v'])}))
    elif pl['k'] == 'callback':
        tag = pl['tag']

        def cb(*args, **kwargs):
            return ['callback', tag, list(args) if args or not kwargs else kwargs]
        kw['callback'] = cb
    elif pl['k'] == 'callback_raises':
        def cb_raises(*args, **kwargs):
            raise CallbackError('the configured callback raises')
        kw['callback'] = cb_raises
    if p['id'] is not None:
        kw['id'] = dec(p['id'])
    return kw


def _enc_params_of_call(c):
    args, kwargs = c.args, c.kwargs
    if kwargs:
        return {'k': 'named', 'v': enc(kwargs)}
    return {'k': 'pos', 'v': enc(list(args))}


def run_half(c, half):
    from .. import mocktarget
    if half == 'requests':
        import pjrpc.client.backend.requests as rb
        target, mk, is_async = 'pjrpc.client.backend.requests.Client._request', (lambda ep: rb.Client(ep)), False
    elif half == 'sync':
        target, mk, is_async = 'harness.mocktarget.SyncClient._request', mocktarget.SyncClient, False
    else:
        target, mk, is_async = 'harness.mocktarget.AsyncClient._request', mocktarget.AsyncClient, True
    mocker = PjRpcMocker(target, passthrough=c['passthrough'])
    mocker.start()
    clients = {ep: mk(ep) for ep in EPS}
    outs = []
    try:
        for o in c['ops']:
            op = o['op']
            try:
                if op == 'add':
                    mocker.add(o['ep'], o['m'], **_kwargs(o['patch']))
                    outs.append('ok')
                elif op == 'replace':
                    mocker.replace(o['ep'], o['m'], idx=int(o['idx']), **_kwargs(o['patch']))
                    outs.append('ok')
                elif op == 'remove':
                    mocker.remove(o['ep'], o['m'])
                    outs.append('ok')
                elif op == 'reset':
                    mocker.reset()
                    outs.append('ok')
                else:
                    cl = clients[o['ep']]
                    # the flag a real client passes: the request (or every element of the batch) carries no id
                    try:
                        _d = json.loads(o['text'])
                        _n = (all(isinstance(x, dict) and 'id' not in x for x in _d) and bool(_d)) if isinstance(_d, list) else \
                            (isinstance(_d, dict) and 'id' not in _d)
                    except ValueError:
                        _n = False
                    r = cl._request(o['text'], _n)
                    if is_async:
                        r = S.loop().run_until_complete(r)
                    if isinstance(r, str) and r.startswith('ORIGINAL:'):
                        outs.append({'k': 'passthrough'})
                    else:
                        outs.append({'k': 'text', 'doc': enc(json.loads(r))})
            except ConnectionRefusedError:
                outs.append({'k': 'refused'})
            except Exception as e:  # noqa
                if half == 'requests' and c['passthrough'] and op == 'request' and not isinstance(e, (AssertionError, pjrpc.exc.BaseError, IndexError, KeyError, CallbackError)):
                    outs.append({'k': 'passthrough'})      # the real transport was reached (and has no network)
                else:
                    outs.append({'k': 'raised', 'exc': core.exc_name(e)})
        calls = []
        for ep, by in mocker.calls.items():
            ms = []
            for (version, m), stub in by.items():
                ms.append({'m': m, 'calls': [_enc_params_of_call(x) for x in stub.call_args_list], 'version': version})
            calls.append({'ep': ep, 'methods': ms})
    finally:
        try:
            mocker.stop()
        except Exception:  # noqa
            pass
    return {'outs': outs, 'calls': calls}


def run_impl(c):
    return {h: run_half(c, h) for h in HALVES}


def halves(out):
    if 'sync' in out:
        return out
    return {h: out for h in HALVES}


def relevant(prop, c):
    return prop in ('C20', 'C11')


def _norm_calls(calls):
    """calls as {ep: {m: [params]}}; positional empty vs named empty are one thing on the wire"""
    res = {}
    for e in calls:
        for m in e['methods']:
            if m['calls']:
                res.setdefault(e['ep'], {})[m['m']] = [json.dumps(core.canon(p['v'])) if p['k'] != 'none' else '["a",[]]' for p in m['calls']]
    return res


def _proj(o):
    return {'outs': o['outs'], 'calls': _norm_calls(o['calls'])}


def project(prop, c, out):
    if prop not in ('C20', 'C11'):
        return None
    hs = halves(out)
    return {h: _proj(hs[h]) for h in HALVES}


def label(c, mo):
    kinds = sorted({o['op'] for o in c['ops']})
    reps = sorted({(o['k'] if isinstance(o, dict) else 'op') for o in mo['outs']})
    return f'mocker/{"+".join(kinds)}/{"+".join(reps)}/n={min(len(c["ops"]), 8)}'


# ------------------------------------------------------------------------------------------------
# oracle: a reference simulator written from the property's words (round-robin, once, recorded)
# ------------------------------------------------------------------------------------------------

def reference(c):
    patches = {}      # ep -> m -> list of patches, in order of addition / rotation
    calls = {}
    outs = []
    for o in c['ops']:
        op = o['op']
        if op == 'add':
            patches.setdefault(o['ep'], {}).setdefault(o['m'], []).append(o['patch'])
            outs.append('ok')
        elif op == 'replace':
            patches[o['ep']][o['m']][int(o['idx'])] = o['patch']
            outs.append('ok')
        elif op == 'remove':
            if o['m'] is None:
                patches.pop(o['ep'], None)
            else:
                patches.get(o['ep'], {}).pop(o['m'], None)
                if not patches.get(o['ep']):
                    patches.pop(o['ep'], None)
            outs.append('ok')
        elif op == 'reset':
            patches.clear()
            calls.clear()
            outs.append('ok')
        else:
            ep = o['ep']
            if not patches.get(ep):
                outs.append({'k': 'passthrough'} if c['passthrough'] else {'k': 'refused'})
                continue
            doc = json.loads(o['text'])
            elems = doc if isinstance(doc, list) else [doc]
            replies = []
            bad = None
            for e in elems:
                m = e['method']
                q = patches.get(ep, {}).get(m)
                rid = e.get('id')
                params = e.get('params', [])
                if q is None:
                    replies.append({'jsonrpc': '2.0', 'id': rid, 'error': {'code': -32601, 'message': 'Method not found', 'data': m}})
                    continue
                p = q.pop(0)
                if not p['once']:
                    q.append(p)
                if not q:
                    patches[ep].pop(m)
                    if not patches[ep]:
                        patches.pop(ep)
                calls.setdefault(ep, {}).setdefault(m, []).append(json.dumps(core.canon(enc(params))))
                pl = p['payload']
                use_id = rid if rid is not None else (None if p['id'] is None else dec(p['id']))
                if pl['k'] == 'callback':
                    replies.append({'jsonrpc': '2.0', 'id': rid, 'result': ['callback', pl['tag'], params]})
                elif pl['k'] == 'result':
                    replies.append({'jsonrpc': '2.0', 'id': use_id, 'result': dec(pl['v'])})
                elif pl['k'] == 'error':
                    e2 = pl['err']
                    err = {'code': int(e2['code']), 'message': e2['message']}
                    if e2['data'] is not None:
                        err['data'] = dec(e2['data']['v'])
                    replies.append({'jsonrpc': '2.0', 'id': use_id, 'error': err})
                elif pl['k'] == 'callback_raises':
                    bad = 'CallbackError'
                    break
                else:
                    bad = 'AssertionError'
                    break
            if bad:
                outs.append({'k': 'raised', 'exc': bad})
            else:
                outs.append({'k': 'text', 'doc': enc(replies if isinstance(doc, list) else replies[0])})
    return {'outs': outs, 'calls': calls}


def oracle(prop, c, out):
    f = []
    if prop == 'C11':
        if _proj(out['sync']) != _proj(out['async']):
            f.append(Finding(prop, 'twin-diff:mocker', 'the mocker answers sync and async transports differently', c,
                             {'sync': _proj(out['sync']), 'async': _proj(out['async'])}))
        return f
    if prop != 'C20':
        return f
    want = reference(c)
    for h in HALVES:
        o = out[h]
        got_calls = _norm_calls(o['calls'])
        for i, (g, w) in enumerate(zip(o['outs'], want['outs'])):
            if core.canon(g) != core.canon(w):
                op = c['ops'][i]
                key = 'mocker-reply' if op['op'] == 'request' else 'mocker-op'
                if isinstance(w, dict) and isinstance(g, dict) and w.get('k') != g.get('k'):
                    key = f'mocker-{w.get("k")}-expected'
                f.append(Finding(prop, key, f'[{h}] operation {i} ({op["op"]}) answered differently from the configuration', c,
                                 {'got': g, 'outs': o['outs']}, w))
                break
        else:
            if got_calls != want['calls']:
                f.append(Finding(prop, 'mocker-calls', f'[{h}] recorded calls differ from the calls made', c, got_calls, want['calls']))
    return f
