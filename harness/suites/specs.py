"""
Suite `specs` (C16): OpenAPI 3.x / OpenRPC generation over method sets x annotation combinations x
extractor stacks x endpoint prefixes x repeated generations.  The real documents are abstracted to the
model's vocabulary (path keys, per-method error codes / tags / $ref targets, component key set); the
model's inputs per method come from generating that method *alone*.
"""
# NOTE: no `from __future__ import annotations` here: the template functions below need real annotation objects
import copy
import itertools
import json
import types
from typing import Any, Dict, List, Optional

import pydantic

from .. import core
from ..core import enc, dec, Finding
from .. import userclasses as U

import pjrpc
import pjrpc.server
from pjrpc.common import exceptions as E
from pjrpc.server import utils
from pjrpc.server.specs import openapi, openrpc, JSONEncoder as SpecEncoder
from pjrpc.server.specs.extractors import BaseSchemaExtractor
from pjrpc.server.specs.extractors.docstring import DocstringSchemaExtractor
from pjrpc.server.specs.extractors.pydantic import PydanticSchemaExtractor

NAME = 'specs'
SERIAL = True
REF = '#/components/schemas/'


class Point(pydantic.BaseModel):
    x: int
    y: int = 0


class Shape(pydantic.BaseModel):
    points: List[Point]
    name: Optional[str] = None


def t_scalar(a: int, b: str = 'x') -> int:
    """Scalar method.

    Adds things.

    :param integer a: first
    :param string b: second
    :raises UserError2001: when bad
    :returns: result
    :rtype: integer
    """


def t_container(items: List[int], opts: Dict[str, float] = {}) -> List[str]:
    """Container method."""


def t_model(p: Point) -> Point:
    """Model method.

    :raises MethodNotFoundError: never
    :raises UserError2002: sometimes
    """


def t_nested(s: Shape, scale: Optional[float] = None) -> None:
    pass


def t_noann(a, b=1):
    """No annotations.

    .. deprecated:: 1.0
       old
    """


def t_ctx(ctx, a: int) -> Optional[Point]:
    """Context method."""


def t_untyped(a, b=1):
    """Untyped docstring.

    :param a: first
    :returns: something
    """


TEMPLATES = {f.__name__[2:]: f for f in (t_scalar, t_container, t_model, t_nested, t_noann, t_ctx, t_untyped)}
ERR = {'2001': U.UserError2001, '2002': U.UserError2002, 'notfound': E.MethodNotFoundError, 'zero': U.UserErrorZero, 'params': E.InvalidParamsError}


def fresh(name):
    f = TEMPLATES[name]
    g = types.FunctionType(f.__code__, f.__globals__, f.__name__, f.__defaults__, f.__closure__)
    g.__doc__ = f.__doc__
    g.__annotations__ = dict(f.__annotations__)
    g.__kwdefaults__ = f.__kwdefaults__
    return g


GATE = {'hook': None}


def extractor(kind):
    ex = {'pydantic': PydanticSchemaExtractor, 'docstring': DocstringSchemaExtractor, 'base': BaseSchemaExtractor}[kind]()
    # every extract_* call passes the harness' gate first (a no-op unless a case installs a hook): this is how a second generation
    # on the same spec object is made to run while the first one is half-way through its methods
    for name in dir(ex):
        if name.startswith('extract') and callable(getattr(ex, name)):
            def gated(*a, _f=getattr(ex, name), **k):
                h = GATE['hook']
                if h is not None:
                    h()
                return _f(*a, **k)
            setattr(ex, name, gated)
    return ex


def overlapped(c, b, first_doc):
    """two generations on ONE spec object that overlap in time (two requests for the document on a threaded server): while the
    first is between two of its methods, another thread generates the whole document; both must equal the document of an
    undisturbed generation"""
    import threading
    state = {'calls': 0, 'main': threading.get_ident(), 'other': None, 'done': False}

    def hook():
        if threading.get_ident() != state['main'] or state['done']:
            return
        state['calls'] += 1
        if state['calls'] == 4:              # after the first method's extractions, before the later ones
            state['done'] = True

            def run():
                try:
                    state['other'] = b.generate(c)
                except Exception as e:  # noqa
                    state['other'] = {'raised': core.exc_name(e)}
            t = threading.Thread(target=run, daemon=True)
            t.start()
            t.join(timeout=0.3)
            if t.is_alive():
                # the library serialises generations (a lock around schema()): the second one runs when the first is through
                state['deferred'] = t
    GATE['hook'] = hook
    try:
        mine = b.generate(c)
    finally:
        GATE['hook'] = None
    if state.get('deferred') is not None:
        state['deferred'].join(timeout=30)
        if state['deferred'].is_alive():
            return ['the second generation never finished']
    if not state['done']:
        return None                          # too few extractor calls for an overlap
    bad = []
    if mine != first_doc:
        bad.append('the interrupted generation')
    if state['other'] != first_doc:
        bad.append('the generation that ran in between')
    if dangling(mine) or (isinstance(state['other'], dict) and 'raised' not in state['other'] and dangling(state['other'])):
        bad.append('dangling $ref')
    return bad


class Built:
    """fresh method objects + annotations for one generation run"""

    def __init__(self, c, only=None):
        self.lists = {}                      # shared `errors` list objects, by cell number
        self.methods = []                    # (endpoint, pjrpc Method)
        self.funcs = []
        self.errobjs = {}                    # annotated openrpc.Error objects (own wording), shared between the methods that name them
        kind = c['kind']
        for i, m in enumerate(c['methods']):
            if only is not None and i != only:
                continue
            f = fresh(m['template'])
            ann = m.get('ann') or {}
            kw = {}
            if ann.get('cell') is not None:
                cell = ann['cell']
                if cell not in self.lists:
                    self.lists[cell] = [ERR[e] for e in c['heap'][cell]]
                if kind == 'openrpc' and ann.get('err_obj'):
                    # the user's own Error objects (their wording, not the class's), one object shared by every method naming it
                    for e in c['heap'][cell]:
                        if e not in self.errobjs:
                            self.errobjs[e] = openrpc.Error(code=ERR[e].code, message=f'annotated wording of {e}', data={'kind': e})
                    kw['errors'] = [self.errobjs[e] for e in c['heap'][cell]]
                elif kind == 'openrpc':
                    # the OpenRPC annotation converts the classes into Error objects (a new list per method)
                    kw['errors'] = self.lists[cell]
                else:
                    kw['errors'] = self.lists[cell]
            if ann.get('tags'):
                kw['tags'] = list(ann['tags'])
            for k in ('summary', 'description', 'deprecated'):
                if ann.get(k) is not None:
                    kw[k] = ann[k]
            if kind != 'openrpc':
                if ann.get('prefix') is not None:
                    kw['component_name_prefix'] = ann['prefix']
                if ann.get('examples'):
                    kw['examples'] = [openapi.MethodExample(params={'a': 1}, result=None if ann['examples'] == 'null' else 1, summary='ex')]
                if ann.get('servers'):
                    kw['servers'] = [openapi.Server(url='http://srv')]
                if ann.get('security'):
                    kw['security'] = [{'basic': []}]
                if ann.get('params_schema'):
                    # the user's own request schema: nothing is extracted for the request, the response still is
                    kw['params_schema'] = {'a': {'type': 'integer'}, 'b': {'type': 'string'}}
                if kw:
                    openapi.annotate(**kw)(f)
            else:
                if ann.get('examples'):
                    nul = ann['examples'] == 'null'          # an example whose value is null is still an example with a value
                    kw['examples'] = [openrpc.MethodExample(name='ex', params=[openrpc.ExampleObject(name='a', value=None if nul else 1)],
                                                            result=openrpc.ExampleObject(name='r', value=None if nul else 1))]
                if ann.get('servers'):
                    kw['servers'] = [openrpc.Server(name='s', url='http://srv')]
                if ann.get('params_schema'):
                    # the user's own descriptor list, an optional one listed before a required one: generation reads it, never reorders it
                    kw['params_schema'] = [openrpc.ContentDescriptor(name='opt', schema={'type': 'string'}, required=False),
                                           openrpc.ContentDescriptor(name='req', schema={'type': 'integer'}, required=True)]
                if kw:
                    openrpc.annotate(**kw)(f)
            self.funcs.append(f)
            self.methods.append((m['endpoint'], pjrpc.server.Method(f, m['name'], 'ctx' if m['template'] == 'ctx' else None)))
        if kind == 'openrpc':
            self.spec = openrpc.OpenRPC(info=openrpc.Info(title='T', version='1'), schema_extractor=extractor(c['extractors'][0]))
        else:
            self.info = openapi.Info(title='T', version='1')
            self.tags = [openapi.Tag(name='t1', description='d')]
            self.spec = openapi.OpenAPI(
                info=self.info, tags=self.tags, openapi=c['version'],
                schema_extractors=[extractor(k) for k in c['extractors']],
                security_schemes={'basic': openapi.SecurityScheme(type=openapi.SecuritySchemeType.HTTP, scheme='basic')},
                error_http_status_map=dict((int(k), v) for k, v in (c.get('status_map') or {}).items()),
            )

    def methods_map(self):
        mm = {}
        for ep, m in self.methods:
            mm.setdefault(ep, []).append(m)
        return mm

    def generate(self, c):
        if c['kind'] == 'openrpc':
            doc = self.spec.schema(path=c['path'], methods_map=self.methods_map())
        else:
            doc = self.spec.schema(path=c['path'], methods_map=self.methods_map(), component_name_prefix=c.get('default_prefix', ''))
        return json.loads(json.dumps(doc, cls=SpecEncoder))

    def snapshot(self):
        """annotations and user objects, by value"""
        snap = {'lists': {k: [e.__name__ for e in v] for k, v in self.lists.items()},
                'errobjs': {k: repr(v) for k, v in sorted(self.errobjs.items())}}
        metas = []
        for f in self.funcs:
            meta = utils.get_meta(f)
            metas.append(json.loads(json.dumps(meta, default=lambda o: getattr(o, '__name__', None) or repr(o))))
        snap['meta'] = metas
        # the function objects themselves: their annotations and signature
        import inspect as _inspect
        snap['funcs'] = [[sorted((k, repr(v)) for k, v in f.__annotations__.items()), str(_inspect.signature(f)), f.__doc__] for f in self.funcs]
        if hasattr(self, 'info'):
            snap['info'] = repr(self.info)
            snap['tags'] = repr(self.tags)
        return snap


# ------------------------------------------------------------------------------------------------
# abstraction of a document
# ------------------------------------------------------------------------------------------------

def walk(node, fn):
    fn(node)
    if isinstance(node, dict):
        for v in node.values():
            walk(v, fn)
    elif isinstance(node, list):
        for v in node:
            walk(v, fn)


def refs_in(node):
    out = []

    def visit(n):
        if isinstance(n, dict) and isinstance(n.get('$ref'), str):
            out.append(n['$ref'])
    walk(node, visit)
    return out


def codes_in(doc, node, seen=None):
    """error codes documented under a node: `properties.code.const`, following $refs"""
    seen = set() if seen is None else seen
    codes = []

    def visit(n):
        if isinstance(n, dict):
            props = n.get('properties')
            if isinstance(props, dict) and isinstance(props.get('code'), dict):
                cd = props['code']
                if 'const' in cd and isinstance(cd['const'], int):
                    codes.append(cd['const'])
                elif isinstance(cd.get('enum'), list) and len(cd['enum']) == 1:
                    codes.append(cd['enum'][0])
            r = n.get('$ref')
            if isinstance(r, str) and r.startswith(REF) and r not in seen:
                seen.add(r)
                target = (doc.get('components', {}).get('schemas') or {}).get(r[len(REF):])
                if target is not None:
                    codes.extend(codes_in(doc, target, seen))
    walk(node, visit)
    return codes


def inline(doc, node, depth=0):
    """the node with every local $ref replaced by its target (content-level view of an entry)"""
    if depth > 12:
        return '<deep>'
    if isinstance(node, dict):
        r = node.get('$ref')
        if isinstance(r, str) and r.startswith(REF):
            target = (doc.get('components', {}).get('schemas') or {}).get(r[len(REF):])
            return {'<ref>': inline(doc, target, depth + 1)}
        return {k: inline(doc, v, depth) for k, v in node.items()}
    if isinstance(node, list):
        return [inline(doc, v, depth) for v in node]
    return node


def digest(doc, node):
    import hashlib
    return hashlib.sha256(json.dumps(inline(doc, node), sort_keys=True).encode()).hexdigest()[:16]


def abstract(c, doc):
    comps = sorted((doc.get('components', {}).get('schemas') or {}).keys())
    entries = {}
    if c['kind'] == 'openrpc':
        for m in doc.get('methods', []):
            entries.setdefault(m['name'], []).append({
                'errors': sorted(str(e['code']) for e in m.get('errors', [])),
                'tags': [t.get('name') for t in m.get('tags', [])],
                'refs': sorted({r[len(REF):] for r in refs_in([m.get('params'), m.get('result')]) if r.startswith(REF)}),
                'digest': digest(doc, m),
            })
    else:
        for key, item in doc.get('paths', {}).items():
            op = item['post']
            entries.setdefault(key, []).append({
                'errors': sorted({str(x) for x in codes_in(doc, op.get('responses', {}))}),
                'tags': list(op.get('tags', [])),
                'refs': sorted({r[len(REF):] for r in refs_in(op) if r.startswith(REF)}),
                'digest': digest(doc, op),
            })
    return {'entries': entries, 'components': comps}


def dangling(doc):
    have = set((doc.get('components', {}).get('schemas') or {}).keys())
    return sorted({r for r in refs_in(doc) if r.startswith(REF) and r[len(REF):] not in have} | {r for r in refs_in(doc) if not r.startswith('#/')})


_META = {}


def metaschema(c):
    import yaml
    key = 'openrpc' if c['kind'] == 'openrpc' else c['version'][:3]
    if key not in _META:
        res = core.REPO / 'tests' / 'server' / 'resources'
        if key == 'openrpc':
            _META[key] = json.loads((res / 'openrpc-1.3.2.json').read_text())
        else:
            _META[key] = yaml.unsafe_load((res / ('oas-3.1-meta.yaml' if key == '3.1' else 'oas-3.0-meta.yaml')).read_text())
    return _META[key]


# ------------------------------------------------------------------------------------------------
# generation of cases
# ------------------------------------------------------------------------------------------------

def make_case(kind, methods, heap, extractors, version='3.1.0', path='/api/v1', generations=2, default_prefix='', status_map=None):
    return {'suite': NAME, 'op': kind, 'kind': kind, 'methods': methods, 'heap': heap, 'extractors': extractors, 'version': version,
            'path': path, 'generations': str(generations), 'default_prefix': default_prefix, 'status_map': status_map, 'copy': True,
            'tag': 'specs'}


PATHS = ['', '/', '/api', '/api/', 'api', '/api/v1', '//a//', 'a/b/', '/x#y', 'é/ü']
PARTS = ['', '/', 'v1', '/v1', 'v1/', '/v1/', '//v1', 'openapi.json', '/openapi.json', 'ui/', '#/components/schemas/', '#/components/schemas/User', 'User']


def gen_utils(tier, rng):
    """pjrpc/server/utils.py join_path / remove_prefix / remove_suffix against the model's joinPaths / removePrefix / removeSuffix"""
    for a in PATHS:
        for b in PARTS:
            yield {'suite': NAME, 'op': 'utils', 'fn': 'join_path', 'a': a, 'parts': [b]}
            yield {'suite': NAME, 'op': 'utils', 'fn': 'remove_prefix', 'a': a + b, 'b': a}
            yield {'suite': NAME, 'op': 'utils', 'fn': 'remove_suffix', 'a': a + b, 'b': b}
            yield {'suite': NAME, 'op': 'utils', 'fn': 'remove_prefix', 'a': a, 'b': b}
            yield {'suite': NAME, 'op': 'utils', 'fn': 'remove_suffix', 'a': a, 'b': b}
            for c2 in PARTS[:8]:
                yield {'suite': NAME, 'op': 'utils', 'fn': 'join_path', 'a': a, 'parts': [b, c2]}
    yield {'suite': NAME, 'op': 'utils', 'fn': 'join_path', 'a': '/api', 'parts': []}


def generate(tier, rng):
    yield from gen_utils(tier, rng)
    yield from _generate(tier, rng)


def _generate(tier, rng):
    thorough = tier == 'thorough'
    names = [n for n in TEMPLATES if n != 'untyped']
    stacks = {'openapi': [['pydantic'], ['docstring', 'pydantic'], ['pydantic', 'docstring'], ['docstring']],
              'openrpc': [['pydantic'], ['docstring'], ['base']]}
    n_cases = 1200 if thorough else 110
    for i in range(n_cases):
        kind = 'openrpc' if i % 3 == 2 else 'openapi'
        n = rng.randrange(1, 5)
        heap = [rng.sample(['2001', '2002', 'notfound', 'zero'], rng.randrange(1, 3)) for _ in range(rng.randrange(0, 3))]
        methods, used = [], set()
        for j in range(n):
            tpl = rng.choice(names)
            endpoint = '' if kind == 'openrpc' else rng.choice(['', '', 'sub', '/v2/'])
            name = rng.choice([tpl, f'{tpl}{j}', 'ns.' + tpl])
            if (endpoint, name) in used:
                name = f'{name}_{j}'
            used.add((endpoint, name))
            ann = {}
            if heap and rng.random() < 0.6:
                ann['cell'] = rng.randrange(len(heap))
            if rng.random() < 0.5:
                ann['tags'] = rng.sample(['t1', 't2', 't3'], rng.randrange(1, 3))
            if rng.random() < 0.3:
                ann['summary'] = f'summary {j}'
            if rng.random() < 0.2:
                ann['description'] = f'description {j}'
            if rng.random() < 0.2:
                ann['deprecated'] = True
            if rng.random() < 0.3:
                ann['examples'] = rng.choice([True, True, 'null'])
            if rng.random() < 0.2:
                ann['servers'] = True
            if rng.random() < (0.3 if kind == 'openrpc' else 0.2):
                ann['params_schema'] = True
            if kind == 'openrpc' and ann.get('cell') is not None and rng.random() < 0.4:
                ann['err_obj'] = True
            if kind == 'openapi':
                if rng.random() < 0.35:
                    ann['prefix'] = rng.choice(['P', 'Q_', ''])
                if rng.random() < 0.2:
                    ann['security'] = True
            methods.append({'template': tpl, 'endpoint': endpoint, 'name': name, 'ann': ann})
        stack = rng.choice(stacks[kind])
        # error responses under their own HTTP status are rendered (with their codes) by the pydantic extractor only
        status_map = rng.choice([None, None, {'2001': 418, '-32601': 404}]) if (kind == 'openapi' and stack[0] == 'pydantic') else None
        cs = make_case(kind, methods, heap, stack, version=rng.choice(['3.1.0', '3.1.0', '3.0.3']),
                       path=rng.choice(['/api/v1', '/', '/rpc/']), generations=rng.randrange(1, 4),
                       default_prefix=rng.choice(['', '', 'D']) if kind == 'openapi' else '', status_map=status_map)
        if rng.random() < 0.35:
            cs['pregen'] = True
        if kind == 'openapi' and rng.random() < 0.5:
            cs['served'] = rng.choice(['', '', '/openapi.json', '/spec'])
        yield cs
    # the canonical D13 / D14 / D15 / D22 probes
    yield make_case('openapi', [{'template': 'scalar', 'endpoint': '', 'name': 'a', 'ann': {'cell': 0}},
                                {'template': 'container', 'endpoint': '', 'name': 'b', 'ann': {'cell': 0}}], [['2002']], ['docstring', 'pydantic'], generations=3)
    yield make_case('openrpc', [{'template': 'scalar', 'endpoint': '', 'name': 'a', 'ann': {'cell': 0}},
                                {'template': 'model', 'endpoint': '', 'name': 'b', 'ann': {'cell': 0}}], [['zero']], ['docstring'], generations=3)
    yield make_case('openapi', [{'template': 'model', 'endpoint': '', 'name': 'a', 'ann': {'prefix': 'P'}},
                                {'template': 'nested', 'endpoint': '', 'name': 'b', 'ann': {}}], [], ['pydantic'])
    yield make_case('openrpc', [{'template': 'scalar', 'endpoint': '', 'name': 'a', 'ann': {}}], [], ['base'])
    # the user's own request schema on the first / only method: its extracted response components are still registered
    for t in ('model', 'ctx', 'container'):
        for v in ('3.1.0', '3.0.3'):
            yield make_case('openapi', [{'template': t, 'endpoint': '', 'name': 'first', 'ann': {'params_schema': True}}], [], ['pydantic'], version=v)
            yield make_case('openapi', [{'template': t, 'endpoint': '', 'name': 'first', 'ann': {'params_schema': True}},
                                        {'template': 'model', 'endpoint': '', 'name': 'second', 'ann': {}}], [], ['pydantic'], version=v)
    # an annotated Error object (own wording) whose code a docstring of ANOTHER method also raises, shared by two methods
    for order in (('scalar', 'container'), ('container', 'scalar'), ('model', 'nested'), ('scalar', 'scalar')):
        for cell in (['2001'], ['2002', '2001'], ['notfound']):
            yield make_case('openrpc', [{'template': order[0], 'endpoint': '', 'name': 'm1', 'ann': {'cell': 0, 'err_obj': True}},
                                        {'template': order[1], 'endpoint': '', 'name': 'm2', 'ann': {'cell': 0, 'err_obj': True}}],
                            [cell], ['docstring'], generations=2)
    # two different methods exposed under the SAME name on two endpoints, kept apart by their own component prefixes
    for t1, t2 in (('scalar', 'model'), ('model', 'nested'), ('container', 'scalar')):
        for gens in (1, 2):
            yield make_case('openapi', [{'template': t1, 'endpoint': 'v1', 'name': 'fetch', 'ann': {'prefix': 'V1'}},
                                        {'template': t2, 'endpoint': 'v2', 'name': 'fetch', 'ann': {'prefix': 'V2'}}], [], ['pydantic'], generations=gens)
    for kind, stack in (('openapi', ['docstring']), ('openrpc', ['docstring'])):
        yield make_case(kind, [{'template': 'untyped', 'endpoint': '', 'name': 'u', 'ann': {}}], [], stack)
    yield make_case('openapi', [{'template': 'scalar', 'endpoint': 'v1', 'name': 'get', 'ann': {}},
                                {'template': 'model', 'endpoint': 'v2', 'name': 'get', 'ann': {}}], [], ['pydantic'])


# ------------------------------------------------------------------------------------------------
# implementation + model inputs
# ------------------------------------------------------------------------------------------------

def run_impl(c):
    if c['op'] == 'utils':
        f = getattr(utils, c['fn'])
        try:
            return {'v': f(c['a'], *c['parts']) if c['fn'] == 'join_path' else f(c['a'], c['b'])}
        except Exception as e:  # noqa
            return {'raised': core.exc_name(e)}
    out = {'docs': [], 'problems': []}
    b = Built(c)
    before = b.snapshot()
    try:
        if c.get('pregen'):
            # the same spec object has served another registry / component prefix before: nothing of it may show up now
            other = {'/zz': [pjrpc.server.Method(fresh('nested'), 'zz_other', None), pjrpc.server.Method(fresh('model'), 'zz_model', None)]}
            if c['kind'] == 'openrpc':
                b.spec.schema(path='/zz', methods_map=other)
            else:
                b.spec.schema(path='/zz', methods_map=other, component_name_prefix='Zz')
        for g in range(int(c['generations'])):
            doc = b.generate(c)
            out['docs'].append(abstract(c, doc))
            d = dangling(doc)
            if d:
                out['problems'].append({'k': 'dangling-ref', 'refs': d, 'generation': g})
            try:
                import jsonschema
                jsonschema.validate(doc, metaschema(c))
            except Exception as e:  # noqa
                msg = str(e).split('\n')[0][:200]
                where = '/'.join(str(x) for x in list(getattr(e, 'absolute_path', []))[-2:])
                out['problems'].append({'k': 'metaschema', 'what': msg, 'generation': g, 'where': f'{getattr(e, "validator", "?")}@{where}',
                                        'version': c['version'][:3] if c['kind'] != 'openrpc' else 'openrpc'})
            if g and doc != out.get('_first'):
                out['problems'].append({'k': 'not-deterministic', 'generation': g})
            out.setdefault('_first', doc)
    except Exception as e:  # noqa
        out['raised'] = core.exc_name(e)
    if 'raised' not in out and '_first' in out and len(c['methods']) >= 2:
        try:
            ov = overlapped(c, b, out['_first'])
        except Exception as e:  # noqa
            ov = [f'raised {core.exc_name(e)}']
        if ov:
            out['problems'].append({'k': 'overlapping-generations', 'what': '; '.join(ov), 'generation': 0})
    out.pop('_first', None)
    if c.get('served') is not None and c['kind'] == 'openapi' and 'raised' not in out:
        try:
            out['served_equal'] = served_equals_direct(c, b)
        except Exception as e:  # noqa
            out['served_equal'] = f'raised {core.exc_name(e)}'
        if out['served_equal'] is not True:
            out['problems'].append({'k': 'served-differs', 'what': str(out['served_equal'])[:300], 'generation': 0})
    after = b.snapshot()
    out['mutated'] = [k for k in before if before[k] != after[k]]
    out['heap_after'] = [[_code_of(n) for n in after['lists'].get(i, [ERR[e].__name__ for e in cell])] for i, cell in enumerate(c['heap'])]
    # every method generated alone: the model's per-method inputs and the no-leak reference
    alone = []
    for i, m in enumerate(c['methods']):
        try:
            bi = Built(c, only=i)
            alone.append(abstract(c, bi.generate(c)))
        except Exception as e:  # noqa
            alone.append({'raised': core.exc_name(e)})
    out['alone'] = alone
    return out


def served_equals_direct(c, b):
    """the document an integration serves on its spec route is the document `generate_spec` gives for the endpoint path"""
    import flask
    from pjrpc.server.integration import flask as fl
    spec = b.spec
    spec._path = c['served']                       # where the document is served, relative to the endpoint ('' = on the endpoint itself)
    base = '/api/v1'
    rpc = fl.JsonRPC(base, spec=spec)
    for ep, m in b.methods:
        if not ep.strip('/'):
            rpc.dispatcher.add_methods(m)
    for ep in sorted({e.strip('/') for e, _ in b.methods if e.strip('/')}):
        d = rpc.add_endpoint('/' + ep)
        d.add_methods(*[m for e, m in b.methods if e.strip('/') == ep])
    app = flask.Flask(f'verif-spec-{id(b)}')
    rpc.init_app(app)
    resp = app.test_client().get(base + c['served'])
    if resp.status_code != 200:
        return f'GET {base + c["served"]} -> {resp.status_code}'
    served = json.loads(resp.get_data().decode())
    direct = json.loads(json.dumps(rpc.generate_spec(spec, path=base), cls=SpecEncoder))
    if served == direct:
        return True
    return {'served_paths': sorted(served.get('paths', {}))[:4], 'direct_paths': sorted(direct.get('paths', {}))[:4]}


def _code_of(class_name):
    return str(U.BY_NAME[class_name].code)


def heap_codes(c):
    return [[str(ERR[e].code) for e in cell] for cell in c['heap']]


def prefix_of(c, m):
    p = (m.get('ann') or {}).get('prefix')
    return p if p else c.get('default_prefix', '')


def model_case(c, impl_out):
    """per-method inputs read from the isolated generations"""
    if c['op'] == 'utils':
        return c
    ms = []
    for m, a in zip(c['methods'], impl_out['alone']):
        if 'raised' in a:
            entry, comps = {'errors': [], 'tags': [], 'refs': []}, []
        else:
            entry = next(iter(a['entries'].values()))[0] if a['entries'] else {'errors': [], 'tags': [], 'refs': []}
            comps = a['components']
        pfx = prefix_of(c, m) if c['kind'] != 'openrpc' else ''
        strip = (lambda s: s[len(pfx):] if pfx and s.startswith(pfx) else s)
        ann = m.get('ann') or {}
        cell = ann.get('cell')
        annotated = set(heap_codes(c)[cell]) if cell is not None else set()
        ms.append({'endpoint': m['endpoint'], 'name': m['name'], 'cell': None if cell is None else str(cell),
                   'ext': [e for e in entry['errors'] if e not in annotated],
                   'prefix': ann.get('prefix') if c['kind'] != 'openrpc' else None, 'tags': entry['tags'],
                   'comps': [strip(x) for x in comps], 'refs': [strip(x) for x in entry['refs']]})
    mc = dict(c)
    mc['methods'] = ms
    mc['heap'] = heap_codes(c)
    mc['op'] = c['kind']
    return mc


def relevant(prop, c):
    return prop == 'C16'


def component_collision(c, impl_out):
    """two methods whose isolated generations define one component name differently (D22)"""
    return False


def _proj_model(c, mo):
    docs = []
    for d in mo['docs']:
        entries = {}
        for e in d['paths']:
            entries.setdefault(e['key'], []).append({'errors': sorted(e['errors'], key=str), 'tags': e['tags'], 'refs': sorted(set(e['refs']))})
        docs.append({'entries': entries, 'components': sorted(d['components'])})
    return {'docs': docs, 'heap': mo['heap']}


def _norm_doc(d):
    return {'entries': {k: [{'errors': sorted(e['errors'], key=str), 'tags': e['tags'], 'refs': sorted(set(e['refs']))} for e in v]
                        for k, v in d['entries'].items()}, 'components': sorted(d['components'])}


def project(prop, c, out):
    if prop != 'C16':
        return None
    if c['op'] == 'utils':
        return out
    if 'alone' in out:
        if 'raised' in out:
            return {'raised': out['raised']}
        return {'docs': [_norm_doc(d) for d in out['docs']], 'heap': out['heap_after']}
    return _proj_model(c, out)


def region(prop, c):
    return None


def label(c, mo):
    if c['op'] == 'utils':
        return f'utils/{c["fn"]}/{"changed" if mo.get("v") != c["a"] else "same"}'
    n = len(c['methods'])
    return f'specs/{c["kind"]}/{c["version"] if c["kind"] != "openrpc" else ""}/{"+".join(c["extractors"])}/n={n}/gen={c["generations"]}'


def oracle(prop, c, out):
    f = []
    if prop != 'C16' or c['op'] == 'utils':
        return f

    def fail(key, what, observed=None, expected=None):
        f.append(Finding(prop, key, what, c, observed, expected))
    if 'raised' in out:
        fail(f'generation-raised:{out["raised"]}', f'{c["kind"]} generation raised {out["raised"]}')
        return f
    for p in out['problems']:
        if p['k'] == 'metaschema':
            if p['version'] == '3.0':
                key = 'metaschema:3.0:schema-dialect'
            elif any(m['template'] == 'untyped' for m in c['methods']) and p['where'].endswith('/type'):
                key = 'docstring-untyped:type-null'
            else:
                key = f'metaschema:{p["version"]}:{p["where"]}'
            fail(key, f'the generated document does not validate against the official meta-schema: {p["what"]}', p)
        elif p['k'] == 'dangling-ref':
            fail('dangling-ref', f'dangling $ref: {p["refs"][:3]}', p)
        elif p['k'] == 'served-differs':
            fail('served-differs', f'the document served by the integration differs from the generated one: {p["what"]}', p)
        elif p['k'] == 'overlapping-generations':
            fail('overlapping-generations-differ', f'two generations on one spec object that overlap in time do not both yield the document of an '
                                                   f'undisturbed generation: {p["what"]}', p)
        else:
            fail('not-deterministic', 'repeating the generation yields a different document', p)
    if out['mutated']:
        fail('user-object-mutated', f'generation modified {out["mutated"]} (annotations / objects the user passed in)')
    # complete: every registered method exactly once under its exposed name (and endpoint path)
    want_keys = []
    for m in c['methods']:
        if c['kind'] == 'openrpc':
            want_keys.append(m['name'])
        else:
            ep = m['endpoint']
            path = c['path']
            base = path if not ep else f'{path.rstrip("/")}/{ep.lstrip("/")}'
            want_keys.append(f'{base}#{m["name"]}')
    for g, d in enumerate(out['docs']):
        got = sorted(k for k, v in d['entries'].items() for _ in v)
        if got != sorted(want_keys):
            fail('not-complete', f'generation {g}: entries {got} do not describe every registered method exactly once', d['entries'], sorted(want_keys))
            return f
        # no leak from another generation / registry: every component belongs to one of the registered methods
        if all('raised' not in a for a in out['alone']):
            allowed = set()
            for a in out['alone']:
                allowed |= set(a['components'])
            extra = sorted(set(d['components']) - allowed)
            if extra:
                fail('foreign-components', f'generation {g}: components {extra[:4]} belong to none of the registered methods '
                                           f'(left over from another generation of the same spec object?)', d['components'], sorted(allowed))
                return f
        # no leak: the entry of a method is the entry it gets when generated alone
        for m, k, a in zip(c['methods'], want_keys, out['alone']):
            if 'raised' in a or not a['entries']:
                continue
            alone = next(iter(a['entries'].values()))[0]
            mine = d['entries'][k][0]
            if _norm_doc({'entries': {k: [mine]}, 'components': []}) != _norm_doc({'entries': {k: [alone]}, 'components': []}):
                fail('cross-method-leak',
                     f'generation {g}: the entry of {k} differs from the entry it gets alone (errors / tags / references of another method leaked in)',
                     mine, alone)
                return f
            if mine.get('digest') != alone.get('digest'):
                # same references, different content: a component of the same name defined by another method replaced this one's
                same_name = [x['name'] for x in c['methods'] if x['name'].split('.')[-1].lower() == m['name'].split('.')[-1].lower() and x is not m]
                fail(f'component-collision:{m["name"]}' if same_name else 'cross-method-content-leak',
                     f'generation {g}: the schemas documented for {k} differ in content from what it gets alone '
                     f'(a same-named component of another method overwrote its own)', mine, alone)
                return f
    return f
