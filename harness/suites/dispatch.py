"""
Suite `dispatch` (C01, C02, C03, C11, C12): request texts x configurations through the real synchronous
and asynchronous dispatchers and through the model's `dispatch`.
"""
from __future__ import annotations

import inspect
import itertools
import json

from .. import core
from ..core import enc, dec, Finding
from .. import impl_server as S
from .. import userclasses as U

NAME = 'dispatch'
ABSENT = object()


def P(n, k='pk', d=False):
    return {'n': n, 'k': k, 'd': d}


def M(name, sig, body, **kw):
    m = {'name': name, 'sig': sig, 'body': body}
    m.update(kw)
    return m


ECHO = {'k': 'echo'}


def err_body(cls='UserError2001', code=2001, message='User error 2001', data=ABSENT):
    return {'k': 'rpc', 'err': {'cls': cls, 'code': str(code), 'message': message, 'data': None if data is ABSENT else {'v': enc(data)}}}


def exc_body(name='ValueError', marker='marker-7f3a'):
    return {'k': 'exc', 'tag': f'{name}:{marker}'}


def std_methods(fail_rpc=None, fail_exc=None):
    return [
        M('echo', [P('a'), P('b', d=True)], ECHO),
        M('noargs', [], {'k': 'const', 'v': enc(7)}),
        M('kwonly', [P('k', 'ko'), P('o', 'ko', True)], ECHO),
        M('ctxm', [P('ctx'), P('a', d=True)], ECHO, ctx='ctx'),
        M('ctxpos', [P('c'), P('a')], ECHO, ctx='c', positional=True),
        M('fail_rpc', [P('a', d=True)], fail_rpc or err_body(data={'detail': [1, None]})),
        M('fail_exc', [P('a', d=True)], fail_exc or exc_body()),
        M('view.vm', [P('a')], ECHO, view=True, ctx='context'),
        M('sub.null', [], {'k': 'const', 'v': enc(None)}),
        # two methods with different signatures behind the same `functools.wraps` decorator
        M('deco_a', [P('a')], ECHO, deco=True),
        M('deco_xy', [P('x'), P('y', d=True)], ECHO, deco=True),
    ]


# reference signatures of the standard methods for the oracles (independent of pjrpc's binder)
def _ref_echo(a, b='<default>'): pass
def _ref_noargs(): pass
def _ref_kwonly(*, k, o='<default>'): pass
def _ref_a_opt(a='<default>'): pass
def _ref_a(a): pass
def _ref_xy(x, y='<default>'): pass
REF = {'deco_a': _ref_a, 'deco_xy': _ref_xy, 'badview': _ref_a_opt, 'echo': _ref_echo, 'noargs': _ref_noargs, 'kwonly': _ref_kwonly, 'ctxm': _ref_a_opt, 'ctxpos': _ref_a,
       'fail_rpc': _ref_a_opt, 'fail_exc': _ref_a_opt, 'view.vm': _ref_a, 'sub.null': _ref_noargs}


def binds(method, params):
    sig = inspect.signature(REF[method])
    try:
        if isinstance(params, list):
            sig.bind(*params)
        elif isinstance(params, dict):
            sig.bind(**params)
        else:
            sig.bind()
        return True
    except TypeError:
        return False


def cfg(methods=None, middlewares=None, handlers=None, max_batch_size=None):
    c = {'methods': methods or std_methods()}
    if middlewares:
        c['middlewares'] = middlewares
    if handlers:
        c['handlers'] = handlers
    if max_batch_size is not None:
        c['max_batch_size'] = str(max_batch_size)
    return c


def case(text, config, elementwise=False, tag=None):
    c = {'suite': NAME, 'cfg': config, 'text': text, 'load': S.load_result(text), 'ctx': 'CTX'}
    if elementwise:
        c['elementwise'] = True
    if tag:
        c['tag'] = tag
    return c


def obj(**members):
    return {k: v for k, v in members.items() if v is not ABSENT}


JSONRPC_A = [ABSENT, '2.0', '1.0', 2.0, 2, None, ['2.0'], {'v': '2.0'}, True]
ID_A = [ABSENT, None, 0, 1, -1, 2 ** 64, '', '1', 'x', 1.5, True, [], {}]
METHOD_A = [ABSENT, 'echo', 'noargs', 'nosuch', '', 1, None, ' echo', 'noargs ', '\techo\n']
PARAMS_A = [ABSENT, [], {}, [1], {'a': 1}, [1, 2, 3], {'zz': 1}, None, 1, 's']

MALFORMED = ['', ' ', '{', '}', '[', ']', '[1,', '{"jsonrpc":"2.0"', '{"jsonrpc":"2.0","method":"echo","id":1}{}',
             '﻿{"jsonrpc":"2.0","method":"noargs","id":1}', 'nul', 'tru', "{'jsonrpc':'2.0'}", '{"a":1,}', '[1 2]',
             '"unterminated', '\x00', 'é', '{"jsonrpc":"2.0","method":"noargs","id":01}', '1e', '--1', '\t\n', '[[[[', '{"":',
             '{"jsonrpc":"2.0","method":"noargs","id":1}\n\n', ' [ ] ', ' { } ', '0', '-0', '1.0', '"s"', 'null', 'true', 'false',
             '[null]', '[[]]', '[{}]', '[1]', '["a"]', '[[1]]']


def rnd_json(rng, depth=3):
    from .msg import random_json
    return random_json(rng, depth)


ELEM_KINDS = ['ok', 'unknown', 'nobind', 'rpc', 'exc', 'invalid']


def element(kind, id):
    """a batch element of the given kind; id ABSENT -> notification"""
    base = {'ok': ('echo', [1]), 'unknown': ('nosuch', [1]), 'nobind': ('echo', []), 'rpc': ('fail_rpc', []),
            'exc': ('fail_exc', [])}
    if kind == 'invalid':
        return obj(jsonrpc='2.0', method=1, id=id)
    m, p = base[kind]
    return obj(jsonrpc='2.0', method=m, params=p, id=id)


def id_schemes(n, rng, thorough):
    """id assignments for n call positions"""
    yield list(range(1, n + 1))
    yield [0, -1, 2 ** 64, 7][:n]
    yield ['', '1', 'x', 'y'][:n]
    if n >= 2:
        yield [1, '1', 2, '2'][:n]
        for i, j in itertools.combinations(range(n), 2):
            ids = list(range(1, n + 1))
            ids[j] = ids[i]
            yield ids
        ids = ['a'] * n
        yield ids
        # duplicates among the *falsy* ids (0 and '' are ids like any other)
        yield [0] * n
        yield [''] * n
        yield ([0, ''] * n)[:n]


def generate(tier, rng):
    for i, c in enumerate(_generate(tier, rng)):
        yield c
        if i % 7 == 3:
            # the same case on a dispatcher configured with the user's own (equivalent) JSON loader / dumper / encoder / decoder
            yield dict(c, cfg=dict(c['cfg'], json_hooks=True))


def _generate(tier, rng):
    thorough = tier == 'thorough'
    std = cfg()
    # (a) single request objects: full product of member alphabets
    for jr, id, m, p in itertools.product(JSONRPC_A, ID_A, METHOD_A, PARAMS_A):
        yield case(json.dumps(obj(jsonrpc=jr, id=id, method=m, params=p)), std)
    for extra in (1, None, [1]):
        yield case(json.dumps({'jsonrpc': '2.0', 'method': 'noargs', 'id': 1, 'extra': extra}), std)
    # every standard method, positional / named / missing / surplus / unknown argument, call and notification
    for m, ps in {'echo': [[1], [1, 2], [], [1, 2, 3], {'a': 1}, {'a': 1, 'b': 2}, {'b': 2}, {'a': 1, 'c': 3}, {}],
                  'noargs': [[], [1], {}, {'a': 1}],
                  'kwonly': [[], [1], {'k': 1}, {'k': 1, 'o': 2}, {'o': 2}, {'k': 1, 'x': 1}],
                  'ctxm': [[], [1], [1, 2], {'a': 1}, {'ctx': 1}, {'a': 1, 'ctx': 2}, {}],
                  'ctxpos': [[1], [], [1, 2], {'a': 1}, {'c': 1}, {'a': 1, 'c': 2}],
                  'fail_rpc': [[], [1], [1, 2], {'a': 1}, {'z': 1}],
                  'fail_exc': [[], [1], [1, 2], {'z': 1}],
                  'view.vm': [[1], [], [1, 2], {'a': 1}, {'self': 1, 'a': 1}, {'context': 1, 'a': 1}],
                  'sub.null': [[], [1]],
                  'deco_a': [[1], {'a': 1}, [1, 2], {'x': 1}, []],
                  'deco_xy': [{'a': 1}, [1], [1, 2], {'x': 1}, {'x': 1, 'y': 2}, [], [1, 2, 3]]}.items():
        for p in ps:
            for id in (1, ABSENT, 'sid', 0, None):
                yield case(json.dumps(obj(jsonrpc='2.0', method=m, params=p, id=id)), std)
    # (b) batches over the element-kind alphabet
    alphabet = [(k, call) for k in ELEM_KINDS for call in (True, False)]
    maxn = 4 if thorough else 3
    for n in range(0, maxn + 1):
        for combo in itertools.product(alphabet, repeat=n):
            if n == 3 and not thorough and rng.random() > 0.35:
                continue
            if n == 4 and rng.random() > 0.08:
                continue
            ncalls = sum(1 for _, call in combo if call)
            schemes = list(id_schemes(ncalls, rng, thorough)) if ncalls else [[]]
            if not thorough and len(schemes) > 2:
                schemes = [schemes[0]] + rng.sample(schemes[1:], 1 if n >= 2 else len(schemes) - 1)
            for ids in schemes:
                it = iter(ids)
                elems = [element(k, next(it) if call else ABSENT) for k, call in combo]
                text = json.dumps(elems)
                yield case(text, std, elementwise=True)
                if n and rng.random() < (1.0 if thorough else 0.3):
                    for mbs in {0, 1, n - 1, n, n + 1, -1}:
                        yield case(text, cfg(max_batch_size=mbs), elementwise=True)
    # batches with explicit null ids / non-object elements / nested arrays
    for elems in ([1], [None], [[]], [{}], [{'jsonrpc': '2.0', 'method': 'noargs', 'id': None}],
                  [{'jsonrpc': '2.0', 'method': 'noargs', 'id': None}, {'jsonrpc': '2.0', 'method': 'noargs', 'id': None}],
                  [{'jsonrpc': '2.0', 'method': 'noargs', 'id': 1}, 5], [{'jsonrpc': '2.0', 'method': 'noargs', 'id': 1}, []],
                  [{'jsonrpc': '2.0', 'method': 'noargs', 'id': 1.0}, {'jsonrpc': '2.0', 'method': 'noargs', 'id': 1}],
                  [{'jsonrpc': '2.0', 'method': 'noargs', 'id': True}, {'jsonrpc': '2.0', 'method': 'noargs', 'id': 1}]):
        yield case(json.dumps(elems), std, elementwise=True)
    # (c) malformed / scalar texts
    for t in MALFORMED:
        yield case(t, std)
    # tokens Python's json accepts although they are not JSON (D20)
    for t in ('NaN', 'Infinity', '-Infinity', '[NaN]', '{"jsonrpc":"2.0","method":"echo","params":[NaN],"id":1}',
              '{"jsonrpc":"2.0","method":"echo","params":{"a":-Infinity},"id":2}', '{"jsonrpc":"2.0","method":"noargs","id":1,"x":Infinity}',
              '[{"jsonrpc":"2.0","method":"echo","params":[Infinity]}]'):
        yield case(t, std, tag='non-json-token')
    # number literals RFC 8259 admits and Python reads as a non-finite float, and the non-JSON tokens, in the *id* position
    for t in ('1e999', '-1e999', '1E400', 'NaN', 'Infinity', '-Infinity', '1.5', '-0.0', '1e2'):
        yield case('{"jsonrpc":"2.0","method":"noargs","id":' + t + '}', std, tag='float-id')
        yield case('[{"jsonrpc":"2.0","method":"noargs","id":' + t + '},{"jsonrpc":"2.0","method":"noargs","id":1}]', std, tag='float-id', elementwise=True)
        yield case('{"jsonrpc":"2.0","method":"nosuch","id":' + t + '}', std, tag='float-id')
    yield case('{"jsonrpc":"2.0","method":"echo","params":[1e999],"id":1}', std, tag='float-id')
    yield case('{"jsonrpc":"2.0","method":"noargs","id":' + '7' * 5000 + '}', std, tag='digit-limit')
    yield case('[' + '1' * 4301 + ']', std, tag='digit-limit')
    yield case('{"jsonrpc":"2.0","method":"echo","id":1,"params":[' + '9' * 4300 + ']}', std)
    for depth in (8, 64):
        yield case(json.dumps({'jsonrpc': '2.0', 'method': 'echo', 'id': 1, 'params': [_nest(depth)]}), std)
        yield case('[' * depth + ']' * depth, std)
    # (d) failure kinds of the addressed method
    codes = [0, 1, -1, -32700, -32600, -32601, -32602, -32603, -32000, -32099, 2001, 2002, -5, 2 ** 40]
    messages = ['', 'm', 'é\U0001F600 "quoted"']
    datas = [ABSENT, None, 0, '', [], {}, {'a': [1, {'b': None}]}, 'text', 1.5, False, [None]]
    n = 0
    for code, msg, data in itertools.product(codes, messages, datas):
        n += 1
        if not thorough and n % 3 and data not in (ABSENT, None):
            continue
        body = err_body(cls=rng.choice(['JsonRpcError', 'UserError2001', 'MethodNotFoundError', 'UserErrorZero', 'ServerError', 'InternalError',
                                        'InvalidRequestError']), code=code, message=msg, data=data)
        c = cfg(methods=std_methods(fail_rpc=body))
        for text in (json.dumps({'jsonrpc': '2.0', 'method': 'fail_rpc', 'id': 3}),
                     json.dumps({'jsonrpc': '2.0', 'method': 'fail_rpc'}),
                     json.dumps([{'jsonrpc': '2.0', 'method': 'echo', 'id': 1, 'params': [1]}, {'jsonrpc': '2.0', 'method': 'fail_rpc', 'id': 2}])):
            yield case(text, c, elementwise=text.startswith('['))
    for name in S.EXC_TYPES:
        for marker in ('marker-7f3a', 'Traceback (most recent call last) secret=hunter2'):
            c = cfg(methods=std_methods(fail_exc=exc_body(name, marker)))
            for text in (json.dumps({'jsonrpc': '2.0', 'method': 'fail_exc', 'id': 3}),
                         json.dumps({'jsonrpc': '2.0', 'method': 'fail_exc'}),
                         json.dumps([{'jsonrpc': '2.0', 'method': 'fail_exc', 'id': 2}, {'jsonrpc': '2.0', 'method': 'echo', 'id': 1, 'params': [1]}])):
                yield case(text, c, elementwise=text.startswith('['))
    # view whose constructor raises -> internal error
    c = cfg(methods=std_methods() + [M('badview', [P('a', d=True)], ECHO, view=True, initRaises=True)])
    for id in (1, ABSENT):
        yield case(json.dumps(obj(jsonrpc='2.0', method='badview', id=id)), c)
    # (e) middleware stacks x handler tables x request kinds
    yield from gen_c12(tier, rng)
    # (f) seeded random documents
    for _ in range(4000 if thorough else 400):
        v = rnd_json(rng, 3)
        if rng.random() < 0.5:
            v = obj(jsonrpc=rng.choice(['2.0', '2.0', '2.0', 2]), method=rng.choice(['echo', 'noargs', 'nosuch', 'fail_rpc', v if isinstance(v, str) else 'echo']),
                    id=rng.choice([ABSENT, 1, 'a', None, v if isinstance(v, (int, str)) and not isinstance(v, bool) else 2]),
                    params=rng.choice([ABSENT, [v], {'a': v}, v]))
        yield case(json.dumps(v), std)


def _nest(d):
    v = 1
    for i in range(d):
        v = [v] if i % 2 else {'k': v}
    return v


MW_KINDS = [{'k': 'pass'}, {'k': 'short', 'v': enc('short-circuit')}, {'k': 'rename', 'to': 'noargs'}, {'k': 'wrapResult'},
            {'k': 'setParams', 'p': {'k': 'pos', 'v': enc([5])}}, {'k': 'rename', 'to': 'fail_rpc'}, {'k': 'appendParam', 'v': enc(9)}]
HANDLER_TABLES = [
    None,
    [{'key': None, 'hs': [{'k': 'ident'}]}],
    [{'key': '-32601', 'hs': [{'k': 'ident'}]}, {'key': '2001', 'hs': [{'k': 'setData', 'd': enc('by-2001')}]}],
    [{'key': None, 'hs': [{'k': 'ident'}, {'k': 'setData', 'd': enc({'h': 1})}]}, {'key': '-32601', 'hs': [{'k': 'ident'}, {'k': 'ident'}]},
     {'key': '-32602', 'hs': [{'k': 'recode', 'code': '-5'}]}],
    [{'key': None, 'hs': [{'k': 'recode', 'code': '2002'}]}, {'key': '2002', 'hs': [{'k': 'setData', 'd': enc('wrong-list')}]},
     {'key': '2001', 'hs': [{'k': 'setData', 'd': enc('right-list')}]}, {'key': '-32000', 'hs': [{'k': 'recode', 'code': '1'}, {'k': 'ident'}]}],
    [{'key': '-32603', 'hs': [{'k': 'setData', 'd': enc('internal')}]}, {'key': '-32600', 'hs': [{'k': 'recode', 'code': '9'}]},
     {'key': '-32700', 'hs': [{'k': 'recode', 'code': '9'}]}],
    # per-code keys declared BEFORE the generic one: the generic handlers still run first
    [{'key': '-32601', 'hs': [{'k': 'setData', 'd': enc('per-code')}]}, {'key': '2001', 'hs': [{'k': 'recode', 'code': '7'}]},
     {'key': None, 'hs': [{'k': 'setData', 'd': enc('generic')}, {'k': 'ident'}]}, {'key': '-32602', 'hs': [{'k': 'setData', 'd': enc('params')}]}],
]
C12_REQUESTS = [
    {'jsonrpc': '2.0', 'method': 'echo', 'params': [1], 'id': 1}, {'jsonrpc': '2.0', 'method': 'echo', 'params': [1]},
    {'jsonrpc': '2.0', 'method': 'nosuch', 'id': 2}, {'jsonrpc': '2.0', 'method': 'nosuch'}, {'jsonrpc': '2.0', 'method': 'echo', 'id': 3},
    {'jsonrpc': '2.0', 'method': 'fail_rpc', 'id': 4}, {'jsonrpc': '2.0', 'method': 'fail_exc', 'id': 'five'}, {'jsonrpc': '2.0', 'method': 'fail_exc'},
    # a failure outside the method body (the view's constructor raises): internal error, handlers run for it too
    {'jsonrpc': '2.0', 'method': 'badview', 'id': 6}, {'jsonrpc': '2.0', 'method': 'badview'},
]


def c12_methods():
    return std_methods() + [M('badview', [P('a', d=True)], ECHO, view=True, initRaises=True)]

C12_DOCS = ['{', '{}', '[]', '[1]', '{"jsonrpc":"2.0","method":1}']


def gen_c12(tier, rng):
    thorough = tier == 'thorough'
    stacks = [[]]
    for n in (1, 2, 3):
        stacks += [list(s) for s in itertools.product(MW_KINDS, repeat=n)]
    for stack in stacks:
        if len(stack) == 3 and not thorough and rng.random() > 0.12:
            continue
        if len(stack) == 2 and not thorough and rng.random() > 0.6:
            continue
        tables = HANDLER_TABLES if (thorough or len(stack) <= 1) else rng.sample(HANDLER_TABLES, 2)
        for table in tables:
            c = cfg(methods=c12_methods(), middlewares=stack, handlers=table)
            reqs = C12_REQUESTS if (thorough or len(stack) <= 1) else rng.sample(C12_REQUESTS, 3)
            for r in reqs:
                yield case(json.dumps(r), c, tag='c12')
            batch = rng.sample(C12_REQUESTS, 3)
            for i, e in enumerate(batch):
                if 'id' in e:
                    e = dict(e)
                    e['id'] = i + 10
                    batch[i] = e
            yield case(json.dumps(batch), c, elementwise=True, tag='c12')
            if rng.random() < (1.0 if thorough else 0.4):
                # the same batch over the size limit: rejected before dispatch, nothing of the chain runs
                yield case(json.dumps(batch), cfg(methods=c12_methods(), middlewares=stack, handlers=table, max_batch_size=rng.choice([1, 2])),
                           elementwise=True, tag='c12')
            if len(stack) <= 1 or thorough:
                for t in C12_DOCS:
                    yield case(t, c, tag='c12')
    # an ill-behaved short circuit (answers a notification / fabricates an id): C12 says it is sent as it is
    for mw in ({'k': 'shortFixed', 'id': None, 'v': enc(1)}, {'k': 'shortFixed', 'id': enc(99), 'v': enc(1)}):
        for stack in ([mw], [{'k': 'pass'}, mw], [{'k': 'wrapResult'}, mw, {'k': 'pass'}]):
            for r in C12_REQUESTS[:3]:
                yield case(json.dumps(r), cfg(middlewares=stack), tag='c12-ill')
            yield case(json.dumps([C12_REQUESTS[0], dict(C12_REQUESTS[0], id=2)]), cfg(middlewares=stack), tag='c12-ill')
            # ... also for the notification elements of a batch: what the chain returns for them is sent
            for batch in ([C12_REQUESTS[0], C12_REQUESTS[1]], [C12_REQUESTS[1]], [C12_REQUESTS[3], C12_REQUESTS[1], C12_REQUESTS[2]],
                          [C12_REQUESTS[1], C12_REQUESTS[7]]):
                yield case(json.dumps(batch), cfg(middlewares=stack), elementwise=True, tag='c12-ill')


# ------------------------------------------------------------------------------------------------
# implementation adapter
# ------------------------------------------------------------------------------------------------

def run_impl(c):
    out = {}
    for half, is_async in (('sync', False), ('async', True)):
        o = S.dispatch(c['cfg'], c['text'], is_async)
        if c.get('elementwise'):
            lr = c['load']
            elems = dec(lr['j']) if lr['k'] == 'ok' else None
            if isinstance(elems, list):
                o['elements'] = [S.dispatch(c['cfg'], json.dumps(e), is_async) for e in elems]
        out[half] = o
    # the asynchronous dispatcher serving plain (non-coroutine) functions
    out['async_plain'] = S.dispatch(c['cfg'], c['text'], True, coroutine_methods=False)
    # the asynchronous dispatcher with concurrent batch execution switched off
    seq_cfg = dict(c['cfg'], concurrent_batch=False)
    out['async_seq'] = S.dispatch(seq_cfg, c['text'], True)
    if c.get('elementwise') and 'elements' in out['async']:
        out['async_seq']['elements'] = [S.dispatch(seq_cfg, json.dumps(e), True) for e in dec(c['load']['j'])]
    return out


HALVES = ('sync', 'async', 'async_plain', 'async_seq')


def halves(out):
    """model output (one result) or implementation output (one per half) -> dict half -> observation"""
    if 'result' in out:
        return {h: out for h in HALVES}
    return {h: out[h] for h in HALVES}


# ------------------------------------------------------------------------------------------------
# document helpers
# ------------------------------------------------------------------------------------------------

def responses_of(doc):
    """response objects of a decoded response document (a list or a single object)"""
    return doc if isinstance(doc, list) else [doc]


def wellformed_response(r):
    if not isinstance(r, dict) or r.get('jsonrpc') != '2.0' or not isinstance(r.get('jsonrpc'), str):
        return False
    if 'id' not in r or not (r['id'] is None or (isinstance(r['id'], (int, str, float)) and not isinstance(r['id'], bool))):
        return False
    if isinstance(r['id'], float) and _non_finite(r['id']):
        return False                 # `Infinity` / `NaN` are not JSON numbers
    if set(r) - {'jsonrpc', 'id', 'result', 'error'}:
        return False
    if ('result' in r) == ('error' in r):
        return False
    if 'error' in r:
        e = r['error']
        if not isinstance(e, dict) or set(e) - {'code', 'message', 'data'}:
            return False
        if not (isinstance(e.get('code'), int) and not isinstance(e.get('code'), bool) and isinstance(e.get('message'), str)):
            return False
    return True


def wellformed_doc(doc):
    if isinstance(doc, dict):
        return wellformed_response(doc)
    return isinstance(doc, list) and len(doc) > 0 and all(wellformed_response(r) for r in doc)


def codes_of(doc):
    return [str(r['error']['code']) if isinstance(r, dict) and 'error' in r else '0' for r in responses_of(doc)]


def _shape(doc):
    """C01 abstraction of a reply: array or object, per response: id JSON type, success or error code"""
    rs = responses_of(doc)
    def one(r):
        if not isinstance(r, dict):
            return 'not-an-object'
        return {'id': type(r.get('id')).__name__, 'kind': 'error' if 'error' in r else 'result' if 'result' in r else 'neither',
                'wf': wellformed_response(r)}
    return {'array': isinstance(doc, list), 'responses': [one(r) for r in rs]}


def _decoded(o):
    d = o['result'].get('doc')
    try:
        return dec(d)
    except Exception:  # noqa
        return None


# ------------------------------------------------------------------------------------------------
# projections
# ------------------------------------------------------------------------------------------------

def relevant(prop, c):
    if prop == 'C12':
        return True
    if prop in ('C01', 'C02', 'C03'):
        # the library's own behaviour: no user middlewares / error handlers in the way
        return not c['cfg'].get('middlewares') and not c['cfg'].get('handlers')
    return True


def region(prop, c):
    """inputs inside a *recorded* finding's region are decided by the oracle alone"""
    if prop == 'C03' and c.get('tag') == 'non-json-token':
        return 'token:NaN|Infinity|-Infinity'
    return None


def _proj_one(prop, c, o):
    r = o['result']
    k = r['k']
    if prop == 'C01':
        # totality + well-formedness + codes agreement: exactly what the property constrains
        if k != 'reply':
            return {'raised': r.get('exc') if k == 'raised' else None, 'reply_ok': True}
        doc = _decoded(o)
        return {'raised': None, 'reply_ok': bool(wellformed_doc(doc) and r['codes'] == codes_of(doc))}
    if prop == 'C02':
        execs = [e for e in o['events'] if e['e'] == 'exec']
        if k != 'reply':
            return {'k': k, 'exec': execs}
        doc = _decoded(o)
        return {'k': k, 'array': isinstance(doc, list),
                'ids': [enc(x.get('id')) if isinstance(x, dict) else None for x in responses_of(doc)], 'exec': execs}
    if prop == 'C03':
        execs = [e['m'] for e in o['events'] if e['e'] == 'exec']
        if k != 'reply':
            return {'k': k, 'exec': execs}
        doc = _decoded(o)
        return {'k': k, 'errors': [enc(x.get('error')) if isinstance(x, dict) and 'error' in x else None for x in responses_of(doc)],
                'codes': r['codes'], 'exec': execs}
    if prop == 'C12':
        # order / multiplicity of middleware + handler events, and "what the chain returns is what is sent":
        # per response its id and its result value, or the code of the (last returned) error
        ev = [e for e in o['events'] if e['e'] != 'exec']
        sent = None
        if k == 'reply':
            doc = _decoded(o)
            sent = [(enc(x.get('id')), enc(x['result']) if 'result' in x else ['error', str((x.get('error') or {}).get('code'))])
                    if isinstance(x, dict) else None for x in responses_of(doc)]
        return {'events': ev, 'k': k, 'exc': r.get('exc'), 'sent': sent}
    if prop == 'C11':
        return {'result': {x: r.get(x) for x in ('k', 'doc', 'codes', 'exc')}, 'events': o['events']}
    return None


def project(prop, c, out):
    if prop not in ('C01', 'C02', 'C03', 'C11', 'C12'):
        return None
    if not relevant(prop, c):
        return None
    hs = halves(out)
    return {h: _proj_one(prop, c, hs[h]) for h in HALVES}


def label(c, mo):
    r = mo['result']
    lr = c['load']['k']
    if lr != 'ok':
        return f'load:{lr}'
    j = c['load']['j']
    kind = 'batch' if j[0] == 'a' else 'single'
    if r['k'] == 'reply':
        codes = sorted(set(r['codes']))
        desc = ','.join(codes[:4])
        return f'{kind}/reply:{desc}' + ('/mw' if c['cfg'].get('middlewares') else '') + ('/h' if c['cfg'].get('handlers') else '')
    return f'{kind}/{r["k"]}'


# ------------------------------------------------------------------------------------------------
# oracles
# ------------------------------------------------------------------------------------------------

def _valid_request_obj(e):
    return (isinstance(e, dict) and isinstance(e.get('jsonrpc'), str) and e.get('jsonrpc') == '2.0'
            and (e.get('id') is None or (isinstance(e.get('id'), (int, str)) and not isinstance(e.get('id'), bool)))
            and isinstance(e.get('method'), str) and isinstance(e.get('params', []), (list, dict)))


def _non_finite(v):
    if isinstance(v, float):
        return v != v or v in (float('inf'), float('-inf'))
    if isinstance(v, list):
        return any(_non_finite(x) for x in v)
    if isinstance(v, dict):
        return any(_non_finite(x) for x in v.values())
    return False


def classify(c):
    """what the input is, decided from the text alone (independent of pjrpc): returns (class, detail)"""
    lr = c['load']
    if lr['k'] in ('decodeError', 'valueError'):
        return 'not-json', None
    if lr['k'] == 'recursionError':
        return 'too-deep', None
    v = dec(lr['j'])
    try:
        S.strict_loads(c['text'])
    except ValueError:
        return 'non-json-token', v
    if isinstance(v, list):
        if len(v) == 0 or not all(_valid_request_obj(e) for e in v):
            return 'invalid-batch', v
        ids = [json.dumps(e['id']) for e in v if e.get('id') is not None]
        if len(set(ids)) != len(ids):
            return 'invalid-batch', v
        mbs = c['cfg'].get('max_batch_size')
        if mbs is not None and int(mbs) and len(v) > int(mbs):
            return 'invalid-batch', v
        return 'batch', v
    if not _valid_request_obj(v):
        return 'invalid-request', v
    return 'single', v


def _plain(c):
    """no middlewares and no error handlers configured: the library's own behaviour is observable"""
    return not c['cfg'].get('middlewares') and not c['cfg'].get('handlers')


def _method_cfg(c, name):
    for m in c['cfg']['methods']:
        if (m.get('key') or m['name']) == name:
            return m
    return None


def expected_single(c, e):
    """for a valid request object under a plain standard config: (kind, detail) of what must happen"""
    m = _method_cfg(c, e['method'])
    if m is None:
        return 'error', -32601
    if e['method'] not in REF:
        return None, None
    if not binds(e['method'], e.get('params', [])):
        return 'error', -32602
    if m.get('initRaises'):
        return 'error', -32603
    b = m['body']
    if b['k'] == 'rpc':
        return 'rpc', b['err']
    if b['k'] == 'exc':
        return 'exc', b['tag']
    return 'ok', None


def oracle(prop, c, out):
    f = []
    if prop == 'C11':
        a, b, p, q = out['sync'], out['async'], out['async_plain'], out['async_seq']
        for name, x, y in (('sync-vs-async', a, b), ('coroutine-vs-plain', b, p), ('sync-vs-async-sequential', a, q)):
            if _proj_one('C11', c, x) != _proj_one('C11', c, y):
                f.append(Finding(prop, f'twin-diff:{name}', f'{name}: the two halves answered differently', c,
                                 {'left': _proj_one('C11', c, x), 'right': _proj_one('C11', c, y)}))
        return f
    for half in HALVES:
        o = out[half]
        f += _oracle_half(prop, c, o, half)
    return f


def _oracle_half(prop, c, o, half):
    f = []
    r = o['result']
    cls, v = classify(c)
    if cls in ('too-deep',):
        return f

    def fail(key, what, expected=None):
        f.append(Finding(prop, key, f'[{half}] {what}', c, {k: o.get(k) for k in ('result', 'events', 'text')}, expected))

    if prop == 'C01':
        if r['k'] == 'raised':
            fail(f'raised:{r["exc"]}', f'dispatch raised {r["exc"]}')
        elif r['k'] == 'reply':
            doc = _decoded(o)
            if not wellformed_doc(doc):
                fail('malformed-response', 'response document is not a JSON-RPC 2.0 response (object or non-empty array)')
            elif not o.get('strict_json', True):
                # the reply echoes a non-JSON token the *request* contained (D20): only then is it excused here
                # (the proviso "methods return JSON-encodable values": the echo method returned the non-finite float it was given)
                reqs = v if isinstance(v, list) else [v]
                if not any(isinstance(e, dict) and _non_finite(e.get('params')) for e in reqs):
                    fail('reply-not-json', 'response text is not RFC 8259 JSON')
            elif not wellformed_doc(doc):
                fail('malformed-response', 'response document is not a JSON-RPC 2.0 response (object or non-empty array)')
            elif r['codes'] != codes_of(doc):
                fail('codes-disagree', 'error codes returned alongside do not agree with the document', codes_of(doc))
        return f

    if prop == 'C02':
        execs = [e for e in o['events'] if e['e'] == 'exec']
        if cls in ('not-json', 'invalid-request', 'invalid-batch'):
            if execs:
                fail('rejected-executes', 'a rejected document executed a method')
            if cls == 'invalid-batch':
                doc = _decoded(o) if r['k'] == 'reply' else None
                if not (isinstance(doc, dict) and doc.get('id', 0) is None and isinstance(doc.get('error'), dict)):
                    fail('batch-not-rejected-as-whole', 'an invalid batch was not rejected as a whole with id null')
            return f
        if cls == 'single':
            if v.get('id') is None:
                if r['k'] != 'nothing':
                    fail('notification-answered', 'a notification was answered')
            else:
                doc = _decoded(o) if r['k'] == 'reply' else None
                if not (isinstance(doc, dict) and 'id' in doc and enc(doc['id']) == enc(v['id'])):
                    fail('id-not-echoed', 'the call was not answered by exactly one response carrying the identical id', enc(v['id']))
            if _plain(c):
                kind, _ = expected_single(c, v)
                if kind is not None:
                    want = 0 if kind == 'error' else 1
                    if len(execs) != want:
                        fail('exec-count', f'{len(execs)} executions, expected {want}')
                    elif want and execs[0]['m'] != v['method']:
                        fail('exec-wrong-method', 'another method was executed')
        if cls == 'batch' and 'elements' in o:
            el = o['elements']
            want_docs = [_decoded(x) for x in el if x['result']['k'] == 'reply']
            if any(x['result']['k'] == 'raised' for x in el):
                return f
            if not want_docs:
                if r['k'] != 'nothing':
                    fail('all-notification-batch-answered', 'a batch of notifications was answered')
            else:
                doc = _decoded(o) if r['k'] == 'reply' else None
                if enc(doc) != enc(want_docs):
                    fail('batch-not-map', 'batch answer differs from its elements answered alone, in request order', enc(want_docs))
            want_ex = [e for x in el for e in x['events'] if e['e'] == 'exec']
            if execs != want_ex:
                fail('batch-exec-not-map', 'executions of the batch differ from the executions of its elements', want_ex)
        return f

    if prop == 'C03':
        if not _plain(c):
            return f
        doc = _decoded(o) if r['k'] == 'reply' else None

        def single_error(code, id_null=True):
            return (isinstance(doc, dict) and isinstance(doc.get('error'), dict) and doc['error'].get('code') == code
                    and (not id_null or doc.get('id', 0) is None))
        if cls == 'not-json':
            if not single_error(-32700):
                fail('not-json-code', 'text that is not JSON was not answered with -32700 and id null')
        elif cls == 'non-json-token':
            if not single_error(-32700):
                fail('token:NaN|Infinity|-Infinity', 'a non-JSON token (NaN / Infinity / -Infinity) was accepted instead of answered -32700')
        elif cls in ('invalid-request', 'invalid-batch'):
            if not single_error(-32600):
                fail('invalid-request-code', 'JSON that is not a valid request / batch was not answered with -32600 and id null')
        elif cls in ('single', 'batch'):
            elems = [v] if cls == 'single' else v
            answered = [e for e in elems if e.get('id') is not None]
            docs = responses_of(doc) if doc is not None else []
            if len(docs) != len(answered):
                missing_failure = [e for e in answered if expected_single(c, e)[0] in ('error', 'rpc', 'exc')]
                if len(docs) < len(answered) and missing_failure and (cls == 'single' or len(missing_failure) == len(answered)):
                    fail('failure-not-reported', 'a failing call (it carries an id) was not answered: the error does not reach the caller')
                return f     # which response belongs to which call is C02's business
            execs = [e['m'] for e in o['events'] if e['e'] == 'exec']
            for e, d in zip(answered, docs):
                kind, det = expected_single(c, e)
                if kind is None or not isinstance(d, dict):
                    continue
                err = d.get('error')
                if kind == 'error':
                    if not (isinstance(err, dict) and err.get('code') == det):
                        fail(f'wrong-code:{det}', f'expected error {det} for method {e["method"]!r}', det)
                elif kind == 'rpc':
                    want = {'code': int(det['code']), 'message': det['message']}
                    if det['data'] is not None:
                        want['data'] = dec(det['data']['v'])
                    if enc(err) != enc(want):
                        fail('rpc-error-not-verbatim', 'a protocol error raised by the method did not reach the caller verbatim', enc(want))
                elif kind == 'exc':
                    marker = det.partition(':')[2]
                    name = det.partition(':')[0]
                    if not (isinstance(err, dict) and err.get('code') == -32000):
                        fail('exception-code', 'an arbitrary exception was not reported as -32000')
                    elif marker in o.get('text', '') or (name in o.get('text', '') and name not in ('KeyError',) and len(name) > 8):
                        fail('exception-leak', 'exception text / type appears in the response')
                    elif 'data' in err:
                        fail('exception-leak', 'the -32000 error carries data')
            for e in elems:
                kind, det = expected_single(c, e)
                if kind == 'error' and det == -32602 and e['method'] in execs and not any(
                        x['method'] == e['method'] and expected_single(c, x)[0] != 'error' for x in elems):
                    fail('nobind-executed', 'a method whose parameters do not bind was executed')
        return f

    if prop == 'C12':
        return _oracle_c12(c, o, half, cls, v, fail) or f
    return f


def _oracle_c12(c, o, half, cls, v, fail):
    """order / multiplicity of middleware and handler events, checked against the configuration"""
    ev = list(o['events'])
    if cls not in ('single', 'batch'):
        if any(e['e'] in ('enter', 'leave', 'handler') for e in ev):
            fail('rejected-doc-ran-chain', 'middlewares / handlers ran for a document rejected before dispatch')
        return
    if cls == 'single':
        _c12_element(c, v, ev, fail)
        return
    if 'elements' not in o:
        return
    want = [e for x in o['elements'] for e in x['events']]
    if ev != want:
        fail('per-element-log', 'the batch log is not the concatenation of its elements\' logs (each element passes the chain exactly once)', want)
        return
    for e, x in zip(v, o['elements']):
        _c12_element(c, e, list(x['events']), fail)
    # whatever the chain returns for an element (a notification included) is what is sent
    r = o['result']
    if r['k'] != 'raised' and all(x['result']['k'] in ('reply', 'nothing') for x in o['elements']):
        want_docs = [_decoded(x) for x in o['elements'] if x['result']['k'] == 'reply']
        got = _decoded(o) if r['k'] == 'reply' else []
        if enc(got if isinstance(got, list) else [got]) != enc(want_docs):
            fail('chain-result-not-sent', 'the batch answer is not what the chain returned for its elements, in order', enc(want_docs))


def _c12_element(c, e, ev, fail):
    mws = c['cfg'].get('middlewares') or []
    table = {x['key']: x['hs'] for x in (c['cfg'].get('handlers') or [])}
    depth = len(mws)
    for i, m in enumerate(mws):
        if m['k'] in ('short', 'shortFixed'):
            depth = i + 1
            break
    short = depth > 0 and mws[depth - 1]['k'] in ('short', 'shortFixed')
    if [(x['e'], x.get('i')) for x in ev[:depth]] != [('enter', str(i)) for i in range(depth)]:
        fail('mw-order', 'middlewares did not all run once, first-declared outermost')
        return
    inner = ev[depth:len(ev) - depth] if depth else ev
    tail = ev[len(ev) - depth:] if depth else []
    if [(x['e'], x.get('i')) for x in tail] != [('leave', str(i)) for i in reversed(range(depth))]:
        fail('mw-order', 'middlewares did not unwind in reverse order exactly once')
        return
    if any(x['e'] in ('enter', 'leave') for x in inner):
        fail('mw-extra-events', 'a middleware ran more than once for one element')
        return
    if short and inner:
        fail('short-circuit-ran-handler', 'the inner handler ran although a middleware answered itself')
        return
    execs = [x for x in inner if x['e'] == 'exec']
    hs = [x for x in inner if x['e'] == 'handler']
    if len(execs) > 1 or (execs and inner[0]['e'] != 'exec'):
        fail('exec-order', 'more than one execution, or handlers before the execution')
        return
    # which failure the element ends in, when the configuration makes that certain (no request-rewriting middleware)
    raised = None
    if not short and all(m['k'] in ('pass', 'wrapResult') for m in mws) and _valid_request_obj(e):
        kind, det = expected_single(c, e)
        raised = {'error': det, 'rpc': None if kind != 'rpc' else int(det['code']), 'exc': -32000}.get(kind)
    if raised is not None:
        want_n = len(table.get(None, [])) + len(table.get(str(raised), []))
        if want_n and not hs:
            fail('handlers-skipped', f'handling failed with {raised} but the error handlers configured for it did not run')
            return
        if hs and hs[0]['code'] != str(raised):
            fail('handler-wrong-error', f'the first handler received code {hs[0]["code"]}, the raised error has {raised}')
            return
    if hs:
        first_code = hs[0]['code']
        generic = table.get(None, [])
        percode = table.get(first_code, [])
        want = [('None', str(i)) for i in range(len(generic))] + [(first_code, str(i)) for i in range(len(percode))]
        if [(str(x['key']), x['i']) for x in hs] != want:
            fail('handler-order', 'error handlers did not run generic-then-per-code (code of the raised error) in list order', want)
            return
        code = first_code
        for x, spec in zip(hs, generic + percode):
            if x['code'] != code:
                fail('handler-chain', 'a handler did not receive the error returned by the previous one')
                return
            if spec['k'] == 'recode':
                code = spec['code']
        # handlers never run for successful requests: a body that returns cannot be followed by handlers
        if execs and not mws:
            m = _method_cfg(c, execs[0]['m'])
            if m is not None and m['body']['k'] in ('echo', 'const'):
                fail('handler-on-success', 'error handlers ran for a successful request')
