"""
Suite `httploop` (C18, C07, C08): the client's HTTP backends (pjrpc/client/backend/{requests,httpx,aiohttp}.py)
 * op `backend`: against scripted raw HTTP replies (status x Content-Type header x body x request kind x
   raise_for_status x strict), each reply delivered through the real HTTP library (requests transport adapter,
   httpx MockTransport for the sync and the async client, a real aiohttp server on localhost);
 * op `exchange`: against the library's own server integrations (flask, werkzeug over WSGI; aiohttp over a
   localhost socket) - a pjrpc client talking to a pjrpc server over HTTP, compared with Backend.lean's
   `httpExchange` and (oracle) with the loop-back transport that hands the text to `dispatch` directly.
"""
from __future__ import annotations

import json

from .. import core
from ..core import enc, Finding
from .. import impl_client as IC
from .. import impl_server as S
from . import dispatch as D
from . import http as H
from .msg import _req_spec, REG

import pjrpc
import pjrpc.client
import pjrpc.common

NAME = 'httploop'
SERIAL = True

SYNC_BACKENDS = ['requests', 'httpx']
ASYNC_BACKENDS = ['httpx_async', 'aiohttp']
BACKENDS = SYNC_BACKENDS + ASYNC_BACKENDS
RESPONSE_TYPES = ['application/json', 'application/json-rpc']

HEADER_VALUES = [
    'application/json', 'application/json; charset=utf-8', 'application/json;charset=utf-8', 'application/json-rpc',
    'application/json-rpc; charset=utf-8', 'application/json;', 'application/jsonrequest', 'Application/JSON',
    'application/json ; charset=utf-8', 'application/jsonx', 'application/json-rpcx', 'text/html',
    'text/plain; charset=utf-8', 'application/xml', 'text/json', 'application/vnd.api+json', None,
]
STATUSES = [200, 201, 400, 404, 500, 503]


def single(method='echo', params=None, id=1):
    return {'kind': 'single', 'req': _req_spec(method, params, id)}


def batch(reqs):
    return {'kind': 'batch', 'reqs': reqs}


REQUESTS = {
    'call': single('echo', [1], 1),
    'call_str_id': single('echo', {'a': 'x'}, 'r-1'),
    'notify': single('echo', [1], None),
    'batch': batch([_req_spec('echo', [1], 1), _req_spec('noargs', None, None), _req_spec('echo', [2], 2)]),
    'batch_notify': batch([_req_spec('noargs', None, None), _req_spec('echo', [2], None)]),
}


def ok(id, result='r'):
    return {'jsonrpc': '2.0', 'id': id, 'result': result}


def err(id, code=2001, message='e'):
    return {'jsonrpc': '2.0', 'id': id, 'error': {'code': code, 'message': message}}


BODIES = {
    'call': ['', json.dumps(ok(1, [1, None])), json.dumps(err(1)), json.dumps(ok(2)), json.dumps(ok(1, 'é\U0001F600')), 'not json', '[]',
             json.dumps({'jsonrpc': '2.0', 'id': 1}), json.dumps(err(None, -32700, 'Parse error'))],
    'call_str_id': ['', json.dumps(ok('r-1', {'k': 1})), json.dumps(ok('R-1')), json.dumps(err('r-1', -32601, 'Method not found'))],
    'notify': ['', json.dumps(ok(1)), 'not json', json.dumps(err(None, -32600, 'Invalid Request'))],
    'batch': ['', json.dumps([ok(1, 'a'), ok(2, 'b')]), json.dumps([ok(2, 'b'), ok(1, 'a')]), json.dumps([ok(1, 'a')]),
              json.dumps([ok(1, 'a'), err(2)]), json.dumps(err(None, -32600, 'Invalid Request')), 'not json', json.dumps(ok(1))],
    'batch_notify': ['', json.dumps([ok(1)]), '[]', 'not json'],
}


def client_cfg(strict=True, rfs=True):
    return {'strict': strict, 'reg': REG, 'rfs': rfs}


def backend_case(reqname, status, ct, body, strict=True, rfs=True, failed=None):
    http = {'k': 'failed', 'name': failed} if failed else {
        'k': 'response', 'status': str(status), 'ct': ct,
        'body': {'k': 'empty'} if body == '' else {'k': 'text', 'load': S.load_result(body)}}
    c = {'suite': NAME, 'op': 'backend', 'client': client_cfg(strict, rfs), 'rfs': rfs, 'request': REQUESTS[reqname], 'reqname': reqname,
         'http': http, 'text': body,
         # a missing Content-Type header cannot be produced with aiohttp's server (it always adds one)
         'backends': [b for b in BACKENDS if not (b == 'aiohttp' and (ct is None or failed))]}
    return c


def methods():
    P, M = D.P, D.M
    return [
        M('echo', [P('a'), P('b', d=True)], D.ECHO),
        M('noargs', [], {'k': 'const', 'v': enc(7)}),
        M('fail_rpc', [P('a', d=True)], D.err_body(data={'detail': [1, None]})),
        M('fail_exc', [P('a', d=True)], D.exc_body()),
    ]


EXCHANGE_REQUESTS = [
    single('echo', [1], 1), single('echo', {'a': 'é\U0001F600', 'b': [None, 1.5]}, 'x'), single('noargs', None, 0), single('echo', [1], None),
    single('nosuch', None, 2), single('nosuch', None, None), single('echo', None, 3), single('fail_rpc', None, 4), single('fail_exc', None, 5),
    single('fail_exc', None, None),
    batch([_req_spec('echo', [1], 1), _req_spec('noargs', None, None), _req_spec('nosuch', None, 2)]),
    batch([_req_spec('noargs', None, None), _req_spec('fail_exc', None, None)]),
    batch([_req_spec('fail_rpc', None, 1), _req_spec('echo', [0], 2)]),
    batch([_req_spec('echo', [3], 3), _req_spec('echo', [2], 2), _req_spec('echo', [1], 1)]),
    batch([_req_spec('echo', [1], 'a')]),
]

PAIRS = [(b, i) for b in ('requests', 'httpx', 'httpx_async') for i in ('flask', 'werkzeug')] + [('aiohttp', 'aiohttp')]


def exchange_case(request, status, strict=True, rfs=True, params=' charset=utf-8'):
    return {'suite': NAME, 'op': 'exchange', 'client': client_cfg(strict, rfs), 'rfs': rfs, 'request': request, 'server': D.cfg(methods=methods()),
            'cfg': D.cfg(methods=methods()), 'status': status, 'params': params, 'prefix': '/api', 'integrations': H.INTEGRATIONS}


def generate(tier, rng):
    thorough = tier == 'thorough'
    # scripted replies: the full product for the default client, the flags on a sample
    for reqname, bodies in BODIES.items():
        for body in bodies:
            for ct in HEADER_VALUES:
                for status in (STATUSES if thorough else (200, 201, 404, 500)):
                    for strict, rfs in (((True, True), (True, False), (False, True), (False, False)) if (thorough or status in (200, 404)) else ((True, True),)):
                        yield backend_case(reqname, status, ct, body, strict, rfs)
    for reqname in REQUESTS:
        for rfs in (True, False):
            yield backend_case(reqname, 0, None, '', True, rfs, failed='ConnectError')
    # pjrpc client <-> pjrpc server
    for request in EXCHANGE_REQUESTS:
        for st in H.STATUS_FNS:
            for strict, rfs in ((True, True), (True, False), (False, True)):
                yield exchange_case(request, st, strict, rfs, params=rng.choice([None, ' charset=utf-8', 'charset=UTF-8; x=1']))
    n = 400 if thorough else 40
    for _ in range(n):
        k = rng.randrange(1, 4)
        reqs = []
        ids = rng.sample([1, 2, 3, 'a', 'b', 0, ''], k)
        for i in range(k):
            m = rng.choice(['echo', 'noargs', 'nosuch', 'fail_rpc', 'fail_exc'])
            params = rng.choice([None, [D.rnd_json(rng, 2)], {'a': D.rnd_json(rng, 2)}]) if m != 'noargs' else None
            reqs.append(_req_spec(m, params, rng.choice([ids[i], ids[i], None])))
        request = {'kind': 'single', 'req': reqs[0]} if (k == 1 and rng.random() < 0.6) else batch(reqs)
        yield exchange_case(request, rng.choice(H.STATUS_FNS), rng.random() < 0.8, rng.random() < 0.7, params=rng.choice([None, ' charset=utf-8']))


# ------------------------------------------------------------------------------------------------
# implementation side
# ------------------------------------------------------------------------------------------------

SCRIPT = {}        # the scripted reply of the `backend` case in progress


def scripted_wsgi(environ, start_response):
    s = SCRIPT
    if s.get('failed'):
        raise _Failed()
    headers = [] if s['ct'] is None else [('Content-Type', s['ct'])]
    body = s['body']
    headers.append(('Content-Length', str(len(body))))
    import http as _h
    try:
        phrase = _h.HTTPStatus(s['status']).phrase
    except ValueError:
        phrase = 'Status'
    start_response(f'{s["status"]} {phrase}', headers)
    return [body]


class _Failed(Exception):
    pass


def wsgi_call(app, method, path, headers, body):
    """run one request through a WSGI application; returns (status, [(name, value)], body bytes)"""
    from werkzeug.test import EnvironBuilder, run_wsgi_app
    hs = {k: v for k, v in headers.items() if k.lower() not in ('content-length', 'host')}
    if isinstance(body, str):
        body = body.encode('utf-8')
    builder = EnvironBuilder(path=path, method=method, headers=hs, data=body or b'')
    try:
        env = builder.get_environ()
    finally:
        builder.close()
    app_iter, status, hdrs = run_wsgi_app(app, env, buffered=True)
    try:
        data = b''.join(app_iter)
    finally:
        if hasattr(app_iter, 'close'):
            app_iter.close()
    return int(status.split(' ', 1)[0]), list(hdrs.items() if hasattr(hdrs, 'items') else hdrs), data


def requests_session(app):
    import requests
    import requests.adapters
    from requests.structures import CaseInsensitiveDict

    class WSGIAdapter(requests.adapters.BaseAdapter):
        def send(self, request, **kw):
            from urllib.parse import urlsplit
            u = urlsplit(request.url)
            try:
                status, hdrs, data = wsgi_call(app, request.method, u.path + (('?' + u.query) if u.query else ''), dict(request.headers), request.body)
            except _Failed:
                raise requests.ConnectionError('scripted connection failure')
            r = requests.Response()
            r.status_code = status
            r.headers = CaseInsensitiveDict(hdrs)
            r._content = data
            r.encoding = requests.utils.get_encoding_from_headers(r.headers)
            r.url = request.url
            r.request = request
            r.reason = 'scripted'
            return r

        def close(self):
            pass
    s = requests.Session()
    s.mount('http://', WSGIAdapter())
    return s


def httpx_handler(app):
    import httpx

    def handler(request):
        try:
            status, hdrs, data = wsgi_call(app, request.method, request.url.raw_path.decode('ascii'), dict(request.headers), request.content)
        except _Failed:
            raise httpx.ConnectError('scripted connection failure', request=request)
        return httpx.Response(status, headers=hdrs, content=data)
    return handler


_AIO = {}


def aiohttp_scripted_url():
    """a real aiohttp server on localhost answering with the scripted reply"""
    if 'scripted' not in _AIO:
        from aiohttp import web
        from aiohttp.test_utils import TestServer

        async def handle(request):
            await request.read()
            s = SCRIPT
            return web.Response(status=s['status'], body=s['body'], headers={'Content-Type': s['ct']})
        app = web.Application()
        app.router.add_post('/api', handle)

        async def start():
            server = TestServer(app)
            await server.start_server()
            return server
        server = S.loop().run_until_complete(start())
        _AIO['scripted'] = str(server.make_url('/api'))
    return _AIO['scripted']


def aiohttp_session():
    if 'session' not in _AIO:
        from aiohttp import client

        async def mk():
            return client.ClientSession()
        _AIO['session'] = S.loop().run_until_complete(mk())
        import atexit

        def _close():
            try:
                S.loop().run_until_complete(_AIO['session'].close())
            except Exception:  # noqa
                pass
        atexit.register(_close)
    return _AIO['session']


_SERVERS = {}


def server_app(integration, c):
    """the WSGI application (flask, werkzeug) or the URL of a started server (aiohttp) serving the case's registry"""
    key = (integration, json.dumps(c['status']), c['prefix'])
    if key in _SERVERS:
        return _SERVERS[key]
    sf = H.status_fn(c['status'])
    kw = {} if sf is None else {'status_by_error': sf}
    if integration == 'aiohttp':
        from aiohttp.test_utils import TestServer
        from pjrpc.server.integration import aiohttp as ai
        app = ai.Application(c['prefix'], **kw)
        H.register(app.dispatcher, c['cfg'])

        async def start():
            server = TestServer(app.app)
            await server.start_server()
            return server
        server = S.loop().run_until_complete(start())
        _SERVERS[key] = str(server.make_url(c['prefix']))
    elif integration == 'flask':
        import flask
        from pjrpc.server.integration import flask as fl
        app = flask.Flask(f'verifloop{len(_SERVERS)}')
        rpc = fl.JsonRPC(c['prefix'], **kw)
        H.register(rpc.dispatcher, c['cfg'])
        rpc.init_app(app)
        _SERVERS[key] = app
    else:
        from pjrpc.server.integration import werkzeug as wz
        rpc = wz.JsonRPC(c['prefix'])
        H.register(rpc.dispatcher, c['cfg'])
        _SERVERS[key] = rpc
    return _SERVERS[key]


def make_client(backend, target, cl):
    """a client of the given backend whose HTTP library delivers to `target` (a WSGI app, or a URL for aiohttp)"""
    kw = {'strict': cl['strict'], 'raise_for_status': cl['rfs']}
    if backend == 'requests':
        from pjrpc.client.backend import requests as rb
        return rb.Client('http://verif.test/api', session=requests_session(target), **kw)
    if backend == 'httpx':
        import httpx
        from pjrpc.client.backend import httpx as hb
        return hb.Client('http://verif.test/api', client=httpx.Client(transport=httpx.MockTransport(httpx_handler(target))), **kw)
    if backend == 'httpx_async':
        import httpx
        from pjrpc.client.backend import httpx as hb
        return hb.AsyncClient('http://verif.test/api', client=httpx.AsyncClient(transport=httpx.MockTransport(httpx_handler(target))), **kw)
    from pjrpc.client.backend import aiohttp as ab
    return ab.Client(target, session=aiohttp_session(), **kw)


STATUS_ERRORS = ('HTTPError', 'HTTPStatusError', 'ClientResponseError')
CONNECT_ERRORS = ('ConnectionError', 'ConnectError', 'ClientConnectorError')


def enc_exc(e):
    if isinstance(e, pjrpc.exc.JsonRpcError):
        return {'rpc': IC.enc_error(e)}
    n = core.exc_name(e)
    if n in STATUS_ERRORS:
        n = 'HTTPStatusError'
    elif n in CONNECT_ERRORS:
        n = 'ConnectError'
    return {'exc': n}


def send(client, backend, req):
    isa = backend in ASYNC_BACKENDS
    if req['kind'] == 'single':
        request = IC.build_request(req['req'])
        call = (lambda: client.send(request))
    else:
        request = pjrpc.BatchRequest(*[IC.build_request(r) for r in req['reqs']])
        call = (lambda: client.batch.send(request))
    try:
        resp = S.loop().run_until_complete(call()) if isa else call()
        return {'resp': IC.enc_any_response(resp)}
    except BaseException as e:  # noqa
        return {'raised': enc_exc(e)}


def loopback_final(c):
    """the same request through a client whose transport hands the text to `dispatch` directly (no HTTP): the reference of
    the oracle"""
    d = S.build_dispatcher(c['cfg'], False)
    S.set_bodies(c['cfg'])

    class Direct(pjrpc.client.AbstractClient):
        def _request(self, request_text, is_notification=False, **kwargs):
            r = d.dispatch(request_text, context=S.next_ctx())
            self.codes = r[1] if r else None
            return r[0] if r else None
    cl = Direct(strict=c['client']['strict'])
    cl.codes = None
    del S.LOG[:]
    out = send(cl, 'requests', c['request'])
    return out, cl.codes, [e['m'] for e in S.LOG if e['e'] == 'exec']


def run_impl(c):
    out = {}
    if c['op'] == 'backend':
        h = c['http']
        SCRIPT.clear()
        if h['k'] == 'failed':
            SCRIPT.update(failed=True)
        else:
            SCRIPT.update(status=int(h['status']), ct=h['ct'], body=c['text'].encode('utf-8'))
        for b in c['backends']:
            target = aiohttp_scripted_url() if b == 'aiohttp' else scripted_wsgi
            out[b] = {'final': send(make_client(b, target, c['client']), b, c['request'])}
        return out
    for b, i in PAIRS:
        target = server_app(i, c)
        S.set_bodies(c['cfg'])
        del S.LOG[:]
        final = send(make_client(b, target, c['client']), b, c['request'])
        out[f'{b}>{i}'] = {'final': final, 'exec': [e['m'] for e in S.LOG if e['e'] == 'exec']}
    ref, codes, execs = loopback_final(c)
    out['loopback'] = {'final': ref, 'codes': None if codes is None else [int(x) for x in codes], 'exec': execs}
    return out


PROPS = {'C18': ('backend', 'exchange'), 'C07': ('exchange',), 'C08': ('backend',), 'C11': ('backend',)}


def relevant(prop, c):
    return c['op'] in PROPS.get(prop, ())


def project(prop, c, out):
    if not relevant(prop, c):
        return None
    if c['op'] == 'backend':
        if 'final' in out:
            return {b: out['final'] for b in c['backends']}                  # model: one `_request` for all backends
        return {b: out[b]['final'] for b in c['backends']}                   # implementation: one observation per backend
    if 'loopback' in out:
        res = {f'{b}>{i}': {'final': out[f'{b}>{i}']['final'], 'exec': out[f'{b}>{i}']['exec']} for b, i in PAIRS}
        shadowed = -32602 in (out['loopback']['codes'] or [])
    else:
        res = {f'{b}>{i}': {'final': out[i]['final'], 'exec': [e['m'] for e in out[i]['events'] if e['e'] == 'exec']} for b, i in PAIRS}
        shadowed = '"-32602"' in json.dumps(out['werkzeug']['wire'])
    if shadowed:
        # recorded finding flask:custom-encoder-shadowed (D27): Flask's JSON provider cannot encode the ValidationError carried as
        # error data, the flask integration answers 500; decided by the oracle alone
        for b, i in PAIRS:
            if i == 'flask':
                res[f'{b}>{i}'] = '<flask:custom-encoder-shadowed>'
    return res


def label(c, mo):
    def kind(f):
        return ('raised:' + (f['raised'].get('exc') or 'rpc')) if 'raised' in f else ('none' if f['resp'] is None else next(iter(f['resp'])))
    if c['op'] == 'backend':
        h = c['http']
        return f'backend/{c["reqname"]}/{h.get("status", "failed")}/{kind(mo["final"])}'
    return f'exchange/{c["request"]["kind"]}/{c["status"]["k"]}/' + '|'.join(sorted({kind(mo[i]["final"]) for i in H.INTEGRATIONS}))


def media_type(ct):
    return '' if ct is None else ct.split(';')[0]


def oracle(prop, c, out):
    f = []
    if not relevant(prop, c):
        return f
    if c['op'] == 'exchange':
        ref = out['loopback']
        sf = H.status_fn(c['status'])
        shadowed = -32602 in (ref['codes'] or [])
        for b, i in PAIRS:
            o = out[f'{b}>{i}']
            if shadowed and i == 'flask':
                if prop == 'C18' and core.canon(o['final']) != core.canon(ref['final']):
                    f.append(Finding(prop, 'flask:custom-encoder-shadowed', f'[{b}>{i}] an answer carrying a ValidationError as error data is not relayed', c, o))
                continue
            status = 200 if (sf is None or i == 'werkzeug' or ref['codes'] is None) else sf(tuple(ref['codes']))
            masked = c['client']['rfs'] and status >= 400
            if masked:
                if o['final'] != {'raised': {'exc': 'HTTPStatusError'}}:
                    f.append(Finding(prop, 'status-error-not-raised', f'[{b}>{i}] the reply has status {status} and the client raises for status, '
                                     f'but the caller got {json.dumps(o["final"])[:200]}', c, o))
            elif core.canon(o['final']) != core.canon(ref['final']):
                f.append(Finding(prop, 'http-not-transparent', f'[{b}>{i}] the call over HTTP gave {json.dumps(o["final"])[:200]}, the same call handed to '
                                 f'the dispatcher directly gave {json.dumps(ref["final"])[:200]}', c, o, ref['final']))
            if o['exec'] != ref['exec']:
                f.append(Finding(prop, 'http-executions-differ', f'[{b}>{i}] methods run over HTTP {o["exec"]}, directly {ref["exec"]}', c, o, ref['exec']))
        return f
    h = c['http']
    if prop == 'C11':
        # the synchronous and the asynchronous backends make the same of the same HTTP reply
        outs = {b: core.canon(out[b]['final']) for b in c['backends']}
        for a in [b for b in c['backends'] if b in ASYNC_BACKENDS]:
            for sy in [b for b in c['backends'] if b in SYNC_BACKENDS]:
                if outs[a] != outs[sy]:
                    f.append(Finding(prop, 'backends-differ', f'the same HTTP reply: {sy} -> {json.dumps(outs[sy])[:150]}, {a} -> {json.dumps(outs[a])[:150]}', c,
                                     {sy: outs[sy], a: outs[a]}))
                    return f
        return f
    if h['k'] != 'response':
        return f
    status_err = c['client']['rfs'] and int(h['status']) >= 400
    is_notification = c['reqname'] in ('notify', 'batch_notify')
    documented = media_type(h['ct']) in RESPONSE_TYPES
    for b in c['backends']:
        fin = out[b]['final']
        if status_err:
            continue
        if is_notification:
            if fin != {'resp': None}:
                f.append(Finding(prop, 'notification-not-silent', f'[{b}] a notification returned / raised {json.dumps(fin)[:160]} (reply status {h["status"]})', c, out[b]))
            continue
        if c['text'] and not documented and fin != {'raised': {'exc': 'DeserializationError'}}:
            f.append(Finding(prop, 'foreign-content-type-accepted', f'[{b}] a reply under content type {h["ct"]!r} was not refused with the '
                             f'deserialization error: {json.dumps(fin)[:160]}', c, out[b]))
        if c['text'] and documented:
            # what a client makes of this very text when its transport returns it as it is
            want = IC.run_send({'client': {'strict': c['client']['strict'], 'tracers': '0', 'caller_ctx': False, 'reg': REG}, 'request': c['request'],
                                'attempts': [{'k': 'text', 'text': c['text']}], 'call': False}, False)['final']
            if core.canon(want) != core.canon(fin):
                f.append(Finding(prop, 'documented-type-mishandled', f'[{b}] reply under {h["ct"]!r}: the caller got {json.dumps(fin)[:160]}, the text itself '
                                 f'yields {json.dumps(want)[:160]}', c, out[b], want))
    return f
