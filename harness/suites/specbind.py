"""
Suite `specbind` (C17): the parameter names / required flags the generated OpenAPI and OpenRPC
documents publish vs what the dispatcher binds, for all signatures over positional-or-keyword /
keyword-only parameters x defaults x context / exclusion predicate x function / view method.
"""
from __future__ import annotations

import itertools
import json

from .. import core
from ..core import enc, dec, Finding
from .. import impl_server as S
from . import dispatch as D

import pjrpc
import pjrpc.server
from pjrpc.server import validators
from pjrpc.server.specs import openapi, openrpc
from pjrpc.server.specs.extractors.pydantic import PydanticSchemaExtractor

NAME = 'specs'
SERIAL = False
NAMES = ['a', 'ab', 'abc', 'd']      # names contained in one another: exclusion is by equality of names, not by containment


def signatures(n):
    for kinds in itertools.product(['pk', 'ko'], repeat=n):
        if list(kinds) != sorted(kinds, key=['pk', 'ko'].index):
            continue
        for flags in itertools.product([False, True], repeat=n):
            seen, ok = False, True
            for k, d in zip(kinds, flags):
                if k == 'pk':
                    if seen and not d:
                        ok = False
                    seen = seen or d
            if ok:
                yield [{'n': NAMES[i], 'k': k, 'd': d} for i, (k, d) in enumerate(zip(kinds, flags))]


def gen_posonly(tier, rng):
    """parameters before `/` (with defaults): they cannot be given by name, so they are neither documented nor accepted in a params object"""
    P = D.P
    for sig in ([P('p', 'po', True), P('a', d=True)], [P('p', 'po', True), P('q', 'po', True), P('a', d=True), P('k', 'ko', True)],
                [P('p', 'po', True)], [P('p', 'po', True), P('k', 'ko')], [P('p', 'po', True), P('a', d=True), P('k', 'ko')]):
        for ctx in (None, 'a'):
            if ctx and not any(x['n'] == ctx for x in sig):
                continue
            m = D.M('f', sig, D.ECHO)
            if ctx:
                m['ctx'] = ctx
            keys = [x['n'] for x in sig] + ['zz']
            keysets = [list(s2) for r in range(len(keys) + 1) for s2 in itertools.combinations(keys, r)]
            yield {'suite': NAME, 'op': 'specbind', 'method': m, 'keysets': keysets, 'tag': 'specbind-posonly'}


def generate(tier, rng):
    yield from gen_posonly(tier, rng)
    yield from _generate(tier, rng)


def _generate(tier, rng):
    thorough = tier == 'thorough'
    maxn = 4
    for n in range(0, maxn + 1):
        for sig in signatures(n):
            variants = [(None, [], False)]
            for p in sig:
                variants.append((p['n'], [], False))                    # context parameter
            for p in sig:
                if p['d']:
                    variants.append((None, [p['n']], False))            # excluded by the predicate (must have a default)
            for p in sig:
                for q in sig:
                    if q['d'] and q['n'] != p['n']:
                        variants.append((p['n'], [q['n']], False))      # a context parameter AND a predicate-excluded one
            if sig:
                variants.append((None, [], 'static'))                   # a @staticmethod member of a view: no instance parameter
                variants.append(('context', [], 'static'))
            if sig and sig[0]['k'] == 'pk':
                variants.append((None, [], True))                       # view method
                variants.append(('context', [], True))
            for ctx, excluded, view in variants:
                if n >= 4 and not thorough and rng.random() > 0.25:
                    continue
                m = D.M('f', sig, D.ECHO)
                if ctx:
                    m['ctx'] = ctx
                if excluded:
                    m['excluded'] = excluded
                if view:
                    m['view'] = True
                if view == 'static':
                    m['static'] = True
                keys = list(dict.fromkeys([p['n'] for p in sig] + ['zz', 'self'] + ([ctx] if ctx else [])))
                keysets = [list(s) for r in range(len(keys) + 1) for s in itertools.combinations(keys, r)]
                if len(keysets) > 40 and not thorough:
                    keysets = rng.sample(keysets, 40)
                yield {'suite': NAME, 'op': 'specbind', 'method': m, 'keysets': keysets, 'tag': 'specbind'}
                # behind an ordinary functools.wraps decorator / with defaults that are not JSON values
                if not view and (thorough or rng.random() < 0.3):
                    yield {'suite': NAME, 'op': 'specbind', 'method': dict(m, deco=True), 'keysets': keysets, 'tag': 'specbind-deco'}
                if any(not p['d'] for p in sig) and not view and (thorough or rng.random() < 0.3):
                    yield {'suite': NAME, 'op': 'specbind', 'method': dict(m, optann=True), 'keysets': keysets, 'tag': 'specbind-optional-annotation'}
                if any(p['d'] for p in sig) and (thorough or rng.random() < 0.3):
                    yield {'suite': NAME, 'op': 'specbind', 'method': dict(m, objdefault=True), 'keysets': keysets, 'tag': 'specbind-objdefault'}
                # the type validator on the binding side (one validator object for all methods, as an application has)
                if not view and (thorough or rng.random() < 0.4):
                    yield {'suite': NAME, 'op': 'specbind', 'method': m, 'keysets': keysets, 'tag': 'specbind-pydantic', 'validator': 'pydantic'}
                # the same function exposed a second time under another name with another context designation, and
                # served first: what `f` publishes and binds must not depend on it
                if not view and not excluded and n >= 1 and (thorough or rng.random() < 0.5):
                    others = [None] + [p['n'] for p in sig]
                    twin = rng.choice([o for o in others if o != ctx])
                    yield {'suite': NAME, 'op': 'specbind', 'method': m, 'keysets': keysets, 'tag': 'specbind-twin',
                           'twin': {'ctx': twin}}


_OBJS = {}
_PYD = {}
_SENTINEL = object()


def _pydantic_validator(excluded):
    from pjrpc.server.validators import pydantic as vp
    if excluded not in _PYD:
        _PYD[excluded] = vp.PydanticValidator(exclude_param=(lambda name, ann, default: name in excluded) if excluded else None)
    return _PYD[excluded]


def build(c):
    m = c['method']
    key = json.dumps([m, c.get('twin'), c.get('validator')], sort_keys=True)
    if key in _OBJS:
        return _OBJS[key]
    excluded = m.get('excluded') or []
    pred = (lambda name, ann, default: name in excluded) if excluded else None
    view = bool(m.get('view'))
    obj = S.make_callable('specbind:' + key[:60], m['sig'], False, view, fresh=True, deco=bool(m.get('deco')),
                          static_ctx=(('<CTX>' if m.get('ctx') else '<none>') if m.get('static') else None))
    target = obj.vm if view else obj
    if m.get('objdefault'):
        # defaults that are not JSON values (a sentinel object): optional all the same
        raw = getattr(target, '__wrapped__', target)
        if raw.__defaults__:
            raw.__defaults__ = tuple(_SENTINEL for _ in raw.__defaults__)
        if raw.__kwdefaults__:
            raw.__kwdefaults__ = {k: _SENTINEL for k in raw.__kwdefaults__}
    if m.get('optann'):
        # required parameters annotated Optional[int]: nullable is not optional
        import typing
        raw = getattr(target, '__wrapped__', target)
        raw.__annotations__ = {p['n']: typing.Optional[typing.Any] for p in m['sig'] if not p['d']}
    if c.get('validator') == 'pydantic':
        _pydantic_validator(tuple(excluded)).validate(target)
    elif pred:
        validators.BaseValidator(exclude_param=pred).validate(target)
    d = pjrpc.server.Dispatcher()
    if view:
        method = pjrpc.server.dispatcher.ViewMethod(obj, 'vm', 'f', m.get('ctx'))
    else:
        method = pjrpc.server.Method(obj, 'f', m.get('ctx'))
    d.registry.add_methods(method)
    if c.get('twin'):
        d.registry.add_methods(pjrpc.server.Method(obj, 'g', c['twin']['ctx']))
    # ONE extractor object per exclusion rule documents every function of the run (all of them exposed as "f"): an extractor
    # has no business remembering one function when it is asked about the next
    ek = tuple(sorted(excluded))
    if ek not in _EXTRACTORS:
        _EXTRACTORS[ek] = PydanticSchemaExtractor(exclude_param=(lambda name, typ, default, _ek=ek: name in _ek) if ek else None)
    extractor = _EXTRACTORS[ek]
    oas = openapi.OpenAPI(info=openapi.Info(title='t', version='1'), schema_extractor=extractor)
    orpc = openrpc.OpenRPC(info=openrpc.Info(title='t', version='1'), schema_extractor=extractor)
    _OBJS[key] = (d, method, oas, orpc, 'specbind:' + key[:60])
    return _OBJS[key]


_EXTRACTORS = {}


def resolve(doc, node):
    while isinstance(node, dict) and '$ref' in node:
        name = node['$ref'].rsplit('/', 1)[1]
        node = doc['components']['schemas'][name]
    return node


def params_of_openapi(doc):
    op = next(v for k, v in doc['paths'].items() if k.endswith('#f'))['post']
    schema = resolve(doc, op['requestBody']['content']['application/json']['schema'])
    params = resolve(doc, schema['properties']['params'])
    return sorted(params.get('properties', {})), sorted(params.get('required', []))


def params_of_openrpc(doc):
    ps = next(m for m in doc['methods'] if m['name'] == 'f')['params']
    return sorted(p['name'] for p in ps), sorted(p['name'] for p in ps if p.get('required'))


def run_impl(c):
    d, method, oas, orpc, fkey = build(c)
    out = {}
    S.CURRENT['bodies'] = {fkey: {'k': 'echo', '_name': 'f', '_post': None}}
    mm = [method]
    if c.get('twin'):
        # the twin is documented and served first
        mm = [d.registry['g'], method]
        for params in ({}, {k: 1 for k in c['keysets'][-1]}):
            d.dispatch(json.dumps({'jsonrpc': '2.0', 'id': 0, 'method': 'g', 'params': params}), context=S.next_ctx())
    try:
        doc = oas.schema(path='/', methods_map={'': mm})
        out['documented'], out['required'] = params_of_openapi(json.loads(json.dumps(doc, cls=pjrpc.server.specs.JSONEncoder)))
    except Exception as e:  # noqa
        out['openapi_error'] = core.exc_name(e)
    try:
        doc = orpc.schema(path='/', methods_map={'': mm})
        out['rpc_documented'], out['rpc_required'] = params_of_openrpc(json.loads(json.dumps(doc, cls=pjrpc.server.specs.JSONEncoder)))
    except Exception as e:  # noqa
        out['openrpc_error'] = core.exc_name(e)
    S.CURRENT['bodies'] = {fkey: {'k': 'echo', '_name': 'f', '_post': None}}
    accepts = []
    for ks in c['keysets']:
        del S.LOG[:]
        r = d.dispatch(json.dumps({'jsonrpc': '2.0', 'id': 1, 'method': 'f', 'params': {k: 1 for k in ks}}), context=S.next_ctx())
        doc = json.loads(r[0])
        accepts.append(not ('error' in doc and doc['error']['code'] == -32602))
    out['accepts'] = accepts
    return out


def relevant(prop, c):
    return prop == 'C17'


def region(prop, c):
    if prop == 'C17' and c['method'].get('view') and not c['method'].get('static'):
        return 'view-method:implicit-first-param'
    return None


def model_case(c, impl_out):
    if c['method'].get('static'):
        # a static member has no instance parameter and its view takes the context through the constructor: for what is
        # published and what binds it is a plain function without a context parameter
        m = {k: v for k, v in c['method'].items() if k not in ('view', 'static', 'ctx')}
        return dict(c, method=m)
    return c


def project(prop, c, out):
    if prop != 'C17':
        return None
    if 'documented' in out and 'rpc_documented' not in out and 'openapi_error' not in out and 'accepts' in out and 'required' in out and 'openrpc_error' not in out:
        # model output
        doc, req = sorted(out['documented']), sorted(out['required'])
        return {'openapi': [doc, req], 'openrpc': [doc, req], 'accepts': out['accepts']}
    return {'openapi': [out.get('documented'), out.get('required')] if 'openapi_error' not in out else out['openapi_error'],
            'openrpc': [out.get('rpc_documented'), out.get('rpc_required')] if 'openrpc_error' not in out else out['openrpc_error'],
            'accepts': out['accepts']}


def label(c, mo):
    m = c['method']
    kind = 'view' if m.get('view') else ('ctx' if m.get('ctx') else ('excl' if m.get('excluded') else 'plain'))
    return f'specbind/{kind}/n={len(m["sig"])}/doc={len(mo["documented"])}/req={len(mo["required"])}'


def oracle(prop, c, out):
    f = []
    if prop != 'C17':
        return f
    view = bool(c['method'].get('view')) and not c['method'].get('static')
    key = 'view-method:implicit-first-param' if view else None
    for kind, dk, rk, ek in (('OpenAPI', 'documented', 'required', 'openapi_error'), ('OpenRPC', 'rpc_documented', 'rpc_required', 'openrpc_error')):
        if ek in out:
            f.append(Finding(prop, key or f'spec-generation-raised:{out[ek]}', f'{kind} generation raised {out[ek]}', c, out))
            continue
        documented, required = set(out[dk]), set(out[rk])
        m = c['method']
        forbidden = set(m.get('excluded') or []) | ({m['ctx']} if m.get('ctx') and not view else set())
        if documented & forbidden:
            f.append(Finding(prop, key or 'excluded-documented', f'{kind} documents the context / an excluded parameter', c, out, sorted(forbidden)))
            continue
        for ks, acc in zip(c['keysets'], out['accepts']):
            K = set(ks)
            want = required <= K <= documented
            if acc != want:
                f.append(Finding(prop, key or ('published-params-refused' if want else 'unpublished-params-accepted'),
                                 f'{kind}: params {sorted(K)} {"satisfy" if want else "violate"} the published names {sorted(documented)} / '
                                 f'required {sorted(required)} but binding {"refused" if not acc else "accepted"} them', c, out))
                break
    return f
