"""
Suite `registry` (C15): registration histories (add / add with name / add_methods / view / merge on
registries with prefixes, merged up to 3 deep, attached to either dispatcher), probed by dispatching.
"""
from __future__ import annotations

import itertools
import json

from .. import core
from ..core import Finding
from .. import impl_server as S

import pjrpc
import pjrpc.server
from pjrpc.server import MethodRegistry, Method, ViewMixin

NAME = 'registry'


def f1():
    return 'f1'


def f2():
    return 'f2'


def _hidden_fn():
    return '_hidden_fn'


class Vclean(ViewMixin):
    data = 5

    def pub1(self):
        return type(self).__name__ + '.pub1'           # the class the view was registered as (Vclean or a view deriving from it)

    def pub2(self):
        return type(self).__name__ + '.pub2'

    def _hidden(self):
        return type(self).__name__ + '._hidden'


class Valias(ViewMixin):
    def _priv(self):
        return 'Valias._priv'

    pub = _priv

    def other(self):
        return 'Valias.other'


class Helpers:
    """a plain mixin listed after ViewMixin: its public methods are public methods of the view"""

    def helper_pub(self):
        return 'Vmixin.helper_pub'

    def _hp(self):
        return 'Vmixin._hp'


class Vmixin(ViewMixin, Helpers):
    def own(self):
        return 'Vmixin.own'


def _factory_made():
    return 'renamed'


_factory_made.__name__ = 'renamed'          # a name assigned by a factory / old-style decorator: __qualname__ still says _factory_made


class Vderived(Vclean):
    """a view deriving from another (already registered) view: it exposes the inherited public methods and its own"""

    def extra(self):
        return 'Vderived.extra'


FUNCS = {'f1': f1, 'f2': f2, '_hidden_fn': _hidden_fn, 'renamed': _factory_made}
CLASSES = {'Vclean': Vclean, 'Valias': Valias, 'Vmixin': Vmixin, 'Vderived': Vderived}
# members as dir(cls) lists them (sorted), declared here rather than introspected
CLASS_MEMBERS = {
    'Vclean': [{'attr': '_hidden', 'target': '_hidden'}, {'attr': 'data', 'target': None}, {'attr': 'pub1', 'target': 'pub1'},
               {'attr': 'pub2', 'target': 'pub2'}],
    'Valias': [{'attr': '_priv', 'target': '_priv'}, {'attr': 'other', 'target': 'other'}, {'attr': 'pub', 'target': '_priv'}],
    'Vmixin': [{'attr': '_hp', 'target': '_hp'}, {'attr': 'helper_pub', 'target': 'helper_pub'}, {'attr': 'own', 'target': 'own'}],
    'Vderived': [{'attr': '_hidden', 'target': '_hidden'}, {'attr': 'data', 'target': None}, {'attr': 'extra', 'target': 'extra'},
                 {'attr': 'pub1', 'target': 'pub1'}, {'attr': 'pub2', 'target': 'pub2'}],
}
PREFIXES = [None, '', 'a', 'a.b']


def new(prefix):
    return {'op': 'new', 'prefix': prefix}


def gen_ops(rng, depth, allow_alias):
    """a random registry expression of the given remaining merge depth"""
    e = new(rng.choice(PREFIXES))
    for _ in range(rng.randrange(0, 4)):
        k = rng.randrange(6 if depth > 0 else 5)
        if k == 0:
            e = {'op': 'add', 'r': e, 'fn': rng.choice(['f1', 'f2', '_hidden_fn', 'renamed']), 'name': None}
        elif k == 1:
            e = {'op': 'add', 'r': e, 'fn': rng.choice(['f1', 'f2']), 'name': rng.choice(['x', 'f1', 'y.z', '', 'f2'])}
        elif k == 2:
            items = [rng.choice([{'fn': 'f1'}, {'fn': 'f2'}, {'fn': 'f1', 'mname': 'm1'}, {'fn': 'f2', 'mname': 'f1'}])
                     for _ in range(rng.randrange(1, 3))]
            e = {'op': 'add_methods', 'r': e, 'items': items}
        elif k == 3:
            e = {'op': 'view', 'r': e, 'cls': 'Vclean', 'prefix': rng.choice([None, '', 'v', 'v.w'])}
        elif k == 4:
            cls = 'Valias' if allow_alias and rng.random() < 0.3 else rng.choice(['Vclean', 'Vmixin', 'Vderived'])
            e = {'op': 'view', 'r': e, 'cls': cls, 'prefix': rng.choice([None, 'v'])}
        else:
            e = {'op': 'merge', 'r': e, 'other': gen_ops(rng, depth - 1, allow_alias)}
    return e


def all_small(maxops):
    """exhaustive: every history of up to `maxops` operations over a compact alphabet on every prefix"""
    alphabet = [
        lambda e: {'op': 'add', 'r': e, 'fn': 'f1', 'name': None},
        lambda e: {'op': 'add', 'r': e, 'fn': 'f2', 'name': 'f1'},
        lambda e: {'op': 'add', 'r': e, 'fn': 'f2', 'name': 'x.y'},
        lambda e: {'op': 'add_methods', 'r': e, 'items': [{'fn': 'f2'}]},
        lambda e: {'op': 'view', 'r': e, 'cls': 'Vclean', 'prefix': None},
        lambda e: {'op': 'view', 'r': e, 'cls': 'Vclean', 'prefix': 'v'},
        lambda e: {'op': 'view', 'r': e, 'cls': 'Vmixin', 'prefix': None},
        lambda e: {'op': 'view', 'r': e, 'cls': 'Vderived', 'prefix': 'd'},
        lambda e: {'op': 'add', 'r': e, 'fn': 'renamed', 'name': None},
        lambda e: {'op': 'merge', 'r': e, 'other': {'op': 'add', 'r': new('b'), 'fn': 'f1', 'name': None}},
        lambda e: {'op': 'merge', 'r': e, 'other': {'op': 'merge', 'r': new('c'), 'other': {'op': 'add', 'r': new('d'), 'fn': 'f2', 'name': 'g'}}},
    ]
    for prefix in PREFIXES:
        for n in range(0, maxops + 1):
            for combo in itertools.product(alphabet, repeat=n):
                e = new(prefix)
                for op in combo:
                    e = op(e)
                yield e


def attach(e, rng):
    """attach the built registry to a dispatcher: merge into the root registry, optionally followed by
    direct dispatcher-level registrations"""
    root = {'op': 'merge', 'r': new(None), 'other': e, 'via': 'dispatcher'}
    for _ in range(rng.randrange(0, 3)):
        k = rng.randrange(4)
        if k == 0:
            root = {'op': 'add', 'r': root, 'fn': rng.choice(['f1', 'f2']), 'name': rng.choice([None, 'top', 'a.f1']), 'via': 'dispatcher'}
        elif k == 1:
            root = {'op': 'add_methods', 'r': root, 'items': [rng.choice([{'fn': 'f2'}, {'fn': 'f1', 'mname': 'a.b.f1'}])], 'via': 'dispatcher'}
        elif k == 2:
            root = {'op': 'view', 'r': root, 'cls': 'Vclean', 'prefix': None, 'via': 'dispatcher'}
        else:
            root = {'op': 'merge', 'r': root, 'other': gen_ops(rng, 1, False), 'via': 'dispatcher'}
    if rng.random() < 0.3:
        # the SAME registry object attached, one of its names overridden on the dispatcher and a method added to the registry,
        # then attached again: the second attach registers everything the registry holds now, replacing the override
        reg = {'op': 'add', 'r': new(rng.choice(['a', None, 'a.b'])), 'fn': 'f1', 'name': rng.choice([None, 'g'])}
        root = {'op': 'reattach', 'r': root, 'reg': reg, 'override': rng.choice(['f2', 'renamed']), 'late': rng.choice(['f2', None]), 'via': 'dispatcher'}
    if rng.random() < 0.35:
        # ONE add_methods(...) call with mixed arguments (functions, Method objects, registries): handled in call order
        items = []
        for _ in range(rng.randrange(2, 4)):
            k = rng.randrange(3)
            if k == 0:
                items.append({'fn': rng.choice(['f1', 'f2'])})
            elif k == 1:
                items.append({'fn': rng.choice(['f1', 'f2']), 'mname': rng.choice(['a.f1', 'f1', 'b.f1', 'x'])})
            else:
                items.append({'reg': {'op': 'add', 'r': new(rng.choice(['a', 'b', None])), 'fn': rng.choice(['f1', 'f2']), 'name': rng.choice([None, 'f1', 'x'])}})
        root = {'op': 'mixed', 'r': root, 'items': items, 'via': 'dispatcher'}
    return root


def desugar(e):
    """`mixed` = its arguments registered one after the other (what the property's "later registration replaces" means)"""
    if not isinstance(e, dict) or 'op' not in e:
        return e
    e = dict(e)
    if 'r' in e:
        e['r'] = desugar(e['r'])
    if 'other' in e:
        e['other'] = desugar(e['other'])
    if e['op'] == 'reattach':
        reg = desugar(e['reg'])
        first = list(_spec(reg)[1])[0]
        r = {'op': 'merge', 'r': e['r'], 'other': reg, 'via': 'dispatcher'}
        r = {'op': 'add', 'r': r, 'fn': e['override'], 'name': first, 'via': 'dispatcher'}
        reg2 = reg if not e['late'] else {'op': 'add', 'r': reg, 'fn': e['late'], 'name': 'late'}
        return {'op': 'merge', 'r': r, 'other': reg2, 'via': 'dispatcher'}
    if e['op'] == 'mixed':
        r = e['r']
        for it in e['items']:
            if 'reg' in it:
                r = {'op': 'merge', 'r': r, 'other': desugar(it['reg']), 'via': 'dispatcher'}
            else:
                r = {'op': 'add_methods', 'r': r, 'items': [it], 'via': 'dispatcher'}
        return r
    return e


def edits(name):
    out = set()
    for i in range(len(name) + 1):
        out.add(name[:i] + '.' + name[i:])
        out.add(name[:i] + '_' + name[i:])
        if i < len(name):
            out.add(name[:i] + name[i + 1:])
    # surrounding whitespace is part of a name
    out |= {' ' + name, name + ' ', '\t' + name, name + '\n'}
    return out


def uses_alias(e):
    if not isinstance(e, dict):
        return False
    if e.get('op') in ('mixed', 'reattach'):
        return uses_alias(desugar(e))
    if e.get('op') == 'view' and e.get('cls') == 'Valias':
        return True
    return uses_alias(e.get('r')) or uses_alias(e.get('other'))


def uses_method_obj_in_prefixed(e):
    """a Method object added (via add_methods) to a registry whose own prefix is truthy"""
    if not isinstance(e, dict) or 'op' not in e:
        return False
    if e['op'] in ('mixed', 'reattach'):
        return uses_method_obj_in_prefixed(desugar(e))
    if e['op'] == 'add_methods' and any('mname' in it for it in e['items']) and _own_prefix(e):
        return True
    return uses_method_obj_in_prefixed(e.get('r')) or uses_method_obj_in_prefixed(e.get('other'))


def _own_prefix(e):
    while e['op'] != 'new':
        e = e['r']
    return e['prefix']


def make_case(expr, tag=None):
    c = {'suite': NAME, 'expr': expr, 'classes': CLASS_MEMBERS, 'probes': []}
    if tag:
        c['tag'] = tag
    return c


def generate(tier, rng):
    thorough = tier == 'thorough'
    for e in all_small(4 if thorough else 3):
        yield finish(make_case(attach(e, rng) if rng.random() < 0.5 else {'op': 'merge', 'r': new(None), 'other': e, 'via': 'dispatcher'}))
    for _ in range(20000 if thorough else 2500):
        e = gen_ops(rng, 3, allow_alias=True)
        yield finish(make_case(attach(e, rng)))


def finish(c):
    """probes: every key the declarative spec predicts, every name one edit away (sampled), private names"""
    names = spec_keys(c['expr'])
    probes = set(names)
    for n in list(names)[:6]:
        ed = sorted(edits(n))
        probes |= set(ed[:8]) | {e for e in ed if e != e.strip()}
    probes |= {'renamed', '_factory_made', 'a.renamed', 'extra', 'd.extra', 'd.pub1', 'v.extra', 'helper_pub', '_hp', 'own', 'v._hp', 'a.helper_pub', '_hidden', '_priv', 'Vclean._hidden', 'v._hidden', 'a._hidden', 'a.b._hidden', 'data', 'a.data', 'pub', 'v.pub',
               '__methods__', '__init__', 'f1', 'a.f1', 'a.a.f1', 'nosuch', ''}
    c['probes'] = sorted(probes)
    return c


# ------------------------------------------------------------------------------------------------
# declarative specification (the oracle): names as lists of segments, last registration wins
# ------------------------------------------------------------------------------------------------

def spec(e):
    return _spec(desugar(e))


def _spec(e):
    """-> (own prefix, ordered dict name -> target) computed from the property's words: the explicit name or
    the function's own name, preceded by the dot-joined non-empty prefixes of the registries / view it was
    added through (outermost first); a later registration under an existing name replaces the earlier one."""
    op = e['op']
    if op == 'new':
        return e['prefix'], {}
    prefix, table = _spec(e['r'])
    table = dict(table)

    def put(segments, target):
        table['.'.join(s for s in segments if s)] = target
    if op == 'add':
        put([prefix, e['name'] or e['fn']], e['fn'])
    elif op == 'add_methods':
        for it in e['items']:
            if 'mname' in it:
                put([prefix, it['mname']], it['fn'])         # what the property demands (the code omits the prefix)
            else:
                put([prefix, it['fn']], it['fn'])
    elif op == 'view':
        for m in CLASS_MEMBERS[e['cls']]:
            if not m['attr'].startswith('_') and m['target'] is not None:
                put([prefix, e['prefix'], m['attr']], f'{e["cls"]}.{m["target"]}')   # exposed under the public attribute name
    elif op == 'merge':
        _, other = _spec(e['other'])
        for name, target in other.items():
            put([prefix, name], target)
    return prefix, table


def spec_keys(e):
    return list(spec(e)[1])


# ------------------------------------------------------------------------------------------------
# implementation
# ------------------------------------------------------------------------------------------------

SOURCES = []          # (expression, registry object) of every registry that was merged into another one


def build(e, d):
    """evaluate the expression with real registries; ops marked via=dispatcher go through the dispatcher API"""
    op = e['op']
    if op == 'new':
        return MethodRegistry(prefix=e['prefix'])
    via = e.get('via') == 'dispatcher'
    if via:
        root_expr = e['r']
        if root_expr['op'] != 'new':
            build(root_expr, d)
        if op == 'add':
            d.add(FUNCS[e['fn']], e['name'])
        elif op == 'add_methods':
            for it in e['items']:
                d.add_methods(Method(FUNCS[it['fn']], it['mname']) if 'mname' in it else FUNCS[it['fn']])
        elif op == 'view':
            d.view(CLASSES[e['cls']])
        elif op == 'merge':
            other = build(e['other'], None)
            SOURCES.append((e['other'], other))
            d.add_methods(other)
        elif op == 'reattach':
            reg = build(e['reg'], None)
            d.add_methods(reg)
            d.add(FUNCS[e['override']], list(_spec(desugar(e['reg']))[1])[0])
            if e['late']:
                reg.add(FUNCS[e['late']], 'late')
            d.add_methods(reg)
        elif op == 'mixed':
            args = []
            for it in e['items']:
                if 'reg' in it:
                    other = build(it['reg'], None)
                    SOURCES.append((it['reg'], other))
                    args.append(other)
                else:
                    args.append(Method(FUNCS[it['fn']], it['mname']) if 'mname' in it else FUNCS[it['fn']])
            d.add_methods(*args)
        return d.registry
    r = build(e['r'], d)
    if op == 'add':
        r.add(FUNCS[e['fn']], e['name'])
    elif op == 'add_methods':
        r.add_methods(*[Method(FUNCS[it['fn']], it['mname']) if 'mname' in it else FUNCS[it['fn']] for it in e['items']])
    elif op == 'view':
        r.view(CLASSES[e['cls']], prefix=e['prefix'])
    elif op == 'merge':
        other = build(e['other'], None)
        SOURCES.append((e['other'], other))
        r.merge(other)
    return r


def run_impl(c):
    out = {}
    for half, is_async in (('sync', False), ('async', True)):
        d = (pjrpc.server.AsyncDispatcher if is_async else pjrpc.server.Dispatcher)()
        del SOURCES[:]
        try:
            build(c['expr'], d)
        except Exception as ex:  # noqa
            out[half] = {'raised': core.exc_name(ex)}
            continue
        keys = list(d.registry.keys())
        probes = []
        for name in c['probes']:
            text = json.dumps({'jsonrpc': '2.0', 'id': 1, 'method': name})
            r = (S.loop().run_until_complete(d.dispatch(text)) if is_async else d.dispatch(text))
            doc = json.loads(r[0])
            if 'result' in doc:
                probes.append({'name': name, 'target': doc['result']})
            else:
                probes.append({'name': name, 'target': None, 'code': doc['error']['code']})
        # a registry merged into another one is only read: at the end it still holds exactly its own registrations
        changed = [sorted(reg.keys()) for expr, reg in SOURCES if sorted(reg.keys()) != sorted(impl_keys_of(expr))]
        out[half] = {'keys': keys, 'probes': probes, 'sources_unchanged': not changed, 'changed_sources': changed[:2]}
    return out


def impl_keys_of(expr):
    """the keys a registry built from `expr` holds by itself (evaluated on fresh objects)"""
    keep = list(SOURCES)
    try:
        return list(build(expr, None).keys())
    finally:
        SOURCES[:] = keep


def halves(out):
    if 'keys' in out and 'sync' not in out:
        return {'sync': out, 'async': out}
    return out


def relevant(prop, c):
    return prop in ('C15', 'C11')


def model_case(c, impl_out):
    m = dict(c)
    m['expr'] = desugar(c['expr'])
    return m


def _proj(o):
    if 'raised' in o:
        return {'raised': o['raised']}
    return {'keys': sorted(o['keys']), 'probes': {p['name']: p['target'] for p in o['probes']}, 'sources_unchanged': o.get('sources_unchanged', True)}


def project(prop, c, out):
    if prop not in ('C15', 'C11'):
        return None
    hs = halves(out)
    return {h: _proj(hs[h]) for h in ('sync', 'async')}


def region(prop, c):
    if prop == 'C15' and uses_alias(c['expr']):
        return 'view-alias:private'
    if prop == 'C15' and uses_method_obj_in_prefixed(c['expr']):
        return 'add_methods:method-object-prefix'
    return None


def label(c, mo):
    def ops(e, acc):
        if isinstance(e, dict) and 'op' in e:
            acc.append(e['op'] + (':pfx' if e.get('op') == 'new' and e.get('prefix') else ''))
            ops(e.get('r'), acc)
            ops(e.get('other'), acc)
        return acc
    kinds = sorted(set(ops(c['expr'], [])))
    return 'registry/' + '+'.join(kinds) + f'/keys={min(len(mo["keys"]), 6)}'


def oracle(prop, c, out):
    f = []
    if prop == 'C11':
        if _proj(out['sync']) != _proj(out['async']):
            f.append(Finding(prop, 'twin-diff:registry', 'sync and async dispatcher expose different names', c, out))
        return f
    if prop != 'C15':
        return f
    _, want = spec(c['expr'])
    for half in ('sync', 'async'):
        o = out[half]
        if 'raised' in o:
            f.append(Finding(prop, f'registration-raised:{o["raised"]}', f'[{half}] registration raised', c, o))
            continue
        got = {p['name']: p['target'] for p in o['probes']}
        key = None
        if uses_alias(c['expr']):
            key = 'view-alias:private'
        elif uses_method_obj_in_prefixed(c['expr']):
            key = 'add_methods:method-object-prefix'
        if not o.get('sources_unchanged', True):
            f.append(Finding(prop, 'merged-registry-changed', f'[{half}] a registry that was merged into another one no longer holds exactly its own '
                                                               f'registrations (later registrations on the receiving side leaked into it)', c,
                             {'changed': o.get('changed_sources')}))
            continue
        if sorted(o['keys']) != sorted(want):
            f.append(Finding(prop, key or 'keyset', f'[{half}] the set of callable names differs from the registrations', c,
                             {'keys': sorted(o['keys'])}, sorted(want)))
            continue
        for name, target in got.items():
            w = want.get(name)
            if target != w:
                f.append(Finding(prop, key or ('unregistered-reachable' if w is None else 'wrong-method'),
                                 f'[{half}] name {name!r} reaches {target!r}, expected {w!r}', c, {'probe': name, 'target': target}, w))
                break
            if w is None:
                code = next(p.get('code') for p in o['probes'] if p['name'] == name)
                if code != -32601:
                    f.append(Finding(prop, key or 'unregistered-code', f'[{half}] unregistered name {name!r} answered {code}', c))
                    break
    return f
