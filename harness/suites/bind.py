"""
Suite `bind` (C04; also feeds C14/C17): all method signatures of up to 3 (quick) / 4 (thorough)
parameters x context designation x passing mode x function / coroutine / view method, crossed with
positional lists and named mappings — dispatched through the real dispatchers and the model.
"""
from __future__ import annotations

import inspect
import itertools
import json

from .. import core
from ..core import enc, dec, Finding
from .. import impl_server as S
from . import dispatch as D

NAME = 'dispatch'       # cases use the dispatch protocol of the driver
KINDS = ['po', 'pk', 'vp', 'ko', 'vk']
ORDER = {k: i for i, k in enumerate(KINDS)}
NAMES = ['a', 'ab', 'abc', 'd']      # names contained in one another: exclusion is by equality of names, not by containment
KIND_NAME = {'po': 'POSITIONAL_ONLY', 'vp': 'VAR_POSITIONAL', 'vk': 'VAR_KEYWORD'}


def signatures(n):
    """all valid Python signatures with n parameters over the five kinds and default flags"""
    for kinds in itertools.product(KINDS, repeat=n):
        if list(kinds) != sorted(kinds, key=ORDER.get):
            continue
        if kinds.count('vp') > 1 or kinds.count('vk') > 1:
            continue
        flags_choices = [[False] if k in ('vp', 'vk') else [False, True] for k in kinds]
        for flags in itertools.product(*flags_choices):
            # among positional parameters, no non-default after a default
            seen = False
            ok = True
            for k, d in zip(kinds, flags):
                if k in ('po', 'pk'):
                    if seen and not d:
                        ok = False
                    seen = seen or d
            if ok:
                yield [{'n': NAMES[i], 'k': k, 'd': d} for i, (k, d) in enumerate(zip(kinds, flags))]


def designations(sig, view):
    """(ctx name, positional flag) choices"""
    yield None, False
    if view:
        yield 'context', False
        if sig and sig[0]['k'] in ('pk', 'ko'):
            yield sig[0]['n'], False                # the view's context designation names an ordinary parameter of the method
        return
    for i, p in enumerate(sig):
        if p['k'] in ('pk', 'ko'):
            yield p['n'], False                     # by name
        if i == 0 and p['k'] in ('po', 'pk'):
            yield p['n'], True                      # as first positional argument


def param_sets(sig, ctx):
    names = [p['n'] for p in sig]
    keys = list(dict.fromkeys(names + ['zz'] + ([ctx] if ctx else [])))
    for n in range(0, 6):
        yield list(range(1, n + 1))
    for r in range(0, len(keys) + 1):
        for sub in itertools.combinations(keys, r):
            yield {k: f'v_{k}' for k in sub}
            if sub:
                # an explicit null is a value like any other (for known names, unknown names and the context name alike)
                yield {k: (None if i == 0 else f'v_{k}') for i, k in enumerate(sub)}


def method_cfg(sig, ctx, positional, view, deco=False, via_registry=False, static=False):
    m = D.M('f', sig, D.ECHO)
    if static:
        m['static'] = True                # the view member is a @staticmethod
    if via_registry:
        m['via_registry'] = True          # registered on its own registry, then merged into the dispatcher (methods are copied)
    if deco:
        m['deco'] = True                  # behind an ordinary functools.wraps decorator (a plain callable even when f is async)
    if ctx:
        m['ctx'] = ctx
    if positional:
        m['positional'] = True
    if view:
        m['view'] = True
    return m


def generate(tier, rng):
    thorough = tier == 'thorough'
    maxn = 4 if thorough else 3
    for n in range(0, maxn + 1):
        for sig in signatures(n):
            for view in (False, True):
                for ctx, positional in designations(sig, view):
                    if n == 4 and rng.random() > 0.6:
                        continue
                    if n == 3 and not thorough and rng.random() > 0.85:
                        continue
                    for deco in (False, True):
                        if deco and n >= 2 and rng.random() > (0.5 if thorough else 0.2):
                            continue
                        cfg = D.cfg(methods=[method_cfg(sig, ctx, positional, view, deco, via_registry=(not view and rng.random() < 0.35),
                                                        static=(view and not deco and rng.random() < 0.3))])
                        plist = list(param_sets(sig, ctx))
                        if n >= 3 and not thorough:
                            plist = rng.sample(plist, min(len(plist), 12))
                        elif n == 4:
                            plist = rng.sample(plist, min(len(plist), 24))
                        if deco and len(plist) > 8:
                            plist = rng.sample(plist, 8)
                        for params in plist:
                            yield D.case(json.dumps({'jsonrpc': '2.0', 'id': 1, 'method': 'f', 'params': params}), cfg, tag='bind')
                        yield D.case(json.dumps({'jsonrpc': '2.0', 'id': 1, 'method': 'f'}), cfg, tag='bind')


def corpus():
    """the three D6 witnesses of DESIGN §4 C04 (also proved in Lean as counterexamples)"""
    P = D.P
    for sig, params in (([P('a'), P('kw', 'vk')], {'a': 1, 'b': 2}), ([P('args', 'vp')], [1, 2]), ([P('a', 'po'), P('b')], [1, 2])):
        yield D.case(json.dumps({'jsonrpc': '2.0', 'id': 1, 'method': 'f', 'params': params}),
                     D.cfg(methods=[method_cfg(sig, None, False, False)]), tag='bind')


run_impl = D.run_impl
HALVES = D.HALVES
halves = D.halves
label_base = D.label


def the_method(c):
    return c['cfg']['methods'][0]


def nonsimple_kind(c):
    """first parameter kind outside positional-or-keyword / keyword-only (the D6 region), or None"""
    m = the_method(c)
    for p in m['sig']:
        if p['n'] == m.get('ctx') and not m.get('view'):
            continue
        if p['k'] in KIND_NAME:
            return KIND_NAME[p['k']]
    return None


def exercised_kind(c):
    """the recorded finding D6 is about values that *reach* a variadic or positional-only parameter (surplus positionals,
    surplus names, a value for a parameter before `/`) and about calls that do not bind; a call to such a signature that gives
    the variadic parameters nothing behaves like a call to a plain signature and is outside the recorded region"""
    k = nonsimple_kind(c)
    if not k:
        return None
    m = the_method(c)
    kinds = {p['k'] for p in m['sig'] if not (p['n'] == m.get('ctx') and not m.get('view'))}
    if 'po' in kinds:
        return k
    kind, want = reference(c)
    if kind == 'error':
        return k
    for p in m['sig']:
        if p['k'] in ('vp', 'vk') and want.get(p['n']):
            return k
    return None


def region(prop, c):
    k = exercised_kind(c)
    return f'sig-kind:{k}' if k and prop in ('C04',) else None


def relevant(prop, c):
    return prop == 'C04'


def _proj_one(o):
    r = o['result']
    doc = D._decoded(o) if r['k'] == 'reply' else None
    execs = [e for e in o['events'] if e['e'] == 'exec']
    out = {'k': r['k'], 'exec': execs}
    if isinstance(doc, dict):
        out['error_code'] = (doc.get('error') or {}).get('code') if 'error' in doc else None
        out['result'] = enc(doc.get('result')) if 'result' in doc else None
    return out


def project(prop, c, out):
    if prop != 'C04':
        return None
    hs = halves(out)
    return {h: _proj_one(hs[h]) for h in HALVES}


def label(c, mo):
    m = the_method(c)
    kinds = ''.join(sorted({p['k'] for p in m['sig']}))
    r = mo['result']
    code = ''
    if r['k'] == 'reply':
        code = ','.join(r['codes'])
    mode = 'view' if m.get('view') else ('ctxpos' if m.get('positional') else ('ctxkw' if m.get('ctx') else 'plain'))
    return f'bind/{mode}/{kinds}/{code}'


# ------------------------------------------------------------------------------------------------
# oracle: the reference is CPython itself — a direct call of a recording twin
# ------------------------------------------------------------------------------------------------

_TWINS = {}


def twin(sig):
    key = json.dumps(sig)
    if key not in _TWINS:
        ns = {}
        recv = '{' + ', '.join(f'{p["n"]!r}: {p["n"]}' for p in sig) + '}'
        exec(f'def g({S.render_params(sig)}):\n    return {recv}\n', ns)
        _TWINS[key] = ns['g']
    return _TWINS[key]


def reference(c):
    """('error', None) if a direct call with the client's arguments cannot bind, else ('ok', received)"""
    m = the_method(c)
    req = json.loads(c['text'])
    params = req.get('params', [])
    ctx = m.get('ctx')
    if m.get('view'):
        sig = m['sig']
        extra = {'<self.context>': '<CTX>' if ctx else '<none>'}
    else:
        sig = [p for p in m['sig'] if p['n'] != ctx]
        extra = {ctx: '<CTX>'} if ctx else {}
    g = twin(sig)
    try:
        recv = g(*params) if isinstance(params, list) else g(**params)
    except TypeError:
        return 'error', None
    recv = S.norm(recv)
    recv.update(extra)
    return 'ok', recv


def oracle(prop, c, out):
    f = []
    if prop != 'C04':
        return f
    kind, want = reference(c)
    k = exercised_kind(c)
    key_base = f'sig-kind:{k}' if k else None
    for half in HALVES:
        o = out[half]
        p = _proj_one(o)
        execs = p['exec']

        def fail(key, what, expected=None):
            f.append(Finding(prop, key_base or key, f'[{half}] {what}', c, {'result': o['result'], 'events': o['events']}, expected))
        if kind == 'error':
            if p.get('error_code') != -32602:
                fail('unbindable-not-32602', 'a call that a direct Python call could not bind was not refused with -32602')
            elif execs:
                fail('unbindable-executed', 'the body ran although the arguments do not bind')
        else:
            if len(execs) != 1:
                fail('bindable-not-executed', f'arguments bind in a direct call, but the method ran {len(execs)} times '
                     f'(answer code {p.get("error_code")})', enc(want))
            else:
                got = dec(execs[0]['recv'])
                if got != want:
                    fail('received-differs', 'the method received other arguments than a direct call binds (plus context)', enc(want))
                elif p.get('result') != enc(got):
                    fail('result-changed', 'the return value did not become the result unchanged')
            if want is not None:
                m = the_method(c)
                ctx = m.get('ctx')
                if ctx and not m.get('view') and execs and dec(execs[0]['recv']).get(ctx) != '<CTX>':
                    f.append(Finding(prop, 'context-overridden', f'[{half}] the context parameter did not receive the server-side context', c,
                                     {'events': o['events']}))
    return f
