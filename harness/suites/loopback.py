"""
Suite `loopback` (C07, C11): every call notation of the real sync / async clients — the document put
on the wire (`build`) and the value obtained when the document is served by the library's own
sync / async dispatcher (`loopback`).
"""
from __future__ import annotations

import itertools
import json
import random as pyrandom

from .. import core
from ..core import enc, dec, Finding
from .. import impl_client as IC
from .. import impl_server as S
from .. import userclasses as U
from . import dispatch as D
from .msg import _req_spec, REG

import pjrpc
from pjrpc.client import AbstractClient, AbstractAsyncClient
from pjrpc.common import generators

NAME = 'client'
HALVES = ('sync', 'async')
# the dispatcher the document is served by: sync, async serving coroutines, async serving plain functions
SERVERS = ((False, None, 'server'), (True, None, 'aserver'), (True, False, 'aserver_plain'))
SINGLE_NOTATIONS = ['call', 'dunder', 'proxy', 'send', 'notify']
BATCH_NOTATIONS = ['b_add', 'b_call', 'b_proxy', 'b_getitem', 'b_queue_getitem']


def spec(method, args=None, kwargs=None, notify=False):
    s = {'method': method, 'notify': notify}
    if args:
        s['args'] = enc(list(args))
    if kwargs:
        s['kwargs'] = enc(kwargs)
    return s


def spec_params(s):
    if s.get('args'):
        return dec(s['args'])
    return dec(s['kwargs']) if s.get('kwargs') else {}


ARGSETS = [((), {}), ((1,), {}), ((1, 2), {}), ((), {'a': 1}), ((), {'a': 1, 'b': 'x'}), (([1, {'k': None}], 's'), {}),
           ((), {'a': [1.5, None, {'z': []}]}), ((0,), {}), ((None,), {}), (('',), {}), ((), {'b': 2}),
           # a single positional argument that is itself a JSON object: stays positional in every notation
           (({'b': 1},), {}), (({'a': 1, 'zz': 2},), {}), (({},), {}), (([],), {}),
           # named arguments whose value is None are arguments like any other
           ((), {'a': None}), ((), {'a': 1, 'b': None})]
IDGENS = [{'k': 'sequential', 'start': '1', 'step': '1'}, {'k': 'sequential', 'start': '0', 'step': '1'},
          {'k': 'sequential', 'start': '-3', 'step': '7'}, {'k': 'sequential', 'start': '10', 'step': '-1'},
          {'k': 'sequential', 'start': '5', 'step': '0'},
          {'k': 'randint', 'a': 1, 'b': 3, 'seed': 1}, {'k': 'randint', 'a': 1, 'b': 10 ** 9, 'seed': 2},
          {'k': 'random', 'length': 1, 'chars': 'ab', 'seed': 3}, {'k': 'random', 'length': 8, 'chars': 'abcdef0123', 'seed': 4},
          {'k': 'uuid', 'seed': 5}]


def id_gen_impl(g):
    k = g['k']
    if k == 'sequential':
        return lambda: generators.sequential(int(g['start']), int(g['step']))
    if k == 'randint':
        return lambda: generators.randint(g['a'], g['b'])
    if k == 'random':
        return lambda: generators.random(g['length'], g['chars'])
    if k == 'uuid':
        return generators.uuid
    if k == 'fixed':
        ids = [dec(i) for i in g['ids']]
        return lambda: iter(ids)
    raise core.InfraError(f'bad idgen {g}')


def predraw(g, n):
    """the ids the generator will yield (random generators are re-seeded identically for the real run)"""
    if g['k'] == 'sequential':
        return None
    pyrandom.seed(g['seed'])
    it = id_gen_impl(g)()
    return [next(it) for _ in range(n)]


def model_idgen(g, notation, n):
    """the id stream as the model sees it"""
    if g['k'] == 'sequential':
        return g
    if g['k'] == 'uuid':
        return {'k': 'fixed', 'ids': [enc(f'uuid-{i}') for i in range(n)]}
    if notation in SINGLE_NOTATIONS:
        # every call draws from a fresh generator: its first value
        return {'k': 'fixed', 'ids': [enc(predraw(g, 1)[0])]}
    return {'k': 'fixed', 'ids': [enc(i) for i in predraw(g, n)]}


def build_case(notation, items, idgen, tag='build'):
    return {'suite': NAME, 'op': 'build', 'notation': notation, 'items': items, 'idgen': idgen, 'tag': tag}


def server_cfg():
    m = D.std_methods()
    m.append(D.M('fail_unreg', [D.P('a', d=True)], D.err_body(cls='JsonRpcError', code=777, message='unregistered', data=[1])))
    m.append(D.M('fail_zero', [D.P('a', d=True)], D.err_body(cls='UserErrorZero', code=0, message='Zero')))
    m.append(D.M('fail_null_data', [D.P('a', d=True)], D.err_body(cls='UserError2001', code=2001, message='null data', data=None)))
    m.append(D.M('fail_reserved', [D.P('a', d=True)], D.err_body(cls='JsonRpcError', code=-32050, message='reserved, unregistered', data={'x': 1})))
    m.append(D.M('fail_reworded', [D.P('a', d=True)], D.err_body(cls='InvalidParamsError', code=-32602, message='age must be non-negative')))
    return D.cfg(methods=m)


def call_params(it):
    """`params=args or kwargs`: the tuple when non-empty, else the (possibly empty) dict"""
    if it.get('args'):
        return dec(it['args'])
    return dec(it['kwargs']) if it.get('kwargs') else {}


def drawn_ids(idgen, n):
    """the first n ids a fresh generator yields"""
    if idgen['k'] == 'sequential':
        start, step = int(idgen['start']), int(idgen['step'])
        return [start + step * k for k in range(n)]
    return predraw(idgen, n)


def loop_case(notation, items, client=None, idgen=None):
    idgen = idgen or IDGENS[0]
    ids = drawn_ids(idgen, len(items) + 1)
    if notation in SINGLE_NOTATIONS:
        it = items[0]
        rid = None if (notation == 'notify' or it.get('notify')) else ids[0]
        request = {'kind': 'single', 'req': _req_spec(it['method'], call_params(it), rid)}
        call = notation in ('call', 'dunder', 'proxy')
    else:
        reqs, k = [], 0
        for it in items:
            if notation == 'b_getitem' or (notation == 'b_queue_getitem' and it is not items[0]):
                params = dec(it['args']) if it.get('args') else []
            else:
                params = call_params(it)
            if it.get('notify'):
                reqs.append(_req_spec(it['method'], params, None))
            else:
                reqs.append(_req_spec(it['method'], params, ids[k]))
                k += 1
        request = {'kind': 'batch', 'reqs': reqs}
        call = False
    cl = dict(client or {'strict': True})
    cl.setdefault('reg', REG)
    return {'suite': NAME, 'op': 'loopback', 'notation': notation, 'items': items, 'idgen': idgen, 'client': cl,
            'server': server_cfg(), 'request': request, 'call': call, 'tag': 'loopback'}


def generate(tier, rng):
    thorough = tier == 'thorough'
    methods = ['echo', 'm', 'a.b']
    # --- build: one well-formed document per notation ----------------------------------------------
    for g in IDGENS:
        for notation in SINGLE_NOTATIONS:
            for (args, kwargs) in ARGSETS:
                yield build_case(notation, [spec(rng.choice(methods), args, kwargs, notify=(notation == 'notify'))], g)
            yield build_case(notation, [spec('m', (1,), {'a': 2})], g)         # positional and named together: refused
        for notation in BATCH_NOTATIONS[:4]:
            for n in range(0, 5 if thorough else 4):
                for _ in range((12 if thorough else 3) if n else 1):
                    items = []
                    for i in range(n):
                        args, kwargs = rng.choice(ARGSETS)
                        if notation == 'b_getitem':
                            kwargs = {}
                        notify = notation != 'b_getitem' and rng.random() < 0.35
                        items.append(spec(rng.choice(methods), args, kwargs, notify=notify))
                    yield build_case(notation, items, g)
    # --- loopback: the value obtained through client and server ------------------------------------
    calls = [('echo', (1,), {}), ('echo', (1, 2), {}), ('echo', (), {'a': 1}), ('echo', (), {'a': [1, {'x': None}], 'b': 's'}),
             ('echo', (), {}), ('echo', (1, 2, 3), {}), ('noargs', (), {}), ('noargs', (1,), {}), ('kwonly', (), {'k': 1}),
             ('ctxm', (5,), {}), ('ctxm', (), {'ctx': 1}), ('fail_rpc', (), {}), ('fail_unreg', (), {}), ('fail_zero', (), {}),
             ('fail_exc', (), {}), ('nosuch', (), {}), ('sub.null', (), {}), ('view.vm', (3,), {}),
             ('fail_reserved', (), {}), ('fail_reworded', (), {}), ('fail_null_data', (), {}),
             ('echo', (), {'a': None}), ('echo', (), {'a': 1, 'b': None}),
             ('echo', ({'b': 1},), {}), ('echo', ({'a': 7},), {}), ('echo', ({},), {}), ('deco_xy', (1,), {}), ('deco_a', (), {'a': 2})]
    clients = [{'strict': True}, {'strict': False}, {'strict': True, 'error_cls': U.errclass_json(U.ClientBaseError)}]
    for (m, args, kwargs) in calls:
        for cl in clients + [dict(clients[0], json_hooks=True), dict(clients[0], retrying=True), dict(clients[1], retrying=True)]:
            for notation in SINGLE_NOTATIONS:
                yield loop_case(notation, [spec(m, args, kwargs, notify=(notation == 'notify'))], cl)
    # id streams: increasing, decreasing (the order of the ids is not the order of the calls), random integers / strings
    gens = [IDGENS[0], IDGENS[2], IDGENS[3], IDGENS[6], IDGENS[8]]
    for g in gens[1:]:
        for (m, args, kwargs) in calls[:4] + calls[11:15]:
            for notation in SINGLE_NOTATIONS:
                yield loop_case(notation, [spec(m, args, kwargs, notify=(notation == 'notify'))], clients[0], g)
    for n in range(1, 5):
        reps = (500 if thorough else 30) if n > 1 else len(calls)
        for r in range(reps):
            items = []
            for i in range(n):
                m, args, kwargs = calls[r % len(calls)] if n == 1 else rng.choice(calls)
                items.append(spec(m, args, kwargs, notify=rng.random() < 0.3))
            for notation in BATCH_NOTATIONS:
                its = [dict(it, notify=False) if notation == 'b_getitem' else it for it in items]
                if notation == 'b_getitem':
                    its = [spec(it['method'], spec_params(it) if isinstance(spec_params(it), list) else ()) for it in its]
                if notation == 'b_queue_getitem':
                    if len(items) < 2:
                        continue
                    its = [items[0]] + [spec(it['method'], spec_params(it) if isinstance(spec_params(it), list) else ()) for it in items[1:]]
                yield loop_case(notation, its, rng.choice(clients), gens[r % len(gens)] if n > 1 else rng.choice(gens))
                if r % 4 == 1:
                    yield loop_case(notation, its, dict(rng.choice(clients), json_hooks=True), gens[r % len(gens)] if n > 1 else gens[0])
                if r % 3 == 0 and gens[r % len(gens)]['k'] == 'sequential':
                    yield loop_case(notation, its, dict(rng.choice(clients[:2]), batch_strict=False), gens[r % len(gens)])
    # batches made only of notifications
    for n in (1, 2, 3):
        items = [spec(rng.choice(['echo', 'fail_rpc', 'nosuch', 'noargs']), (1,) if i % 2 else (), {}, notify=True) for i in range(n)]
        for notation in ('b_add', 'b_call', 'b_proxy'):
            for cl in clients[:2] + [dict(clients[0], retrying=True)]:
                yield loop_case(notation, items, cl)


# ------------------------------------------------------------------------------------------------
# implementation
# ------------------------------------------------------------------------------------------------

class _Capture:
    def __init__(self):
        self.sent = []

    def reply(self, text, is_notification):
        self.sent.append((text, is_notification))
        if is_notification:
            return None
        doc = json.loads(text)
        if isinstance(doc, list):
            return json.dumps([{'jsonrpc': '2.0', 'id': r['id'], 'result': None} for r in doc if 'id' in r])
        return json.dumps({'jsonrpc': '2.0', 'id': doc['id'], 'result': None})


class _Loop:
    """transport that hands the text to a real dispatcher"""

    def __init__(self, cfg, server_async, coroutine_methods=None):
        self.cfg, self.server_async, self.sent, self.events = cfg, server_async, [], []
        self.coroutine_methods = coroutine_methods

    def reply(self, text, is_notification):
        self.sent.append((text, is_notification))
        o = S.dispatch(self.cfg, text, self.server_async, coroutine_methods=self.coroutine_methods)
        self.events += o['events']
        return o.get('text')

    async def areply(self, text, is_notification):
        self.sent.append((text, is_notification))
        d = S.build_dispatcher(self.cfg, True, coroutine_methods=self.coroutine_methods)
        S.set_bodies(self.cfg)
        del S.LOG[:]
        r = await d.dispatch(text, context=S.next_ctx())
        self.events += list(S.LOG)
        return None if r is None else r[0]


class _ClientHookEncoder(pjrpc.common.JSONEncoder):
    pass


class SyncC(AbstractClient):
    def __init__(self, transport, **kw):
        super().__init__(**kw)
        self.t = transport

    def _request(self, request_text, is_notification=False, **kwargs):
        return self.t.reply(request_text, is_notification)


class AsyncC(AbstractAsyncClient):
    def __init__(self, transport, **kw):
        super().__init__(**kw)
        self.t = transport

    async def _request(self, request_text, is_notification=False, **kwargs):
        if hasattr(self.t, 'areply') and self.t.server_async:
            return await self.t.areply(request_text, is_notification)
        return self.t.reply(request_text, is_notification)


def invoke(client, notation, items, is_async):
    """perform the call in the given notation; returns the value / raises"""
    def run(x):
        return S.loop().run_until_complete(x) if is_async else x

    def args_of(it):
        p = spec_params(it)
        return (tuple(p), {}) if isinstance(p, list) else ((), p)
    if notation in SINGLE_NOTATIONS:
        it = items[0]
        a = dec(it['args']) if it.get('args') else []
        kw = dec(it['kwargs']) if it.get('kwargs') else {}
        if notation == 'call':
            return run(client.call(it['method'], *a, **kw))
        if notation == 'dunder':
            return run(client(it['method'], *a, **kw))
        if notation == 'proxy':
            return run(getattr(client.proxy, it['method'])(*a, **kw))
        if notation == 'notify':
            return run(client.notify(it['method'], *a, **kw))
        if notation == 'send':
            assert not (a and kw), 'positional and keyword arguments are mutually exclusive'
            req = pjrpc.Request(it['method'], tuple(a) or kw, id=next(client.id_gen_impl()))
            r = run(client.send(req))
            return r
    b = client.batch
    if notation == 'b_getitem':
        return run(b[[(it['method'], *(dec(it['args']) if it.get('args') else [])) for it in items]])
    if notation == 'b_queue_getitem':
        # something queued on the batch first (add / notify), the rest in bracket notation on the same batch object
        it0 = items[0]
        a0 = dec(it0['args']) if it0.get('args') else []
        k0 = dec(it0['kwargs']) if it0.get('kwargs') else {}
        (b.notify if it0.get('notify') else b.add)(it0['method'], *a0, **k0)
        return run(b[[(it['method'], *(dec(it['args']) if it.get('args') else [])) for it in items[1:]]])
    for it in items:
        a = dec(it['args']) if it.get('args') else []
        kw = dec(it['kwargs']) if it.get('kwargs') else {}
        if it.get('notify'):
            b.notify(it['method'], *a, **kw)
        elif notation == 'b_add':
            b.add(it['method'], *a, **kw)
        elif notation == 'b_call':
            b(it['method'], *a, **kw)
        else:
            p = getattr(b.proxy, it['method'])(*a, **kw)
    if notation == 'b_proxy' and items and not items[-1].get('notify'):
        return run(p())
    if notation == 'b_proxy':
        return run(b.proxy.call())
    return run(b.call())


def enc_value(v, notation):
    if notation in ('call', 'dunder', 'proxy'):
        return {'value': enc(v)}
    if v is None:
        return {'nothing': True}
    if isinstance(v, pjrpc.Response):
        try:
            return {'value': enc(v.result)}
        except pjrpc.exc.JsonRpcError as e:
            return {'raised': IC.enc_exc(e)}
    if isinstance(v, tuple):
        return {'tuple': [enc(x) for x in v]}
    return {'value': enc(v)}


def run_impl(c):
    out = {}
    for half, is_async in (('sync', False), ('async', True)):
        g = c['idgen']
        if g['k'] != 'sequential' and 'seed' in g:
            pyrandom.seed(g['seed'])
        kw = {'id_gen_impl': id_gen_impl(g)}
        if c['op'] == 'build':
            t = _Capture()
            client = (AsyncC if is_async else SyncC)(t, **kw)
            try:
                invoke(client, c['notation'], c['items'], is_async)
                res = {'raised': None}
            except BaseException as e:  # noqa
                res = {'raised': core.exc_name(e)}
            if len(t.sent) == 1 and res['raised'] is None:
                o = {'ok': enc(json.loads(t.sent[0][0]))}
            elif res['raised'] is not None and len(t.sent) == 0:
                o = {'raised': res['raised']}
            else:
                o = {'anomaly': {'sent': len(t.sent), 'raised': res['raised']}}
            o['n_sent'] = len(t.sent)
            if t.sent:
                o['is_notification_flag'] = t.sent[0][1]
            out[half] = o
        else:
            for server_async, coro, sname in SERVERS:
                cl = c['client']
                if g['k'] != 'sequential' and 'seed' in g:
                    pyrandom.seed(g['seed'])
                t = _Loop(c['server'], server_async, coro)
                kw2 = dict(kw, **IC.client_kwargs(cl))
                if cl.get('retrying'):
                    # a retrying client whose listed code / exception never occurs here: everything as without a strategy
                    from pjrpc.client import retry as _retry
                    kw2['retry_strategy'] = _retry.RetryStrategy(backoff=_retry.PeriodicBackoff(attempts=2, interval=0.0), codes={2999}, exceptions={TimeoutError})
                if cl.get('json_hooks'):
                    # the user's own codec hooks, each equivalent to the default it replaces
                    kw2.update(json_loader=S._hook_loads, json_dumper=S._hook_dumps, json_encoder=_ClientHookEncoder, json_decoder=S.HookDecoder)
                if cl.get('batch_strict') is False:
                    # a client whose batches do not check for duplicate ids themselves (a supported constructor argument): with
                    # distinct ids everything else is as with the default batch class
                    import functools
                    kw2['batch_request_class'] = functools.partial(pjrpc.BatchRequest, strict=False)
                client = (AsyncC if is_async else SyncC)(t, **kw2)
                try:
                    v = invoke(client, c['notation'], c['items'], is_async)
                    value = enc_value(v, c['notation'])
                except BaseException as e:  # noqa
                    value = {'raised': IC.enc_exc(e)}
                o = {'wire': enc(json.loads(t.sent[0][0])) if len(t.sent) == 1 else {'n_sent': len(t.sent)},
                     'value': value, 'events': t.events}
                out[half + '/' + sname] = o
    return out


def model_case(c, impl_out):
    m = dict(c)
    if c['op'] == 'build':
        n = len(c['items']) + 1
        m['idgen'] = model_idgen(c['idgen'], c['notation'], n)
        m['notation'] = 'single' if c['notation'] in SINGLE_NOTATIONS else ('getitem' if c['notation'] == 'b_getitem' else 'batch')
    return m


def relevant(prop, c):
    return prop in ('C07', 'C11')


def region(prop, c):
    if prop in ('C07', 'C11') and c['idgen']['k'] == 'uuid':
        return 'idgen:uuid'
    return None


def impl_keys(c):
    return HALVES if c['op'] == 'build' else tuple(f'{h}/{s[2]}' for h in HALVES for s in SERVERS)


def project(prop, c, out):
    if prop not in ('C07', 'C11'):
        return None
    keys = impl_keys(c)
    if 'sync' in out or 'sync/server' in out:
        src = out
    else:
        src = {k: out for k in keys}
    res = {}
    for k in keys:
        o = src[k]
        if c['op'] == 'build':
            res[k] = {x: o.get(x) for x in ('ok', 'raised', 'anomaly')}
        else:
            res[k] = {'wire': o['wire'], 'value': o['value'], 'exec': [e for e in o['events'] if e['e'] == 'exec']}
    return res


def label(c, mo):
    if c['op'] == 'build':
        return f'build/{c["notation"]}/{c["idgen"]["k"]}/' + ('ok' if 'ok' in mo else 'raised:' + str(mo.get('raised')))
    v = mo['value']
    return f'loopback/{c["notation"]}/' + next(iter(v))


# ------------------------------------------------------------------------------------------------
# oracle
# ------------------------------------------------------------------------------------------------

def _wellformed_request(d):
    return (isinstance(d, dict) and d.get('jsonrpc') == '2.0' and isinstance(d.get('method'), str)
            and set(d) <= {'jsonrpc', 'method', 'id', 'params'} and ('params' not in d or isinstance(d['params'], (list, dict))))


def oracle(prop, c, out):
    f = []
    if prop == 'C11':
        keys = impl_keys(c)
        base = project('C11', c, out)
        first = base[keys[0]]
        for k in keys[1:]:
            if base[k] != first:
                f.append(Finding(prop, 'twin-diff:loopback', f'{keys[0]} and {k} behave differently', c, {keys[0]: first, k: base[k]}))
                break
        return f
    if prop != 'C07':
        return f
    uuid = c['idgen']['k'] == 'uuid'
    for k in impl_keys(c):
        o = out[k]

        def fail(key, what, expected=None):
            f.append(Finding(prop, 'idgen:uuid' if uuid else key, f'[{k}] {what}', c, o, expected))
        items = c['items']
        invalid = any(it.get('args') and it.get('kwargs') for it in items)
        if c['op'] == 'build':
            if invalid:
                if o.get('raised') != 'AssertionError' or o['n_sent']:
                    fail('mixed-args-sent', 'positional and named arguments together were not refused before sending')
                continue
            if 'anomaly' in o:
                fail('not-exactly-one-document', f'{o["anomaly"]["sent"]} documents on the wire, raised {o["anomaly"]["raised"]}')
                continue
            if 'raised' in o:
                # a refusal before anything is sent is legitimate only for duplicate ids drawn by the generator
                if o['raised'] == 'IdentityError' and c['notation'] in BATCH_NOTATIONS and c['idgen']['k'] != 'sequential':
                    continue
                if o['raised'] == 'IdentityError' and c['idgen'] == IDGENS[4] and c['notation'] in BATCH_NOTATIONS:
                    continue          # sequential with step 0 repeats its id
                fail(f'notation-raised:{o["raised"]}', f'the notation raised {o["raised"]} instead of sending one document')
                continue
            doc = dec(o['ok'])
            elems = doc if isinstance(doc, list) else [doc]
            want_batch = c['notation'] in BATCH_NOTATIONS
            if want_batch != isinstance(doc, list) or len(elems) != len(items) or not all(_wellformed_request(e) for e in elems):
                fail('malformed-request-document', 'the document on the wire is not one well-formed request (array) for the calls made')
                continue
            ids = []
            for it, e in zip(items, elems):
                notif = it.get('notify') or c['notation'] == 'notify'
                if notif == ('id' in e):
                    fail('id-presence', 'ids must be present for calls and absent for notifications')
                    break
                if 'id' in e:
                    ids.append(json.dumps(e['id']))
                p = spec_params(it)
                want = p if p else None
                if enc(e.get('params')) != enc(want) or e['method'] != it['method']:
                    fail('arguments-changed', 'method / arguments on the wire differ from what was given (positional or named as given)', enc(want))
                    break
            else:
                if len(set(ids)) != len(ids):
                    fail('duplicate-call-ids', 'call ids in one document are not pairwise distinct')
        else:
            # loopback: the value a direct invocation of the registered function returns
            if invalid:
                continue
            want = expected_value(c)
            if want is not None and o['value'] != want:
                fail('loopback-value', 'the caller did not obtain what a direct invocation returns / raises', want)
            wc = expected_code(c)
            if wc is not None:
                got = (o['value'].get('raised') or {}).get('rpc') or {}
                if (got.get('code'), got.get('cls'), got.get('message')) != (str(wc), STD_MESSAGES[wc][0], STD_MESSAGES[wc][1]):
                    fail('loopback-error-class', 'the caller did not obtain the exception class registered for the code the server answers',
                         {'code': str(wc), 'cls': STD_MESSAGES[wc][0], 'message': STD_MESSAGES[wc][1]})
            execs = [e['m'] for e in o['events'] if e['e'] == 'exec']
            want_exec = expected_execs(c)
            if want_exec is not None and sorted(execs) != sorted(want_exec):
                fail('loopback-executions', 'methods did not run exactly once per element', want_exec)
    return f


def _direct(c, it):
    """what a direct call of the registered method yields: ('ok', value) | ('rpc', err-json) | ('code', n)"""
    m = it['method']
    cfgm = {x['name']: x for x in c['server']['methods']}
    if m not in cfgm:
        return 'code', -32601
    p = spec_params(it)
    if c['notation'] == 'b_getitem' and not isinstance(p, list):
        p = []
    if m in D.REF and not D.binds(m, p if p else []):
        return 'code', -32602
    if m not in D.REF and m not in ('fail_unreg', 'fail_zero', 'fail_reserved', 'fail_reworded', 'fail_null_data'):
        return None, None
    b = cfgm[m]['body']
    if b['k'] == 'const':
        return 'ok', dec(b['v'])
    if b['k'] == 'rpc':
        return 'rpc', b['err']
    if b['k'] == 'exc':
        return 'code', -32000
    # echo: the received mapping (defaults filled, context marker for the context parameter)
    sig = cfgm[m]['sig']
    ctx = cfgm[m].get('ctx')
    view = cfgm[m].get('view')
    names = [x['n'] for x in sig if x['n'] != ctx or view]
    recv = {}
    if isinstance(p, list):
        for n, v in zip(names, p):
            recv[n] = v
    else:
        recv.update(p or {})
    full = {}
    for x in sig:
        if x['n'] == ctx and not view:
            full[x['n']] = '<CTX>'
        elif x['n'] in recv:
            full[x['n']] = recv[x['n']]
        else:
            full[x['n']] = '<default>'
    if view:
        full['<self.context>'] = '<CTX>' if ctx else '<none>'
    return 'ok', full


STD_MESSAGES = {-32601: ('MethodNotFoundError', 'Method not found'), -32602: ('InvalidParamsError', 'Invalid params'),
                -32000: ('ServerError', 'Server error')}


def expected_value(c):
    base = (c['client'].get('error_cls') or {}).get('name', 'JsonRpcError')
    reg = {k['code']: k['name'] for k in reversed(REG)}

    def as_exc(kind, det):
        if kind == 'rpc':
            return {'code': det['code'], 'message': det['message'], 'data': det['data'], 'cls': reg.get(det['code'], base)}
        return None
    if c['notation'] in SINGLE_NOTATIONS:
        it = c['items'][0]
        if c['notation'] == 'notify' or it.get('notify'):
            return {'nothing': True}
        kind, det = _direct(c, it)
        if kind is None:
            return None
        if kind == 'ok':
            return {'value': enc(det)}
        if kind == 'rpc':
            return {'raised': {'rpc': as_exc(kind, det)}}
        return None          # code-only expectations are checked loosely below
    items = c['items']
    calls = [it for it in items if not it.get('notify')]
    if not calls:
        return {'nothing': True}
    vals = []
    for it in calls:
        kind, det = _direct(c, it)
        if kind != 'ok':
            if kind == 'rpc':
                return {'raised': {'rpc': as_exc(kind, det)}}
            return None
        vals.append(enc(det))
    return {'tuple': vals}


def expected_code(c):
    """the library error a call must come back as (unknown method / parameters that do not bind / arbitrary exception):
    for a single call, or for a batch, the first failing call when it fails with a library code"""
    if c['notation'] in SINGLE_NOTATIONS:
        it = c['items'][0]
        if c['notation'] == 'notify' or it.get('notify'):
            return None
        kind, det = _direct(c, it)
        return det if kind == 'code' else None
    for it in c['items']:
        if it.get('notify'):
            continue
        kind, det = _direct(c, it)
        if kind == 'ok':
            continue
        return det if kind == 'code' else None
    return None


def expected_execs(c):
    out = []
    for it in c['items']:
        kind, det = _direct(c, it)
        if kind is None:
            return None
        if kind in ('ok', 'rpc') or (kind == 'code' and det == -32000):
            out.append(it['method'])
    return out
