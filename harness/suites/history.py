"""
Suite `history` (C13): histories of requests on one dispatcher followed by a probe (compared with the
probe on a fresh dispatcher), the validator caches' growth, liveness of per-request context objects
after gc, and thread pools dispatching interleaved corpora.
"""
from __future__ import annotations

import gc
import json
import types
import weakref
from concurrent.futures import ThreadPoolExecutor

from .. import core
from ..core import enc, dec, Finding
from .. import impl_server as S
from . import dispatch as D

import pjrpc
import pjrpc.server
from pjrpc.server import validators

NAME = 'history'
SERIAL = True
HALVES = ('sync', 'async')

CORPUS = [
    {'jsonrpc': '2.0', 'method': 'echo', 'params': [1], 'id': 1},
    {'jsonrpc': '2.0', 'method': 'echo', 'params': {'a': 1, 'b': 2}, 'id': 'x'},
    {'jsonrpc': '2.0', 'method': 'echo', 'id': 2},
    {'jsonrpc': '2.0', 'method': 'noargs'},
    {'jsonrpc': '2.0', 'method': 'nosuch', 'id': 3},
    {'jsonrpc': '2.0', 'method': 'ctxm', 'params': [5], 'id': 4},
    {'jsonrpc': '2.0', 'method': 'ctxpos', 'params': {'a': 1}, 'id': 5},
    {'jsonrpc': '2.0', 'method': 'kwonly', 'params': {'k': 1}, 'id': 6},
    {'jsonrpc': '2.0', 'method': 'fail_rpc', 'id': 7},
    {'jsonrpc': '2.0', 'method': 'fail_exc', 'id': 8},
    {'jsonrpc': '2.0', 'method': 'view.vm', 'params': [9], 'id': 9},
    {'jsonrpc': '2.0', 'method': 'view.vm', 'params': {'a': 1}},
    {'jsonrpc': '2.0', 'method': 'view2.vm', 'params': [1], 'id': 10},
    {'jsonrpc': '2.0', 'method': 1},
    [{'jsonrpc': '2.0', 'method': 'echo', 'params': [1], 'id': 1}, {'jsonrpc': '2.0', 'method': 'view.vm', 'params': [2], 'id': 2},
     {'jsonrpc': '2.0', 'method': 'noargs'}],
    [{'jsonrpc': '2.0', 'method': 'echo', 'id': 1}, {'jsonrpc': '2.0', 'method': 'echo', 'id': 1}],
    [],
    {'jsonrpc': '2.0', 'method': 'ctxonly', 'id': 11},
    {'jsonrpc': '2.0', 'method': 'ctxonly', 'params': {}, 'id': 12},
    {'jsonrpc': '2.0', 'method': 'noargs', 'id': 13},
    {'jsonrpc': '2.0', 'method': 'sub.null', 'params': [], 'id': 14},
    {'jsonrpc': '2.0', 'method': 'view3.vm', 'id': 15},
    {'jsonrpc': '2.0', 'method': 'tw_ctx', 'params': [5], 'id': 16},
    {'jsonrpc': '2.0', 'method': 'tw_plain', 'params': {'ctx': 'bob'}, 'id': 17},
    {'jsonrpc': '2.0', 'method': 'tw_plain', 'params': ['x', 'y'], 'id': 18},
    {'jsonrpc': '2.0', 'method': 'tw_ctx', 'params': [], 'id': 19},
    {'jsonrpc': '2.0', 'method': 'fmt_strict', 'params': ['127.0.0.1'], 'id': 20},
    {'jsonrpc': '2.0', 'method': 'fmt_lenient', 'params': ['localhost'], 'id': 21},
    {'jsonrpc': '2.0', 'method': 'ctxlast', 'params': [5, 6], 'id': 22},
    {'jsonrpc': '2.0', 'method': 'ctxlast', 'params': {'a': 1, 'b': 2}, 'id': 23},
]
VALIDATORS = (None, 'pydantic', 'jsonschema')
TEXTS = [json.dumps(x) for x in CORPUS] + ['{', '']


STREAMS = [
    '{"jsonrpc": "2.0", "method": "nosuch_{i}", "id": {i}}',
    '{"jsonrpc": "2.0", "method": "v{i}.nosuch.m{i}", "id": "r{i}"}',
    '{"jsonrpc": "2.0", "method": "nosuch_{i}"}',
    '{"jsonrpc": "2.0", "method": "echo", "params": [{i}], "id": "r{i}"}',
    '{"jsonrpc": "2.0", "method": "echo", "params": {"a": "s{i}", "b": [{i}]}, "id": {i}}',
    '{"jsonrpc": "2.0", "method": "echo", "params": {"zz{i}": 1}, "id": {i}}',
    '{"jsonrpc": "2.0", "method": "fail_rpc", "id": {i}}',
    '{"jsonrpc": "2.0", "method": "fail_exc", "id": "e{i}"}',
    '{"jsonrpc": "2.0", "method": "view.vm", "params": [{i}], "id": {i}}',
    '{"jsonrpc": "1.{i}", "method": "echo", "id": {i}}',
    '[{"jsonrpc": "2.0", "method": "echo", "params": [{i}], "id": {i}}, {"jsonrpc": "2.0", "method": "nosuch_{i}", "id": "b{i}"}]',
    '{"broken": {i}',
]


def methods():
    ms = D.std_methods()
    ms.append(D.M('view2.vm', [D.P('a')], D.ECHO, view=True))       # a view without context
    ms.append(D.M('ctxonly', [D.P('ctx')], D.ECHO, ctx='ctx'))        # nothing but the (keyword) context parameter
    ms.append(D.M('view3.vm', [], D.ECHO, view=True, ctx='context'))  # a view method without parameters
    # ONE function object exposed twice: with a context designation and without
    ms.append(D.M('tw', [D.P('ctx'), D.P('a', d=True)], D.ECHO, key='tw_ctx', fn='tw', ctx='ctx'))
    ms.append(D.M('tw', [D.P('ctx'), D.P('a', d=True)], D.ECHO, key='tw_plain', fn='tw'))
    # validator arguments given per method (used with the schema validator): a format is an assertion only where asked for
    ms.append(D.M('fmt_strict', [D.P('a')], D.ECHO, js={'format_checker': True}))
    ms.append(D.M('fmt_lenient', [D.P('a')], D.ECHO, js={'format_checker': False}))
    # the context parameter is the LAST one (passed by keyword): the parameters before it are looked at first
    ms.append(D.M('ctxlast', [D.P('a'), D.P('b'), D.P('ctx')], D.ECHO, ctx='ctx'))
    return ms


FMT_SCHEMA = {'type': 'object', 'properties': {'a': {'format': 'ipv4'}}}


def make_case(texts, mode='history', n=None, threads=None, keying='fixed', validator=None, handlers=None, middlewares=None, cold=False, vary=False):
    c = {'suite': NAME, 'cfg': D.cfg(methods=methods(), handlers=handlers, middlewares=middlewares), 'texts': texts,
         'loads': [S.load_result(t.replace('{i}', '0') if vary else t) for t in texts], 'mode': mode,
         'keying': keying}
    if validator:
        c['validator'] = validator
    if n is not None:
        c['n'] = n
    if threads is not None:
        c['threads'] = threads
    if cold:
        c['cold'] = True
    if vary:
        c['vary'] = True
    return c


def generate(tier, rng):
    thorough = tier == 'thorough'
    # (a) histories followed by a probe
    for probe in TEXTS:
        yield make_case([probe])
    # every ordered pair of corpus requests (the second is the probe)
    for a in TEXTS:
        for b in TEXTS:
            yield make_case([a, b])
    # ... and, with the schema / type validators attached, every ordered pair of the requests that exercise them
    for v in VALIDATORS[1:]:
        sub = [t for t in TEXTS if any(k in t for k in ('fmt_', 'tw_', 'ctxonly', 'view3'))] + [TEXTS[0], TEXTS[5], TEXTS[10]]
        for a in sub:
            for b in sub:
                yield make_case([a, b], validator=v)
    n_hist = 30000 if thorough else 900
    for i in range(n_hist):
        length = rng.randrange(1, 12 if thorough else 7)
        yield make_case([rng.choice(TEXTS) for _ in range(length)] + [rng.choice(TEXTS)], validator=VALIDATORS[i % 3] if i % 2 else None,
                        handlers=D.HANDLER_TABLES[3 + (i // 4) % 2] if i % 4 == 0 else None)
    # a middleware that appends to the request's own parameter list: requests without parameters do not share a list
    mutating = [{'k': 'appendParam', 'v': enc(9)}]
    noparam = [t for t in TEXTS if '"params"' not in t and t.startswith('{') and '"method"' in t]
    for a in noparam:
        for b in noparam + [TEXTS[0]]:
            yield make_case([a, a, b], middlewares=mutating)
    # failing requests of every class, in every order, on a dispatcher with generic and per-code error handlers
    failing = [TEXTS[4], TEXTS[2], TEXTS[8], TEXTS[9], TEXTS[13], TEXTS[0]]
    for a in failing:
        for b in failing:
            for table in D.HANDLER_TABLES[3:5]:
                yield make_case([a, a, b], handlers=table)
    # (b) N dispatches with a fresh context object each: nothing retained, the caches do not grow with N
    for n in (1, 10, 1000):
        for text in (TEXTS[0], TEXTS[5], TEXTS[10], TEXTS[12], TEXTS[14], TEXTS[17], TEXTS[19], TEXTS[21], TEXTS[9], TEXTS[8], TEXTS[4]):
            for v in VALIDATORS:
                if n == 1000 and v and not thorough and text not in (TEXTS[10], TEXTS[5]):
                    continue
                yield make_case([text], mode='repeat', n=n, validator=v)
    # (b') a stream of requests that are all different (ever new method names, ids, parameters, broken texts): the number of live
    # objects in the process does not grow with the number of requests served
    for tmpl in STREAMS:
        for v in (VALIDATORS if thorough else VALIDATORS[:1]):
            yield make_case([tmpl], mode='repeat', n=3000 if thorough else 1200, validator=v, vary=True)
    # (c) thread pools dispatching interleaved corpora
    for threads in ((2, 4, 8, 16) if thorough else (2, 8)):
        for _ in range(4 if thorough else 2):
            yield make_case([rng.choice(TEXTS) for _ in range(400 if thorough else 120)], mode='threads', threads=threads)
    # ... and a pool whose threads meet a method for the FIRST time together (nothing warmed up by a serial run), with a
    # validator whose exclusion hook takes its time: the first dispatches of one method overlap inside the validator
    for threads in ((2, 4, 8) if thorough else (2, 4)):
        for text in (TEXTS[5], TEXTS[6], TEXTS[10], TEXTS[17], TEXTS[22], TEXTS[0], TEXTS[28], TEXTS[29]):
            yield make_case([text] * (threads * 2), mode='threads', threads=threads, validator='base_slow', cold=True)
        yield make_case([rng.choice([TEXTS[5], TEXTS[6], TEXTS[10], TEXTS[22], TEXTS[28], TEXTS[29]]) for _ in range(threads * 4)], mode='threads', threads=threads,
                        validator='base_slow', cold=True)


_SHARED = {}


def shared_validator(kind):
    """one validator instance per kind for the whole process, as an application has (its caches live as long)"""
    if kind not in _SHARED:
        if kind == 'base_slow':
            import time

            def slow_hook(name, annotation, default):
                time.sleep(0.003)         # lets the other threads of the pool in while this one works on the signature
                return False
            _SHARED[kind] = (validators.BaseValidator(exclude_param=slow_hook), {})
        elif kind == 'pydantic':
            from pjrpc.server.validators import pydantic as vp
            _SHARED[kind] = (vp.PydanticValidator(), {})
        else:
            from pjrpc.server.validators import jsonschema as vj
            _SHARED[kind] = (vj.JsonSchemaValidator(), {'schema': {'type': 'object'}})
    return _SHARED[kind]


def fresh_dispatcher(cfg, is_async, validator=None):
    """a dispatcher over *new* function / view-class objects, so the growth of the process-wide caches
    during this case is attributable to this case"""
    kwargs = {}
    if cfg.get('middlewares'):
        kwargs['middlewares'] = [S.make_middleware(i, s_, is_async) for i, s_ in enumerate(cfg['middlewares'])]
    if cfg.get('handlers'):
        kwargs['error_handlers'] = {
            (None if e['key'] is None else int(e['key'])): [S.make_handler(None if e['key'] is None else int(e['key']), i, h, is_async)
                                                              for i, h in enumerate(e['hs'])]
            for e in cfg['handlers']}
    d = (pjrpc.server.AsyncDispatcher if is_async else pjrpc.server.Dispatcher)(**kwargs)
    made = {}
    for m in cfg['methods']:
        key = m.get('key') or m['name']
        if m.get('view'):
            cls = S.make_callable(key, m['sig'], is_async, True, fresh=True)
            if validator:
                v, kw = shared_validator(validator)
                v.validate(**kw)(cls.vm) if kw else v.validate(cls.vm)
            d.registry.add_methods(pjrpc.server.dispatcher.ViewMethod(cls, 'vm', key, m.get('ctx'), bool(m.get('positional'))))
        else:
            fkey = m.get('fn') or key
            g = made.get(fkey) or S.make_callable(fkey, m['sig'], is_async, False, fresh=True)
            made[fkey] = g
            if validator:
                v, kw = shared_validator(validator)
                if validator == 'jsonschema' and m.get('js'):
                    import jsonschema as _js
                    kw = dict(schema=FMT_SCHEMA, **({'format_checker': _js.FormatChecker()} if m['js']['format_checker'] else {}))
                v.validate(**kw)(g) if kw else v.validate(g)
            d.registry.add_methods(pjrpc.server.Method(g, key, m.get('ctx'), bool(m.get('positional'))))
    return d


def _caches():
    """every functools cache hanging off the server package's classes / modules (found by looking, so that a cache
    added later is measured too)"""
    import sys
    seen = {}
    for name, mod in list(sys.modules.items()):
        if not name.startswith('pjrpc.server') or mod is None:
            continue
        for obj in list(vars(mod).values()):
            holders = [obj] if not isinstance(obj, type) else [obj] + [v for v in vars(obj).values()]
            for h in holders:
                if hasattr(h, 'cache_info') and callable(getattr(h, 'cache_info', None)):
                    seen[id(h)] = h
    return list(seen.values())


def cache_size():
    return sum(c.cache_info().currsize for c in _caches())


def dispatch_on(d, text, is_async, ctx):
    del S.LOG[:]
    try:
        r = S.loop().run_until_complete(d.dispatch(text, context=ctx)) if is_async else d.dispatch(text, context=ctx)
    except Exception as e:  # noqa
        r = e
    o = S.observe(r, list(S.LOG))
    return o


class Ctx2(S.Ctx):
    pass


def run_half(c, is_async):
    S.set_bodies(c['cfg'])
    vk = c.get('validator')
    _SHARED.clear()          # one validator object per case: what one case leaves in it cannot blur the next case's probes
    out = {}
    if c['mode'] == 'history':
        # the probe alone on a fresh dispatcher, *before* the history has run
        d0 = fresh_dispatcher(c['cfg'], is_async, vk)
        o0 = dispatch_on(d0, c['texts'][-1], is_async, S.next_ctx())
        out['probe_before'] = {'result': o0['result'], 'events': o0['events']}
        del d0
    before = cache_size()
    d = fresh_dispatcher(c['cfg'], is_async, vk)
    if c['mode'] == 'history':
        outs = [dispatch_on(d, t, is_async, S.next_ctx()) for t in c['texts']]
        out['outs'] = [{'result': o['result'], 'events': o['events']} for o in outs]
        out['cache_growth'] = cache_size() - before
        # the probe alone on a fresh dispatcher
        d2 = fresh_dispatcher(c['cfg'], is_async, vk)
        o2 = dispatch_on(d2, c['texts'][-1], is_async, S.next_ctx())
        out['probe_fresh'] = {'result': o2['result'], 'events': o2['events']}
    elif c['mode'] == 'repeat':
        refs = []
        last = None
        # the context object must look like S.CTX to the recording bodies: patch the marker test by identity is
        # not possible, so bodies see an unknown object; only replies' kinds and liveness are observed here
        vary = c.get('vary')
        warm = 40 if vary else 0
        base = mid = None
        for i in range((2 * c['n'] if vary else c['n']) + warm):
            ctx = Ctx2()
            if not vary or i < warm:
                refs.append(weakref.ref(ctx))
            last = dispatch_on(d, c['texts'][0].replace('{i}', str(i)) if vary else c['texts'][0], is_async, ctx)
            del ctx
            if vary and i == warm - 1:
                last = None
                gc.collect()
                base = len(gc.get_objects())
            if vary and i == warm + c['n'] - 1:
                last = None
                gc.collect()
                mid = len(gc.get_objects())
        if vary:
            # growth over the SECOND half of the stream: a bounded cache has filled up by then, a leak keeps growing
            keep, last = last, None
            gc.collect()
            out['object_growth'] = len(gc.get_objects()) - mid
            out['object_growth_first_half'] = mid - base
            last = keep
        if any(r() is not None for r in refs):
            gc.collect()        # contexts kept alive by a reference cycle only are not retained
        out['live_contexts'] = sum(1 for r in refs if r() is not None)
        out['last_kind'] = last['result']['k']
        out['last_codes'] = last['result'].get('codes')
    else:
        if is_async:
            return {'skipped': True}
        texts = c['texts']
        S.CURRENT['ctx'] = S.CTX          # one context object for the serial and the threaded run (no per-call marker race)
        if not c.get('cold'):
            serial = [dispatch_on(d, t, False, S.CTX)['result'] for t in texts]

        def work(t):
            try:
                r = d.dispatch(t, context=S.CTX)
            except Exception as e:  # noqa
                r = e
            return S.observe(r, [])['result']
        with ThreadPoolExecutor(max_workers=c['threads']) as ex:
            threaded = list(ex.map(work, texts))
        if c.get('cold'):
            serial = [dispatch_on(d, t, False, S.CTX)['result'] for t in texts]
        out['serial'] = serial
        out['threaded'] = threaded
    out.setdefault('cache_growth', cache_size() - before)
    return out


def run_impl(c):
    return {'sync': run_half(c, False), 'async': run_half(c, True)}


def relevant(prop, c):
    return prop in ('C13', 'C11')


def _model_half(c, mo):
    if c['mode'] == 'history':
        return {'outs': mo['outs'], 'memo': int(mo['memo_size']), 'retained': int(mo['retained'])}
    if c['mode'] == 'repeat':
        return {'memo': int(mo['memo_size']), 'retained': int(mo['retained']), 'kind': mo['outs'][0]['result']['k']}
    return {'results': [o['result'] for o in mo['outs']]}


def _impl_half(c, o):
    if o.get('skipped'):
        return None
    if c['mode'] == 'history':
        # reply + executions; context identity is part of `recv`
        return {'outs': o['outs'], 'memo': o['cache_growth'], 'retained': 0}
    if c['mode'] == 'repeat':
        return {'memo': o['cache_growth'], 'retained': o['live_contexts'], 'kind': o['last_kind']}
    return {'results': o['threaded']}


def _strip(c, h):
    # the model's memo table is the signature cache; the schema / type validators keep further bounded caches
    # (one entry per distinct signature), judged by the oracle's bound instead
    if h is not None and c.get('validator'):
        h = {k: v for k, v in h.items() if k != 'memo'}
    return h


def project(prop, c, out):
    if prop not in ('C13',):
        return None
    if 'memo_size' in out:
        m = _strip(c, _model_half(c, out))
        return {h: (None if (c['mode'] == 'threads' and h == 'async') else m) for h in HALVES}
    return {h: _strip(c, _impl_half(c, out[h])) for h in HALVES}


def agree(prop, c, pm, pi):
    """the model's memo table says how many entries the signature cache may hold after the case (one per distinct key); the
    property bounds the retained state, it does not demand that the cache keeps everything (a bounded cache holds fewer)"""
    if prop != 'C13':
        return None
    for h in HALVES:
        m, i = pm.get(h), pi.get(h)
        if m is None or i is None:
            if m != i:
                return False
            continue
        rest_m = {k: v for k, v in m.items() if k != 'memo'}
        rest_i = {k: v for k, v in i.items() if k != 'memo'}
        if not core.matches(core.canon(rest_m), core.canon(rest_i)):
            return False
        if 'memo' in m and not (isinstance(i.get('memo'), int) and i['memo'] <= m['memo']):
            return False
    return True


def label(c, mo):
    return f'history/{c["mode"]}/len={min(len(c["texts"]), 8)}/memo={mo["memo_size"]}'


def oracle(prop, c, out):
    f = []
    if prop != 'C13':
        return f
    for half in HALVES:
        o = out[half]
        if o.get('skipped'):
            continue

        def fail(key, what, expected=None):
            f.append(Finding(prop, key, f'[{half}] {what}', c, o, expected))
        if c['mode'] == 'history':
            if o['outs'][-1] != o['probe_fresh'] or o['outs'][-1] != o['probe_before']:
                fail('history-dependent-answer', 'the probe is answered differently after the history than on a fresh dispatcher',
                     {'fresh_after': o['probe_fresh'], 'fresh_before': o['probe_before']})
            nmethods = len(c['cfg']['methods']) * (3 if c.get('validator') else 1)
            if o['cache_growth'] > nmethods:
                fail('cache-grows', f'the validator cache grew by {o["cache_growth"]} entries for {nmethods} methods')
        elif c['mode'] == 'repeat':
            if o['live_contexts']:
                fail('context-retained', f'{o["live_contexts"]} of {c["n"]} per-request context objects are still referenced after the dispatches returned')
            if o['cache_growth'] > len(c['cfg']['methods']) * (3 if c.get('validator') else 1):
                fail('cache-grows', f'the validator caches grew by {o["cache_growth"]} entries over {c["n"]} dispatches')
            if c.get('vary') and o.get('object_growth', 0) > c['n'] // 4:
                fail('memory-grows', f'{o["object_growth"]} more live objects over the second {c["n"]} requests of a stream of {2 * c["n"]} all-different requests '
                                     f'({o.get("object_growth_first_half")} over the first)')
        else:
            if o['serial'] != o['threaded']:
                bad = next(i for i, (a, b) in enumerate(zip(o['serial'], o['threaded'])) if a != b)
                fail('thread-dependent-answer', f'request {bad} is answered differently when served from a thread pool',
                     {'serial': o['serial'][bad], 'threaded': o['threaded'][bad]})
    return f
