"""
Suite `http` (C18): the aiohttp, flask and werkzeug integrations through the frameworks' own test
clients: media types x bodies x status-by-error functions x endpoint prefixes.
"""
from __future__ import annotations

import itertools
import json

from .. import core
from ..core import enc, dec, Finding
from .. import impl_server as S
from . import dispatch as D

import pjrpc
import pjrpc.server

NAME = 'http'
SERIAL = True
INTEGRATIONS = ['aiohttp', 'flask', 'werkzeug']
DOCUMENTED = ['application/json', 'application/json-rpc', 'application/jsonrequest']

CONTENT_TYPES = (
    DOCUMENTED
    + [t + '; charset=utf-8' for t in DOCUMENTED]
    + ['Application/JSON', 'APPLICATION/JSON-RPC; Charset=UTF-8', 'application/json;charset=utf-8', 'application/json; boundary=x; charset=utf-8',
       'application/jsonx', 'application/vnd.x+json', 'application/x-json', 'text/json', 'text/plain', 'application/xml',
       'application/json-rpcx', 'application/jsonrequest2', 'json', 'application/', None]
    # parameters other than the usual one: the media type alone decides (bodies under these are kept to ASCII, the frameworks differ
    # in whether they honour a foreign charset when decoding)
    + ['application/json; charset=iso-8859-1', 'application/json-rpc; charset=us-ascii', 'application/jsonrequest; charset=ISO-8859-1',
       'application/json; charset=utf8', 'application/json; version=2; q=0.5', 'text/plain; charset=iso-8859-1']
)
FOREIGN_CHARSET = [t for t in CONTENT_TYPES if t and 'charset=' in t.lower() and 'utf' not in t.lower()]

STATUS_FNS = [
    {'k': 'default'},
    {'k': 'table', 'map': [['-32601', '404'], ['-32600', '400'], ['-32700', '400'], ['2001', '418'], ['-32000', '500']], 'else': '200'},
    {'k': 'table', 'map': [['0', '201']], 'else': '202'},
    # functions of the *whole* tuple: its length / the multiplicity of a code
    {'k': 'single', 'map': [['-32601', '404'], ['2001', '418'], ['0', '201']], 'else': '200'},
    {'k': 'count', 'base': '210'},
]


def mime_of(ct):
    """the media type as a framework parses it: parameters stripped, case folded; '' when missing"""
    if ct is None:
        return ''
    return ct.split(';')[0].strip().lower()


def methods():
    P, M = D.P, D.M
    return [
        M('echo', [P('a'), P('b', d=True)], D.ECHO),
        M('noargs', [], {'k': 'const', 'v': enc(7)}),
        M('fail_rpc', [P('a', d=True)], D.err_body(data={'detail': [1, None]})),
        M('fail_exc', [P('a', d=True)], D.exc_body()),
    ]


BODIES = [
    json.dumps({'jsonrpc': '2.0', 'method': 'echo', 'params': [1], 'id': 1}),
    json.dumps({'jsonrpc': '2.0', 'method': 'echo', 'params': {'a': 'é\U0001F600'}, 'id': 'x'}),
    json.dumps({'jsonrpc': '2.0', 'method': 'noargs'}),
    json.dumps({'jsonrpc': '2.0', 'method': 'nosuch', 'id': 2}),
    json.dumps({'jsonrpc': '2.0', 'method': 'echo', 'id': 3}),
    json.dumps({'jsonrpc': '2.0', 'method': 'fail_rpc', 'id': 4}),
    json.dumps({'jsonrpc': '2.0', 'method': 'fail_exc', 'id': 5}),
    json.dumps({'jsonrpc': '2.0', 'method': 1}),
    json.dumps([{'jsonrpc': '2.0', 'method': 'echo', 'params': [1], 'id': 1}, {'jsonrpc': '2.0', 'method': 'noargs'},
                {'jsonrpc': '2.0', 'method': 'nosuch', 'id': 2}]),
    json.dumps([{'jsonrpc': '2.0', 'method': 'noargs'}, {'jsonrpc': '2.0', 'method': 'fail_exc'}]),
    json.dumps([{'jsonrpc': '2.0', 'method': 'fail_rpc', 'id': 1}, {'jsonrpc': '2.0', 'method': 'echo', 'id': 2, 'params': [0]}]),
    json.dumps([{'jsonrpc': '2.0', 'method': 'nosuch', 'id': 1}, {'jsonrpc': '2.0', 'method': 'nosuch', 'id': 2}]),
    json.dumps([{'jsonrpc': '2.0', 'method': 'fail_rpc', 'id': 1}, {'jsonrpc': '2.0', 'method': 'fail_rpc', 'id': 2},
                {'jsonrpc': '2.0', 'method': 'fail_rpc', 'id': 3}, {'jsonrpc': '2.0', 'method': 'noargs', 'id': 4}]),
    json.dumps([{'jsonrpc': '2.0', 'method': 'noargs', 'id': 1}, {'jsonrpc': '2.0', 'method': 'noargs', 'id': 2}]),
    '\ufeff' + json.dumps({'jsonrpc': '2.0', 'method': 'echo', 'params': [1], 'id': 1}),       # a byte order mark is not JSON: -32700
    '[]', '{', '', 'null', '{"jsonrpc": "2.0", "method": "echo", "params": ["\\u00e9"], "id": 9}',
]
RAW_BODIES = [b'\xff\xfe{"jsonrpc":"2.0"}', b'{"jsonrpc":"2.0","method":"echo","params":["\xe9"],"id":1}']


def make_case(ct, body, status, prefix='/api', raw=None):
    c = {'suite': NAME, 'cfg': D.cfg(methods=methods()), 'content_type': ct, 'mime': mime_of(ct), 'status': status,
         'prefix': prefix, 'integrations': INTEGRATIONS}
    if raw is not None:
        c['raw_hex'] = raw.hex()
        c['body'] = {'k': 'undecodable'}
    else:
        c['text'] = body
        c['body'] = {'k': 'text', 'load': S.load_result(body)}
    return c


def generate(tier, rng):
    thorough = tier == 'thorough'
    for ct in CONTENT_TYPES:
        for body in BODIES:
            if ct in FOREIGN_CHARSET and not body.isascii():
                continue
            for st in (STATUS_FNS if (thorough or ct in DOCUMENTED) else STATUS_FNS[:1]):
                yield make_case(ct, body, st)
    for ct in DOCUMENTED + ['application/json; charset=utf-8', 'text/plain']:
        for raw in RAW_BODIES:
            yield make_case(ct, None, STATUS_FNS[0], raw=raw)
    for ct in DOCUMENTED + ['application/json; charset=utf-8', 'text/plain', None]:
        for body in BODIES[:3]:
            yield dict(make_case(ct, body, STATUS_FNS[0]), default_ct='application/json-rpc')
    # the endpoint under test is not the application's own but one added with add_endpoint (plain, and on a sub-application /
    # blueprint); the application's own endpoint then serves another registry
    for mount in ('endpoint', 'sub'):
        for ct in ('application/json', 'application/json-rpc; charset=utf-8', 'text/plain', None):
            for body in BODIES[:12]:
                for st in (STATUS_FNS[0], STATUS_FNS[1]):
                    yield dict(make_case(ct, body, st), mount=mount)
    for prefix in ('/rpc/v1', '/api/', '/a/b/c'):
        for ct in ('application/json', 'application/json-rpc; charset=utf-8', 'text/plain'):
            for body in BODIES[:4]:
                yield make_case(ct, body, STATUS_FNS[1], prefix=prefix)
    n = 3000 if thorough else 200
    for _ in range(n):
        v = D.rnd_json(rng, 3)
        yield make_case(rng.choice(CONTENT_TYPES[:9]), json.dumps(v), rng.choice(STATUS_FNS))


# ------------------------------------------------------------------------------------------------
# implementation: one application per (integration, status fn, prefix), methods follow CURRENT bodies
# ------------------------------------------------------------------------------------------------

_APPS = {}


def status_fn(spec):
    if spec['k'] == 'default':
        return None
    if spec['k'] == 'count':
        return lambda codes: int(spec['base']) + sum(1 for c in codes if c != 0)
    table = {int(c): int(s) for c, s in spec['map']}
    dflt = int(spec['else'])
    if spec['k'] == 'single':
        return lambda codes: table.get(codes[0], dflt) if len(codes) == 1 else dflt

    def f(codes):
        for c in codes:
            if c in table:
                return table[c]
        return dflt
    return f


def second_endpoint(app):
    """a second endpoint, added after the one under test, served by another dispatcher with another registry: requests
    to the endpoint under test must still reach its own dispatcher"""
    d = app.add_endpoint('/zz-other')

    def other_only():
        return 'other'
    d.add(other_only, 'other_only')


def register(dispatcher, cfg):
    for m in cfg['methods']:
        f = S.make_callable(m['name'], m['sig'], False, False)
        dispatcher.add(f, m['name'])


def other_registry(d):
    def other_only():
        return 'other'
    d.add(other_only, 'other_only')


def get_app(integration, c):
    mount = c.get('mount', 'main')
    if integration == 'werkzeug':
        mount = 'main'                     # the werkzeug integration has one endpoint
    key = (integration, json.dumps(c['status']), c['prefix'], mount)
    if key in _APPS:
        return _APPS[key]
    sf = status_fn(c['status'])
    kw = {} if sf is None else {'status_by_error': sf}
    if integration == 'aiohttp':
        from aiohttp import web
        from aiohttp.test_utils import TestClient, TestServer
        from pjrpc.server.integration import aiohttp as ai
        app = ai.Application(c['prefix'], **kw)
        if mount == 'main':
            register(app.dispatcher, c['cfg'])
            second_endpoint(app)
        else:
            other_registry(app.dispatcher)
            d = app.add_endpoint('/ep', subapp=web.Application()) if mount == 'sub' else app.add_endpoint('/ep')
            register(d, c['cfg'])
            second_endpoint(app)

        async def start():
            client = TestClient(TestServer(app.app))
            await client.start_server()
            return client
        client = S.loop().run_until_complete(start())
        _APPS[key] = client
    elif integration == 'flask':
        import flask
        from pjrpc.server.integration import flask as fl
        app = flask.Flask(f'verif{len(_APPS)}')
        rpc = fl.JsonRPC(c['prefix'], **kw)
        if mount == 'main':
            register(rpc.dispatcher, c['cfg'])
            second_endpoint(rpc)
        else:
            other_registry(rpc.dispatcher)
            d = rpc.add_endpoint('/ep', blueprint=flask.Blueprint(f'bp{len(_APPS)}', __name__)) if mount == 'sub' else rpc.add_endpoint('/ep')
            register(d, c['cfg'])
            second_endpoint(rpc)
        rpc.init_app(app)
        _APPS[key] = app.test_client()
    else:
        import werkzeug.test
        from pjrpc.server.integration import werkzeug as wz
        rpc = wz.JsonRPC(c['prefix'])
        register(rpc.dispatcher, c['cfg'])
        _APPS[key] = werkzeug.test.Client(rpc)
    return _APPS[key]


def path_of(c, integration=None):
    p = c['prefix'].rstrip('/')
    if c.get('mount', 'main') != 'main' and integration != 'werkzeug':
        p += '/ep'
    return p if p else '/'


def run_one(integration, c):
    client = get_app(integration, c)
    S.set_bodies(c['cfg'])
    del S.LOG[:]
    data = bytes.fromhex(c['raw_hex']) if 'raw_hex' in c else c['text'].encode('utf-8')
    headers = {} if c['content_type'] is None else {'Content-Type': c['content_type']}
    path = path_of(c, integration)
    if integration == 'aiohttp':
        async def go():
            from aiohttp import hdrs
            skip = [hdrs.CONTENT_TYPE] if c['content_type'] is None else []
            resp = await client.post(path or '/', data=data, headers=headers, skip_auto_headers=skip)
            body = await resp.read()
            return resp.status, resp.headers.get('Content-Type'), body
        status, ct, body = S.loop().run_until_complete(go())
    else:
        path = path or '/'
        resp = client.post(path, data=data, headers=headers, content_type=c['content_type'])
        status, ct, body = resp.status_code, resp.headers.get('Content-Type'), resp.get_data()
    doc = None
    if body:
        try:
            doc = enc(json.loads(body.decode('utf-8')))
        except Exception:  # noqa
            doc = ['x', 'not-json']
    return {'reply': {'status': str(status), 'content_type': None if ct is None else ct.split(';')[0].strip().lower(), 'body': doc},
            'events': list(S.LOG)}


def run_impl(c):
    if c.get('default_ct'):
        # another documented type made the default for replies (a supported configuration call): the gate still admits
        # every documented request type
        import pjrpc.common as pc
        old = pc.DEFAULT_CONTENT_TYPE
        pc.set_default_content_type(c['default_ct'])
        try:
            return {i: run_one(i, c) for i in INTEGRATIONS}
        finally:
            pc.set_default_content_type(old)
            if getattr(pc, 'REQUEST_CONTENT_TYPES', None) != _REQ_TYPES:
                pc.REQUEST_CONTENT_TYPES = _REQ_TYPES           # whatever the call did to the gate's list must not outlive the case
    return {i: run_one(i, c) for i in INTEGRATIONS}


import pjrpc.common as _pc
_REQ_TYPES = tuple(_pc.REQUEST_CONTENT_TYPES)


def relevant(prop, c):
    return prop == 'C18'


def needs_encoder(c):
    """the dispatcher's answer carries a ValidationError as error data (-32602): it needs pjrpc's JSONEncoder"""
    if 'text' not in c or c['mime'] not in DOCUMENTED:
        return False
    ref = S.dispatch(c['cfg'], c['text'], False, fresh=True)
    return ref['result']['k'] == 'reply' and '-32602' in ref['result']['codes']


def region(prop, c):
    if prop == 'C18' and needs_encoder(c):
        return 'flask:custom-encoder-shadowed'
    return None


def _proj_one(o, reply_ct='application/json'):
    r = o['reply']
    status = int(r['status'])
    if status in (200, 201, 202, 210, 211, 212, 213, 214, 400, 404, 418, 500) and r['body'] is not None and status != 415 and r.get('content_type') in ('application/json', reply_ct, None) and r['body'][0] != 'x':
        relay = True
    else:
        relay = False
    execs = [e['m'] for e in o['events'] if e['e'] == 'exec']
    if relay:
        return {'status': status, 'body': core.canon(r['body']), 'json_ct': r['content_type'] == reply_ct, 'exec': execs}
    return {'status': status, 'body': None if status == 200 else 'ignored', 'exec': execs}


def project(prop, c, out):
    if prop != 'C18':
        return None
    res = {i: _proj_one(out[i], c.get('default_ct') or 'application/json') for i in INTEGRATIONS}
    if c.get('default_ct'):
        for i in res:                  # the reply's own media type follows the configured default; the model fixes the library default
            res[i].pop('json_ct', None)
    return res


def label(c, mo):
    sts = '/'.join(mo[i]['reply']['status'] for i in INTEGRATIONS)
    return f'http/{"doc" if c["mime"] in DOCUMENTED else "other"}/{sts}/{c["status"]["k"]}'


def oracle(prop, c, out):
    f = []
    if prop != 'C18':
        return f
    accepted = c['mime'] in DOCUMENTED
    raw = 'raw_hex' in c
    enc_region = needs_encoder(c)
    # what the dispatcher itself answers (its verdict), obtained directly
    ref = None
    if accepted and not raw:
        ref = S.dispatch(c['cfg'], c['text'], False, fresh=True)
    projs = {}
    for i in INTEGRATIONS:
        o = out[i]
        p = _proj_one(o, c.get('default_ct') or 'application/json')
        if c.get('default_ct'):
            # which JSON media type the reply itself carries under a changed default is outside the property (aiohttp always says
            # application/json, flask / werkzeug follow the configured default); the gate and the relay are what is checked here
            p['json_ct'] = True
        projs[i] = p

        def fail(key, what, expected=None):
            f.append(Finding(prop, 'flask:custom-encoder-shadowed' if (i == 'flask' and enc_region) else key, f'[{i}] {what}', c, o, expected))
        if not accepted:
            if p['status'] != 415:
                fail('not-415', f'media type {c["content_type"]!r} was not refused with 415 (status {p["status"]})')
            elif p['exec']:
                fail('refused-executed', 'a refused request executed a method')
            continue
        if raw:
            if p['status'] != 400 or p['exec']:
                fail('non-utf8-not-400', 'a body that is not valid UTF-8 was not answered 400')
            continue
        if p['status'] == 415:
            fail('documented-type-refused', f'the documented content type {c["content_type"]!r} was refused with 415')
            continue
        sf = status_fn(c['status'])
        if ref['result']['k'] == 'nothing':
            if p['status'] != 200 or p['body'] is not None:
                fail('nothing-not-200-empty', 'the dispatcher returned nothing but the reply is not 200 with an empty body')
        elif ref['result']['k'] == 'reply':
            want_status = 200 if (sf is None or i == 'werkzeug') else sf(tuple(int(x) for x in ref['result']['codes']))
            want_body = core.canon(ref['result']['doc'])
            if p.get('body') != want_body:
                fail('body-not-relayed', "the reply body is not exactly the dispatcher's response document", want_body)
            elif p['status'] != want_status:
                fail('status-not-by-error', f'status {p["status"]}, the status-by-error function says {want_status}', want_status)
            elif not p.get('json_ct'):
                fail('content-type', 'the reply does not carry the JSON content type')
    if accepted and c['status']['k'] == 'default':
        first = projs[INTEGRATIONS[0]]
        for i in INTEGRATIONS[1:]:
            if projs[i] != first:
                f.append(Finding(prop, 'flask:custom-encoder-shadowed' if (i == 'flask' and enc_region) else 'integrations-differ', f'{INTEGRATIONS[0]} and {i} answer the same request differently', c,
                                 {INTEGRATIONS[0]: first, i: projs[i]}))
                break
    return f
