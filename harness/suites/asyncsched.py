"""
Suite `async` (C10, C11): the real AsyncDispatcher under a harness-controlled scheduler.  Generated
coroutine methods / middlewares / error handlers await harness futures at their suspension points;
the harness releases them following an enumerated schedule and hands the *effective* schedule to the
model (`dispatchAsync` in Async.lean).
"""
from __future__ import annotations

import asyncio
import itertools
import json

from .. import core
from ..core import enc, dec, Finding
from .. import impl_server as S
from .. import userclasses as U
from . import dispatch as D

import pjrpc
import pjrpc.server
from pjrpc.common import UNSET

NAME = 'async'
SERIAL = True           # one event loop, deterministic order

ALOG = []               # [{'i': elem, 'ev': {...}} | {'i': elem, 'suspend': True}]
PENDING = {}            # elem -> future


def elem_of(request):
    p = request.params
    if isinstance(p, (list, tuple)) and p:
        return p[0]
    if isinstance(p, dict):
        return p.get('a', -1)
    return -1


async def point(i):
    fut = asyncio.get_event_loop().create_future()
    PENDING[i] = fut
    ALOG.append({'i': str(i), 'suspend': True})
    await fut


COMPLETED = []          # elements whose method body ran to its end (returned or raised by itself)


def make_view(m, k):
    """a class-based view registered without a context whose method keeps per-call state on `self` across its
    suspension points (every request must get its own view instance)"""
    name = m['name']

    class V(pjrpc.server.ViewMixin):
        def __init__(self, context=None):
            super().__init__()
            self.context = context

        async def vm(self, a):
            ALOG.append({'i': str(a), 'ev': {'e': 'exec', 'm': name, 'recv': enc({'a': a, '<self.context>': '<none>'})}})
            self.mine = a
            for _ in range(k):
                await point(a)
            COMPLETED.append(str(a))
            return {'a': self.mine, '<self.context>': '<none>'}
    return V


def make_method(m, k, coroutine):
    name, body = m['name'], m['body']

    def log_exec(a):
        ALOG.append({'i': str(a), 'ev': {'e': 'exec', 'm': name, 'recv': enc({'a': a})}})

    def outcome(a):
        COMPLETED.append(str(a))
        kind = body['k']
        if kind == 'echo':
            return {'a': a}
        if kind == 'const':
            return dec(body['v'])
        if kind == 'rpc':
            e = body['err']
            kw = {} if e['data'] is None else {'data': dec(e['data']['v'])}
            raise U.BY_NAME[e['cls']](int(e['code']), e['message'], **kw)
        name_, _, marker = body['tag'].partition(':')
        raise S.EXC_TYPES[name_](marker)

    if coroutine:
        async def f(a):
            log_exec(a)
            for _ in range(k):
                await point(a)
            return outcome(a)
    else:
        def f(a):
            log_exec(a)
            return outcome(a)
    return f


def make_plain_mw(idx):
    """a middleware that is a plain callable returning the rest of the chain's awaitable: its synchronous part runs when the
    chain is *called*, which in sequential mode must not happen before the previous element has been served"""
    def mw(request, context, handler):
        i = elem_of(request)
        ALOG.append({'i': str(i), 'ev': {'e': 'enter', 'i': str(idx), 'm': request.method, 'ctx': S.ctx_label(context)}})

        async def rest():
            r = await handler(request, context)
            ALOG.append({'i': str(i), 'ev': {'e': 'leave', 'i': str(idx)}})
            return r
        return rest()
    return mw


def make_mw(idx, k):
    async def mw(request, context, handler):
        i = elem_of(request)
        ALOG.append({'i': str(i), 'ev': {'e': 'enter', 'i': str(idx), 'm': request.method, 'ctx': S.ctx_label(context)}})
        for _ in range(k):
            await point(i)
        r = await handler(request, context)
        ALOG.append({'i': str(i), 'ev': {'e': 'leave', 'i': str(idx)}})
        return r
    return mw


def make_handler(key, idx, k):
    async def h(request, context, error):
        i = elem_of(request)
        ALOG.append({'i': str(i), 'ev': {'e': 'handler', 'key': None if key is None else str(key), 'i': str(idx), 'code': str(error.code)}})
        for _ in range(k):
            await point(i)
        return error
    return h


def build(c):
    cfg, susp = c['cfg'], c['susp']
    body_k = dict((n, int(k)) for n, k in susp['body'])
    # `concurrent_as`: the flag given as another truthy value (an integer): still just "concurrent"
    kwargs = {'concurrent_batch': c.get('concurrent_as', c['concurrent'])}
    if cfg.get('max_batch_size') is not None:
        kwargs['max_batch_size'] = int(cfg['max_batch_size'])
    if cfg.get('middlewares'):
        kwargs['middlewares'] = [make_plain_mw(i) if (c.get('plain_mw') and i == 0 and not int(susp['mw0'])) else
                                 make_mw(i, int(susp['mw0']) if i == 0 else 0) for i, _ in enumerate(cfg['middlewares'])]
    if cfg.get('handlers'):
        kwargs['error_handlers'] = {
            (None if e['key'] is None else int(e['key'])): [make_handler(None if e['key'] is None else int(e['key']), i,
                                                                           int(susp['handler']) if e['key'] is None else 0)
                                                              for i, _ in enumerate(e['hs'])]
            for e in cfg['handlers']}
    via = c.get('via')
    if via in ('aiohttp_app', 'aiohttp_endpoint'):
        # the dispatcher the aiohttp integration builds from the same arguments: the application's own one, or the one of an
        # additional endpoint created on an application that was itself configured the other way round
        from pjrpc.server.integration import aiohttp as ai
        if via == 'aiohttp_app':
            d = ai.Application('/api', **kwargs).dispatcher
        else:
            other = {'concurrent_batch': not c['concurrent']}
            try:
                app = ai.Application('/api', **other)
            except TypeError:
                app = ai.Application('/api')
            d = app.add_endpoint('/sub', **kwargs)
    else:
        d = pjrpc.server.AsyncDispatcher(**kwargs)
    for m in cfg['methods']:
        if m.get('view'):
            d.registry.add_methods(pjrpc.server.dispatcher.ViewMethod(make_view(m, body_k.get(m['name'], 0)), 'vm', m['name'], None))
        else:
            d.add(make_method(m, body_k.get(m['name'], 0), m.get('coroutine', True)), m['name'])
    return d


async def settle():
    """let every runnable task run until all of them are blocked on harness futures (or finished)"""
    quiet = 0
    last = (-1, -1)
    for _ in range(200):
        await asyncio.sleep(0)
        state = (len(ALOG), len(PENDING))
        if state == last:
            quiet += 1
            if quiet >= 4:
                return
        else:
            quiet = 0
            last = state


async def drive(d, text, schedule, concurrent, n):
    task = asyncio.ensure_future(d.dispatch(text, context=S.next_ctx()))
    await settle()
    effective = []
    for idx in schedule:
        if task.done():
            break
        fut = PENDING.pop(idx, None)
        effective.append(idx)
        if fut is not None:
            fut.set_result(None)
            await settle()
    guard = 0
    while not task.done():
        guard += 1
        if guard > 100:
            task.cancel()
            raise core.InfraError('async schedule driver did not terminate')
        if PENDING:
            idx = min(PENDING)
            PENDING.pop(idx).set_result(None)
            effective.append(idx)
        await settle()
    try:
        r = task.result()
    except Exception as e:  # noqa
        r = e
    return r, effective


def run_impl(c):
    del ALOG[:]
    del COMPLETED[:]
    PENDING.clear()
    d = build(c)
    lr = c['load']
    n = len(dec(lr['j'])) if lr['k'] == 'ok' and lr['j'][0] == 'a' else 1
    r, effective = S.loop().run_until_complete(drive(d, c['text'], c['schedule'], c['concurrent'], n))
    out = S.observe(r, [])
    out.pop('events')
    out['log'] = list(ALOG)
    # at the moment dispatch returned: the elements whose method started, and those whose method ran to its end
    out['started'] = sorted(x['i'] for x in ALOG if x.get('ev', {}).get('e') == 'exec')
    out['completed'] = sorted(COMPLETED)
    out['effective_schedule'] = (list(range(n)) + effective) if c['concurrent'] else []
    # element-wise reference on a fresh dispatcher, no suspension, for the oracle
    if c.get('elementwise') and lr['k'] == 'ok' and lr['j'][0] == 'a':
        refs = []
        for e in dec(lr['j']):
            del ALOG[:]
            PENDING.clear()
            c1 = dict(c)
            c1['susp'] = {'body': [], 'mw0': '0', 'handler': '0'}
            d1 = build(c1)
            r1, _ = S.loop().run_until_complete(drive(d1, json.dumps(e), [], True, 1))
            o1 = S.observe(r1, [])
            o1['log'] = list(ALOG)
            refs.append(o1)
        out['elements'] = refs
    return out


def model_case(c, impl_out):
    m = dict(c)
    m['schedule'] = [str(i) for i in impl_out['effective_schedule']]
    m['susp'] = {'body': [[n, str(k)] for n, k in c['susp']['body']], 'mw0': str(c['susp']['mw0']), 'handler': str(c['susp']['handler'])}
    return m


# ------------------------------------------------------------------------------------------------
# generation
# ------------------------------------------------------------------------------------------------

def methods(fail_k=None):
    P, M = D.P, D.M
    return [
        M('echo', [P('a')], D.ECHO),
        M('slow', [P('a')], D.ECHO),
        M('plain', [P('a')], D.ECHO, coroutine=False),
        M('vslow', [P('a')], D.ECHO, view=True),
        M('fail_rpc', [P('a')], D.err_body(data={'d': 1})),
        M('fail_exc', [P('a')], D.exc_body()),
    ]


ELEMS = [('echo', True), ('echo', False), ('slow', True), ('slow', False), ('vslow', True), ('plain', True), ('fail_rpc', True), ('fail_rpc', False),
         ('fail_exc', True), ('nosuch', True), ('nobind', True)]


def element(kind, call, i):
    if kind == 'nobind':
        e = {'jsonrpc': '2.0', 'method': 'echo', 'params': [i, 'surplus']}
    else:
        e = {'jsonrpc': '2.0', 'method': kind, 'params': [i]}
    if call:
        # ids incl. the falsy ones (0 and '' are ids like any other)
        e['id'] = {0: 0, 1: ''}.get(i, f'id{i}' if i % 2 else i + 100)
    return e


def interleavings(counts):
    """all distinct orders of releasing counts[i] suspension points of element i"""
    items = [i for i, k in enumerate(counts) for _ in range(k)]
    seen = set()
    for p in itertools.permutations(items):
        if p not in seen:
            seen.add(p)
            yield list(p)


def susp_count(elem, susp, cfg):
    """how many times the handler of this element suspends"""
    kind = elem['method']
    body_k = dict(susp['body'])
    k = 0
    if cfg.get('middlewares'):
        k += susp['mw0']
    runs_body = kind in ('echo', 'slow', 'vslow', 'fail_rpc', 'fail_exc') and len(elem.get('params', [])) == 1
    if runs_body:
        k += body_k.get(kind, 0)
    fails = kind in ('fail_rpc', 'fail_exc', 'nosuch') or len(elem.get('params', [])) != 1
    if fails and cfg.get('handlers'):
        k += susp['handler'] * sum(len(e['hs']) for e in cfg['handlers'] if e['key'] is None)
    return k


def generate(tier, rng):
    thorough = tier == 'thorough'
    configs = []
    for nmw in (0, 1, 2):
        for table in (None, [{'key': None, 'hs': [{'k': 'ident'}]}],
                      [{'key': None, 'hs': [{'k': 'ident'}]}, {'key': '-32000', 'hs': [{'k': 'ident'}]}, {'key': '2001', 'hs': [{'k': 'ident'}, {'k': 'ident'}]},
                       {'key': '-32601', 'hs': [{'k': 'ident'}]}]):
            configs.append(D.cfg(methods=methods(), middlewares=[{'k': 'pass'}] * nmw, handlers=table))
    susps = [
        {'body': [['echo', 1], ['slow', 2], ['vslow', 1], ['fail_rpc', 1], ['fail_exc', 1]], 'mw0': 0, 'handler': 0},
        {'body': [['echo', 2], ['slow', 1], ['vslow', 2], ['fail_rpc', 0], ['fail_exc', 2]], 'mw0': 0, 'handler': 0},
        {'body': [['echo', 1], ['slow', 0], ['vslow', 1]], 'mw0': 1, 'handler': 0},
        {'body': [['echo', 0], ['slow', 1], ['vslow', 1]], 'mw0': 0, 'handler': 1},
        {'body': [['echo', 1], ['fail_rpc', 1]], 'mw0': 1, 'handler': 1},
        {'body': [], 'mw0': 0, 'handler': 0},
    ]
    maxn = 4 if thorough else 3
    budget = 60000 if thorough else 4500
    produced = 0
    combos = []
    for n in range(1, maxn + 1):
        for combo in itertools.product(ELEMS, repeat=n):
            combos.append(combo)
    rng.shuffle(combos)
    # always include the 3-element all-interleavings block first
    combos = [c for c in combos if len(c) <= 2] + [c for c in combos if len(c) > 2]
    for combo in combos:
        if produced >= budget:
            break
        elems = [element(k, call, i) for i, (k, call) in enumerate(combo)]
        text = json.dumps(elems)
        picks = [(cfg, susp) for cfg in configs for susp in susps]
        rng.shuffle(picks)
        for cfg, susp in picks[: (6 if thorough else 3)]:
            counts = [min(2, susp_count(e, susp, cfg)) for e in elems]
            scheds = list(interleavings(counts))
            if len(scheds) > (40 if thorough else 12):
                scheds = rng.sample(scheds, 40 if thorough else 12)
            for sched in scheds:
                for concurrent in (True, False):
                    if not concurrent and sched is not scheds[0]:
                        continue
                    c = D.case(text, cfg, elementwise=True)
                    c['suite'] = NAME
                    c['susp'] = susp
                    c['concurrent'] = concurrent
                    c['schedule'] = sched
                    if cfg.get('middlewares') and not concurrent and rng.random() < 0.6:
                        # sequential mode, outermost middleware a plain callable (not an `async def`): its synchronous part runs
                        # when the element's chain is called, i.e. only after the previous element has been served
                        c['plain_mw'] = True
                    produced += 1
                    yield c
                    if sched is scheds[0] and len(elems) >= 2:
                        for via in ('aiohttp_app', 'aiohttp_endpoint'):
                            yield dict(c, via=via)
                    if concurrent and len(elems) >= 3 and (sched is scheds[0] or sched is scheds[-1]):
                        for n in (2, len(elems) - 1, 1):
                            yield dict(c, concurrent_as=n)
    # rejected batches and single requests under the scheduler
    for text in ('[]', '[1]', json.dumps([element('echo', True, 0), element('echo', True, 1) | {'id': 0}]),
                 json.dumps(element('slow', True, 0)), json.dumps(element('fail_exc', False, 0))):
        c = D.case(text, configs[0])
        c['suite'] = NAME
        c['susp'] = susps[0]
        c['concurrent'] = True
        c['schedule'] = []
        c['single_or_rejected'] = True
        yield c


# ------------------------------------------------------------------------------------------------
# projections, labels, oracle
# ------------------------------------------------------------------------------------------------

def relevant(prop, c):
    if prop == 'C07':
        # C07 "notifications ... run every method once": batches with a notification, served under suspension
        return '"id"' not in c['text'] or any('id' not in e for e in (dec(c['load']['j']) if c['load']['k'] == 'ok' and c['load']['j'][0] == 'a' else [])
                                              if isinstance(e, dict))
    return prop in ('C10', 'C11', 'C02')


def project(prop, c, out):
    if prop not in ('C10', 'C11', 'C02', 'C07'):
        return None
    if out.get('incomplete'):
        return {'incomplete': True}
    r = out['result']
    if prop == 'C07':
        return {'k': r['k'], 'all_completed': out.get('started', []) == out.get('completed', []),
                'exec': sorted(json.dumps(x, sort_keys=True) for x in out['log'] if x.get('ev', {}).get('e') == 'exec')}
    if prop == 'C02':
        # C02 under suspension: which ids are answered, in which order, and which methods ran how often
        doc = D._decoded(out) if r['k'] == 'reply' else None
        ids = [enc(x.get('id')) if isinstance(x, dict) else None for x in D.responses_of(doc)] if doc is not None else None
        return {'k': r['k'], 'array': isinstance(doc, list), 'ids': ids,
                'exec': sorted(json.dumps(x, sort_keys=True) for x in out['log'] if x.get('ev', {}).get('e') == 'exec')}
    log = out['log']
    if c.get('single_or_rejected'):
        # a single request has no batch scheduling: compare the result and the per-element events only
        log = [x for x in log if 'ev' in x]
    return {'result': {k: r.get(k) for k in ('k', 'doc', 'codes', 'exc')}, 'log': log,
            # every method that started has run to its end when dispatch returns (the model has no other behaviour)
            'all_completed': out.get('started', []) == out.get('completed', [])}


def label(c, mo):
    if mo.get('incomplete'):
        return 'async/incomplete'
    n = len(dec(c['load']['j'])) if c['load']['k'] == 'ok' and c['load']['j'][0] == 'a' else 1
    susp = sum(1 for x in mo['log'] if x.get('suspend'))
    return f'async/{"conc" if c["concurrent"] else "seq"}/n={n}/susp={min(susp, 6)}/{mo["result"]["k"]}'


def oracle(prop, c, out):
    f = []
    if prop not in ('C10', 'C02', 'C11', 'C07') or 'elements' not in out:
        return f

    def fail(key, what, expected=None):
        f.append(Finding(prop, key, what, c, {'result': out['result'], 'log': out['log'], 'schedule': out['effective_schedule']}, expected))
    refs = out['elements']
    if out['started'] != out['completed'] and prop in ('C10', 'C02', 'C07'):
        fail('execution-incomplete', f'when dispatch returned the methods of elements {out["started"]} had started but only '
                                     f'{out["completed"]} had run to their end (every method runs exactly once, to completion)')
    if prop == 'C07':
        return f
    want_docs = [D._decoded(x) for x in refs if x['result']['k'] == 'reply']
    r = out['result']
    if r['k'] == 'raised':
        fail(f'raised:{r["exc"]}', 'the asynchronous dispatcher raised')
        return f
    if not want_docs:
        if r['k'] != 'nothing':
            fail('all-silent-answered', 'a batch of silent elements was answered')
    else:
        doc = D._decoded(out) if r['k'] == 'reply' else None
        if enc(doc) != enc(want_docs):
            fail('mixed-up-responses' if prop != 'C11' else 'twin-diff:async-batch-order',
                 'the response array is not the per-element responses in request order, each with its own id'
                 + (' (which is what the synchronous dispatcher answers)' if prop == 'C11' else ''), enc(want_docs))
    if prop == 'C11':
        return f
    # every method ran exactly once (per element: same events as alone)
    for i, ref in enumerate(refs):
        mine = [x['ev'] for x in out['log'] if x['i'] == str(i) and 'ev' in x]
        alone = [x['ev'] for x in ref['log'] if 'ev' in x]
        if prop == 'C02':
            mine = [e for e in mine if e['e'] == 'exec']
            alone = [e for e in alone if e['e'] == 'exec']
        if mine != alone:
            fail('element-events', f'element {i} did not run exactly as it does alone (each method / middleware / handler once)', alone)
            break
    if not c['concurrent'] and prop == 'C10':
        # no two elements in flight at the same time, request order
        firsts, lasts = {}, {}
        for pos, x in enumerate(out['log']):
            firsts.setdefault(x['i'], pos)
            lasts[x['i']] = pos
        order = sorted(firsts, key=lambda k: firsts[k])
        if order != sorted(order, key=int):
            fail('sequential-order', 'sequential mode: elements did not start in request order')
        for a, b in zip(order, order[1:]):
            if lasts[a] > firsts[b]:
                fail('sequential-overlap', 'sequential mode: two elements were in flight at the same time')
                break
    return f
