"""
Suite `msg` (C05, C06): pjrpc.common.v20 / exceptions — constructors, to_json, from_json, batches.
"""
from __future__ import annotations

import itertools
import json

from .. import core
from ..core import enc, dec, Finding
from .. import userclasses as U

import pjrpc
from pjrpc.common import UNSET
from pjrpc.common import exceptions as E

NAME = 'msg'
ABSENT = object()

REG = U.registry_json()


# ------------------------------------------------------------------------------------------------
# alphabets
# ------------------------------------------------------------------------------------------------

JSONRPC_A = [ABSENT, '2.0', '1.0', '2', 2.0, 2, None, True, ['2.0'], {}]
ID_A = [ABSENT, None, 0, 1, -1, 2 ** 64, '', '1', 'x', 1.5, 1.0, True, False, [], {}, [1], {'a': 1}]
METHOD_A = [ABSENT, 'm', '', 'a.b', 1, None, [], {}, True, 1.5]
PARAMS_A = [ABSENT, [], {}, [1], {'a': 1}, [[], {}], None, 1, 0, 's', '', True, False, 1.5]
RESULT_A = [ABSENT, None, 0, '', [], {}, False, 1, 'r', [1], {'a': 1}, 1.5, True, 0.0]
VALID_ERRS = [
    {'code': 1, 'message': 'm'}, {'code': 0, 'message': ''}, {'code': -32601, 'message': 'Method not found'},
    {'code': 2001, 'message': 'x', 'data': None}, {'code': 2002, 'message': 'y', 'data': {'k': [1, 2]}},
    {'code': -5, 'message': '', 'data': 0}, {'code': 2 ** 40, 'message': 'big', 'extra': 1},
]
INVALID_ERRS = [
    {'code': '1', 'message': 'm'}, {'code': 1.0, 'message': 'm'}, {'code': True, 'message': 'm'},
    {'message': 'm'}, {'code': 1}, {'code': 1, 'message': 1}, {'code': 1, 'message': None}, {'code': None, 'message': 'm'},
    {}, {'code': 1.5, 'message': 'm'},
]
ERROR_A = [ABSENT, None, 0, '', [], False, 1, 'e'] + VALID_ERRS + INVALID_ERRS
CODE_A = [ABSENT, None, 0, 1, -1, -32700, -32600, -32601, -32602, -32603, -32000, -32099, 2001, 2002, -5, 2 ** 40,
          '1', 1.0, 1.5, True, False, [], {}]
MESSAGE_A = [ABSENT, None, '', 'm', 'é\U0001F600', 0, 1, [], {}, True]
DATA_A = [ABSENT, None, 0, '', [], {}, {'a': [1, {'b': None}]}, 'text', 1.5, False]
NON_OBJECTS = [None, True, False, 0, 1, -1, 1.5, '', 's', '{}', [], [1], ['a', {}], 2 ** 70]
EXTRA_A = [ABSENT, 1]

PAYLOADS = [
    None, True, False, 0, 1, -1, 2 ** 63, -2 ** 200, 1.5, -0.0, 1e100, 5e-324, '', 'a', ' \t\n\r"\\/\b\f', '\x00\x1f\x7f',
    'é中\U0001F600\U0010FFFF', [], {}, [[]], [{}], {'': ''}, {'a': {'b': {'c': [1, [2, [3, {'d': None}]]]}}},
    [None, False, 0, '', [], {}], {'k1': 1, 'k2': [1.5, 'x'], 'k3': {'n': None}}, list(range(20)),
]
IDS = [None, 0, 1, -1, 2 ** 70, -2 ** 70, '', '1', 'abc', '0', 'idé\U0001F600', ' ']
METHODS = ['m', '', 'a.b.c', 'rpc.x', 'é', '_private', 'with space']
PARAMS_BUILD = [None, (), [], {}, (1,), [1, 2], {'a': 1}, ({'a': []},), [None], {'k': None}, [[], {}], {'': 0}]


def _obj(**members):
    return {k: v for k, v in members.items() if v is not ABSENT}


def _case(op, **kw):
    c = {'suite': NAME, 'op': op}
    c.update(kw)
    return c


def _cls_json(cls):
    return U.errclass_json(cls)


def _req_spec(method, params, id):
    if params is None:
        p = {'k': 'none'}
    elif isinstance(params, (list, tuple)):
        p = {'k': 'pos', 'v': enc(list(params))}
    else:
        p = {'k': 'named', 'v': enc(params)}
    return {'method': method, 'params': p, 'id': None if id is None else enc(id), 'tuple': isinstance(params, tuple)}


def _err_spec(cls, code=None, message=None, data=ABSENT):
    return {'ecls': _cls_json(cls), 'code': None if code is None else str(code), 'message': message,
            'data': None if data is ABSENT else {'v': enc(data)}}


def _resp_spec(id, result=ABSENT, error=None):
    return {'id': None if id is None else enc(id), 'result': None if result is ABSENT else {'v': enc(result)},
            'error': error}


# ------------------------------------------------------------------------------------------------
# generation
# ------------------------------------------------------------------------------------------------

def generate(tier, rng):
    thorough = tier == 'thorough'
    # --- C06: full product of per-member alphabets -------------------------------------------
    for jr, id, m, p in itertools.product(JSONRPC_A, ID_A, METHOD_A, PARAMS_A):
        yield _case('req_from_json', j=enc(_obj(jsonrpc=jr, id=id, method=m, params=p)))
    for x in (1, 'z'):
        yield _case('req_from_json', j=enc({'jsonrpc': '2.0', 'method': 'm', 'id': 1, 'extra': x}))
    # payloads nested far deeper than the text codec itself minds: deserialisation looks at the members of a message, never into
    # a payload, so the depth of params / result / error data cannot matter (the model is handed a shallow stand-in)
    for depth in (700,):
        for slot in ('params', 'params-obj'):
            yield dict(_case('req_from_json', j=enc({'jsonrpc': '2.0', 'method': 'm', 'id': 1, 'params': [[]]})), deep=depth, slot=slot)
            yield dict(_case('breq_from_json', j=enc([{'jsonrpc': '2.0', 'method': 'm', 'id': 1, 'params': [[]]}, {'jsonrpc': '2.0', 'method': 'n'}])),
                       deep=depth, slot=slot)
        yield dict(_case('resp_from_json', j=enc({'jsonrpc': '2.0', 'id': 1, 'result': [[]]}), reg=REG, cls=_cls_json(E.JsonRpcError)), deep=depth, slot='result')
        yield dict(_case('resp_from_json', j=enc({'jsonrpc': '2.0', 'id': 1, 'error': {'code': 1, 'message': 'm', 'data': [[]]}}), reg=REG,
                         cls=_cls_json(E.JsonRpcError)), deep=depth, slot='data')
    for v in NON_OBJECTS:
        yield _case('req_from_json', j=enc(v))
        yield _case('err_from_json', j=enc(v), reg=REG, cls=_cls_json(E.JsonRpcError))
        yield _case('resp_from_json', j=enc(v), reg=REG, cls=_cls_json(E.JsonRpcError))
        yield _case('breq_from_json', j=enc(v))
        yield _case('bresp_from_json', j=enc(v), reg=REG, cls=_cls_json(E.JsonRpcError))
    jr_resp = JSONRPC_A if thorough else [ABSENT, '2.0', '1.0', 2.0, None]
    id_resp = ID_A if thorough else [ABSENT, None, 0, 1, '', '1', 1.5, 1.0, True, [], {}]
    for jr, id, r, e in itertools.product(jr_resp, id_resp, RESULT_A, ERROR_A):
        yield _case('resp_from_json', j=enc(_obj(jsonrpc=jr, id=id, result=r, error=e)), reg=REG,
                    cls=_cls_json(E.JsonRpcError))
    for cls in (E.JsonRpcError, U.ClientBaseError, U.UserError2001):
        for c, m, d in itertools.product(CODE_A, MESSAGE_A, DATA_A):
            yield _case('err_from_json', j=enc(_obj(code=c, message=m, data=d)), reg=REG, cls=_cls_json(cls))
        for e in VALID_ERRS[:4] + INVALID_ERRS[:3]:
            yield _case('resp_from_json', j=enc({'jsonrpc': '2.0', 'id': 1, 'error': e}), reg=REG, cls=_cls_json(cls))
    # batches of up to 3 elements over a reduced element alphabet
    req_elems = [
        {'jsonrpc': '2.0', 'method': 'a', 'id': 1}, {'jsonrpc': '2.0', 'method': 'b', 'id': '1'},
        {'jsonrpc': '2.0', 'method': 'c'}, {'jsonrpc': '2.0', 'method': 'd', 'id': None},
        {'jsonrpc': '2.0', 'method': 'e', 'id': 2, 'params': [1]}, {'jsonrpc': '2.0', 'method': 'f', 'id': 1, 'params': {'x': 1}},
        {'jsonrpc': '1.0', 'method': 'g', 'id': 3}, {'method': 'h', 'id': 4}, {'jsonrpc': '2.0', 'method': 1, 'id': 5},
        {'jsonrpc': '2.0', 'method': 'i', 'id': True}, {'jsonrpc': '2.0', 'method': 'j', 'id': 1.0}, 1, None, [], 'x',
        {'jsonrpc': '2.0', 'method': 'k', 'id': 0}, {'jsonrpc': '2.0', 'method': 'l', 'id': ''},
    ]
    resp_elems = [
        {'jsonrpc': '2.0', 'id': 1, 'result': 1}, {'jsonrpc': '2.0', 'id': '1', 'result': None},
        {'jsonrpc': '2.0', 'id': None, 'result': 0}, {'jsonrpc': '2.0', 'id': 2, 'error': {'code': 2001, 'message': 'e'}},
        {'jsonrpc': '2.0', 'id': 1, 'error': {'code': 1, 'message': ''}}, {'jsonrpc': '2.0', 'id': 3},
        {'jsonrpc': '2.0', 'id': 4, 'result': 1, 'error': {'code': 1, 'message': 'm'}}, {'jsonrpc': '2.0', 'id': True, 'result': 1},
        {'jsonrpc': '2.0', 'result': 5}, {'id': 6, 'result': 1}, 1, None, [], {'jsonrpc': '2.0', 'id': 0, 'result': []},
        {'jsonrpc': '2.0', 'id': 7, 'error': {'code': '1', 'message': 'm'}},
        {'jsonrpc': '2.0', 'id': None, 'error': {'code': -32600, 'message': 'Invalid Request'}},     # an *element* error without an id
    ]
    maxlen = 3
    for n in range(0, maxlen + 1):
        for combo in itertools.product(req_elems, repeat=n):
            if n == 3 and not thorough and rng.random() > 0.25:
                continue
            yield _case('breq_from_json', j=enc(list(combo)))
        for combo in itertools.product(resp_elems, repeat=n):
            if n == 3 and not thorough and rng.random() > 0.4:
                continue
            yield _case('bresp_from_json', j=enc(list(combo)), reg=REG, cls=_cls_json(E.JsonRpcError))
    # batch-level error objects / dict inputs for a batch response
    for jr, id, e, r in itertools.product([ABSENT, '2.0', '1.0'], [ABSENT, None, 0, 1, 'x'], ERROR_A, [ABSENT, None, 1]):
        for cls in (E.JsonRpcError, U.ClientBaseError):
            yield _case('bresp_from_json', j=enc(_obj(jsonrpc=jr, id=id, error=e, result=r)), reg=REG, cls=_cls_json(cls))
    # --- C06: append / extend histories --------------------------------------------------------
    id_alpha = [1, 2, '1', None]
    hist_len = 5 if thorough else 4

    def histories(budget):
        # sequences of ops consuming at most `budget` ids in total
        yield []
        if budget == 0:
            return
        for i in id_alpha:
            for rest in histories(budget - 1):
                yield [('append', [i])] + rest
        for k in (2, 3):
            if k <= budget:
                for ids in itertools.product(id_alpha, repeat=k):
                    for rest in histories(budget - k):
                        yield [('extend', list(ids))] + rest
        yield [('extend', [])]

    n = 0
    for h in histories(hist_len):
        n += 1
        if not thorough and len(h) >= 3 and rng.random() > 0.5:
            continue
        for strict in (True, False):
            ops = []
            for k, ids in h:
                if k == 'append':
                    ops.append({'k': 'append', 'r': _req_spec(f'm{len(ops)}', None, ids[0])})
                else:
                    ops.append({'k': 'extend', 'rs': [_req_spec(f'm{len(ops)}_{j}', None, i) for j, i in enumerate(ids)]})
            yield _case('breq_hist', strict=strict, ops=ops)
            rops = []
            for k, ids in h:
                if k == 'append':
                    rops.append({'k': 'append', 'r': _hist_resp(ids[0], len(rops))})
                else:
                    rops.append({'k': 'extend', 'rs': [_hist_resp(i, len(rops) * 10 + j) for j, i in enumerate(ids)]})
            yield _case('bresp_hist', strict=strict, ops=rops)
    # --- C05: round trips ------------------------------------------------------------------------
    for m, p, i in itertools.product(METHODS[:4] if not thorough else METHODS, PARAMS_BUILD, IDS):
        yield _case('req_build', req=_req_spec(m, p, i))
    for pl in PAYLOADS:
        for i in (1, None, 'x'):
            yield _case('req_build', req=_req_spec('m', [pl], i))
            yield _case('req_build', req=_req_spec('m', {'arg': pl}, i))
    # errors: every class x explicit / default code and message x data
    for cls in U.ALL:
        for code in (None, 0, 1, -1, 2001, 2002, -32601, 2 ** 40, -5, -32050, -32001, -32099, -32100):
            for msg in (None, '', 'msg', 'é\U0001F600', 'Method not found.'):
                for data in ([ABSENT, None, 0, {'a': [1]}] if not thorough else [ABSENT] + PAYLOADS):
                    for ecls in (E.JsonRpcError, U.ClientBaseError):
                        yield _case('err_build', err=_err_spec(cls, code, msg, data), reg=REG, cls=_cls_json(ecls))
    for pl in PAYLOADS:
        yield _case('err_build', err=_err_spec(E.JsonRpcError, 7, 'm', pl), reg=REG, cls=_cls_json(E.JsonRpcError))
    # responses
    for i in IDS:
        for res in [ABSENT, None, 0, '', [], {}, False, 1, {'a': 1}]:
            for err in (None, _err_spec(E.JsonRpcError, 1, 'm'), _err_spec(E.MethodNotFoundError), _err_spec(U.UserErrorZero, data=None),
                        _err_spec(E.InvalidRequestError), _err_spec(E.ParseError, data='x'), _err_spec(E.JsonRpcError, -32600, 'plain class, reserved code'),
                        _err_spec(E.JsonRpcError, 2002, '', {'d': 1})):
                for ecls in (E.JsonRpcError, U.ClientBaseError):
                    yield _case('resp_build', resp=_resp_spec(i, res, err), reg=REG, cls=_cls_json(ecls))
    for pl in PAYLOADS:
        yield _case('resp_build', resp=_resp_spec(1, pl), reg=REG, cls=_cls_json(E.JsonRpcError))
    # batches
    breq_elems = [_req_spec('a', None, 1), _req_spec('b', [1], 2), _req_spec('c', {'x': None}, '1'), _req_spec('n', None, None),
                  _req_spec('d', (), 1), _req_spec('e', [[]], 0), _req_spec('f', None, '')]
    for n in range(0, 4 if not thorough else 5):
        for combo in itertools.product(breq_elems, repeat=n):
            if n >= 3 and not thorough and rng.random() > 0.3:
                continue
            if n >= 4 and rng.random() > 0.15:
                continue
            yield _case('breq_build', reqs=list(combo))
    bresp_elems = [_resp_spec(1, 1), _resp_spec(2, None), _resp_spec('1', error=_err_spec(U.UserError2001)), _resp_spec(None, 0),
                   _resp_spec(None, error=_err_spec(E.InvalidRequestError)),
                   _resp_spec(1, error=_err_spec(E.JsonRpcError, 0, '')), _resp_spec(0, [])]
    for n in range(0, 4 if not thorough else 5):
        for combo in itertools.product(bresp_elems, repeat=n):
            if n >= 3 and not thorough and rng.random() > 0.3:
                continue
            if n >= 4 and rng.random() > 0.15:
                continue
            yield _case('bresp_build', resps=list(combo), error=None, reg=REG, cls=_cls_json(E.JsonRpcError))
    # the supplied base class must reach the *elements* of a batch (unregistered codes deserialise to it)
    for n in (1, 2, 3):
        for combo in itertools.product(bresp_elems + [_resp_spec(5, error=_err_spec(E.JsonRpcError, 777, 'unregistered'))], repeat=n):
            if n >= 2 and not thorough and rng.random() > (0.5 if n == 2 else 0.1):
                continue
            for ecls in (U.ClientBaseError, U.UserError2001):
                yield _case('bresp_build', resps=list(combo), error=None, reg=REG, cls=_cls_json(ecls))
    for n in (1, 2):
        for combo in itertools.product(resp_elems, repeat=n):
            if n == 2 and not thorough and rng.random() > 0.5:
                continue
            yield _case('bresp_from_json', j=enc(list(combo)), reg=REG, cls=_cls_json(U.ClientBaseError))
    for err in (_err_spec(E.InvalidRequestError, data='x'), _err_spec(U.UserError2002, data=None), _err_spec(E.JsonRpcError, 5, 'five'),
                _err_spec(E.JsonRpcError, 0, '')):
        for ecls in (E.JsonRpcError, U.ClientBaseError):
            yield _case('bresp_build', resps=[], error=err, reg=REG, cls=_cls_json(ecls))
    # seeded random payloads
    for _ in range(3000 if thorough else 300):
        pl = random_json(rng, 4)
        k = rng.randrange(4)
        if k == 0:
            yield _case('req_build', req=_req_spec('m', [pl], rng.choice(IDS)))
        elif k == 1:
            yield _case('resp_build', resp=_resp_spec(rng.choice(IDS), pl), reg=REG, cls=_cls_json(E.JsonRpcError))
        elif k == 2:
            yield _case('err_build', err=_err_spec(E.JsonRpcError, rng.randrange(-40000, 40000), 'm', pl), reg=REG,
                        cls=_cls_json(E.JsonRpcError))
        else:
            yield _case('req_from_json', j=enc(pl))


def _hist_resp(id, n):
    return {'id': None if id is None else enc(id), 'result': {'v': enc(n)}, 'error': None}


def random_json(rng, depth):
    k = rng.randrange(9 if depth > 0 else 6)
    if k == 0:
        return None
    if k == 1:
        return rng.random() < 0.5
    if k == 2:
        return rng.choice([0, 1, -1, rng.randrange(-10 ** 6, 10 ** 6), rng.randrange(-2 ** 100, 2 ** 100)])
    if k == 3:
        return rng.choice([0.0, -0.0, 1.5, rng.uniform(-1e6, 1e6), rng.random() * 10 ** rng.randrange(-300, 300)])
    if k in (4, 5):
        return ''.join(rng.choice('ab"\\\n\x01 é中\U0001F600{}[]:,') for _ in range(rng.randrange(6)))
    if k in (6, 7):
        return [random_json(rng, depth - 1) for _ in range(rng.randrange(4))]
    return {''.join(rng.choice('abc_') for _ in range(rng.randrange(3))): random_json(rng, depth - 1) for _ in range(rng.randrange(4))}


# ------------------------------------------------------------------------------------------------
# implementation adapter
# ------------------------------------------------------------------------------------------------

def _cls_of(j):
    return U.BY_NAME[j['name']]


def _enc_id(i):
    return None if i is None else enc(i)


def _enc_params(p):
    if p is None:
        return {'k': 'none'}
    if isinstance(p, (list, tuple)):
        return {'k': 'pos', 'v': enc(list(p))}
    if isinstance(p, dict):
        return {'k': 'named', 'v': enc(p)}
    return {'k': 'other', 'v': enc(p)}


def enc_request(r):
    return {'method': r.method, 'params': _enc_params(r.params), 'id': _enc_id(r.id)}


def enc_error(e):
    return {'code': str(e.code), 'message': e.message, 'data': None if e.data is UNSET else {'v': enc(e.data)},
            'cls': type(e).__name__}


def enc_response(r):
    return {'id': _enc_id(r.id), 'result': None if r._result is UNSET else {'v': enc(r._result)},
            'error': None if r._error is UNSET else {'v': enc_error(r._error)}}


def enc_breq(b):
    return {'requests': [enc_request(r) for r in b], 'ids': [enc(i) for i in b._ids]}


def enc_bresp(b):
    return {'responses': [enc_response(r) for r in b], 'ids': [enc(i) for i in b._ids],
            'error': None if b.error is UNSET else {'v': enc_error(b.error)}}


def _py(f, encoder):
    try:
        return {'ok': encoder(f())}
    except BaseException as e:  # noqa: the exception type is the observation
        return {'raised': core.exc_name(e)}


def _build_req(spec):
    p = spec['params']
    params = None if p['k'] == 'none' else (tuple(dec(p['v'])) if p['k'] == 'pos' and spec.get('tuple') else dec(p['v']))
    return pjrpc.Request(spec['method'], params, None if spec['id'] is None else dec(spec['id']))


def _build_err(spec):
    cls = _cls_of(spec['ecls'])
    kw = {}
    if spec['data'] is not None:
        kw['data'] = dec(spec['data']['v'])
    return cls(None if spec['code'] is None else int(spec['code']), spec['message'], **kw)


def _build_resp(spec):
    kw = {}
    if spec['result'] is not None:
        kw['result'] = dec(spec['result']['v'])
    if spec['error'] is not None:
        kw['error'] = _build_err(spec['error'])
    return pjrpc.Response(None if spec['id'] is None else dec(spec['id']), **kw)


def _resp_from_spec_plain(spec):
    # responses inside histories are plain (id + result)
    return pjrpc.Response(None if spec['id'] is None else dec(spec['id']), result=dec(spec['result']['v']))


def _roundtrip(obj, from_json, encoder):
    """to_json -> text (both encoders) -> loads -> from_json -> to_json"""
    wire = obj.to_json()
    t1 = json.dumps(wire)
    t2 = json.dumps(obj, cls=pjrpc.JSONEncoder)
    decoded = json.loads(t2)
    out = {'built': 'ok', 'wire': enc(decoded)}
    out['text_equal'] = (t1 == t2)
    out['codec_ok'] = (json.loads(t1) == decoded)
    try:
        back = from_json(decoded)
        out['back'] = {'ok': encoder(back)}
        out['wire2'] = enc(json.loads(json.dumps(back, cls=pjrpc.JSONEncoder)))
    except BaseException as e:  # noqa
        out['back'] = {'raised': core.exc_name(e)}
        out['wire2'] = None
        return out
    # deserialised messages own their payload: changing one in place (what a middleware may do with the parameters it was
    # handed) must not change what the same text deserialises to afterwards
    try:
        _disturb(back)
        again = from_json(json.loads(t2))
        out['independent'] = encoder(again) == out['back']['ok']
        if not out['independent']:
            out['after_disturbance'] = encoder(again)
    except BaseException as e:  # noqa
        out['independent'] = False
        out['after_disturbance'] = core.exc_name(e)
    return out


_SENTINEL = '<injected-in-place>'


def _disturb_value(v):
    if isinstance(v, list):
        v.append(_SENTINEL)
    elif isinstance(v, dict):
        v[_SENTINEL] = 1


def _disturb(m):
    if isinstance(m, (pjrpc.BatchRequest, pjrpc.BatchResponse)):
        for x in m:
            _disturb(x)
        return
    if isinstance(m, pjrpc.Request):
        _disturb_value(m.params)
    elif isinstance(m, pjrpc.Response):
        if m.is_success:
            _disturb_value(m.result)
        elif m.error.data is not UNSET:
            _disturb_value(m.error.data)
    elif isinstance(m, E.JsonRpcError) and m.data is not UNSET:
        _disturb_value(m.data)


def _nested(depth):
    v = []
    for _ in range(depth):
        v = [v]
    return v


def _deepen(c):
    doc = dec(c['j'])
    deep = _nested(c['deep'])
    target = doc[0] if isinstance(doc, list) else doc
    if c['slot'] == 'params':
        target['params'] = [deep]
    elif c['slot'] == 'params-obj':
        target['params'] = {'a': deep}
    elif c['slot'] == 'result':
        target['result'] = deep
    else:
        target['error']['data'] = deep
    return doc


def run_impl(c):
    op = c['op']
    cls = _cls_of(c['cls']) if c.get('cls') else E.JsonRpcError
    if c.get('deep'):
        doc = _deepen(c)
        f = {'req_from_json': pjrpc.Request.from_json, 'breq_from_json': pjrpc.BatchRequest.from_json,
             'resp_from_json': lambda j: pjrpc.Response.from_json(j, error_cls=cls)}[op]
        return _py(lambda: f(doc), lambda m: '<deep>')
    if op == 'req_from_json':
        return _py(lambda: pjrpc.Request.from_json(dec(c['j'])), enc_request)
    if op == 'resp_from_json':
        return _py(lambda: pjrpc.Response.from_json(dec(c['j']), error_cls=cls), enc_response)
    if op == 'err_from_json':
        return _py(lambda: cls.from_json(dec(c['j'])), enc_error)
    if op == 'breq_from_json':
        return _py(lambda: pjrpc.BatchRequest.from_json(dec(c['j'])), enc_breq)
    if op == 'bresp_from_json':
        return _py(lambda: pjrpc.BatchResponse.from_json(dec(c['j']), error_cls=cls), enc_bresp)
    if op == 'req_build':
        return _roundtrip(_build_req(c['req']), pjrpc.Request.from_json, enc_request)
    if op == 'err_build':
        try:
            e = _build_err(c['err'])
        except BaseException as ex:  # noqa
            return {'built': core.exc_name(ex)}
        out = _roundtrip(e, cls.from_json, enc_error)
        out['self'] = enc_error(e)
        return out
    if op == 'resp_build':
        try:
            r = _build_resp(c['resp'])
        except BaseException as ex:  # noqa
            return {'built': core.exc_name(ex)}
        return _roundtrip(r, lambda j: pjrpc.Response.from_json(j, error_cls=cls), enc_response)
    if op == 'breq_build':
        try:
            b = pjrpc.BatchRequest(*[_build_req(s) for s in c['reqs']])
        except BaseException as ex:  # noqa
            return {'built': core.exc_name(ex)}
        out = _roundtrip(b, pjrpc.BatchRequest.from_json, enc_breq)
        out['is_notification'] = b.is_notification
        return out
    if op == 'bresp_build':
        try:
            kw = {}
            if c.get('error') is not None:
                kw['error'] = _build_err(c['error'])
            b = pjrpc.BatchResponse(*[_build_resp(s) for s in c['resps']], **kw)
        except BaseException as ex:  # noqa
            return {'built': core.exc_name(ex)}
        return _roundtrip(b, lambda j: pjrpc.BatchResponse.from_json(j, error_cls=cls), enc_bresp)
    if op in ('breq_hist', 'bresp_hist'):
        req = op == 'breq_hist'
        b = pjrpc.BatchRequest(strict=c['strict']) if req else pjrpc.BatchResponse(strict=c['strict'])
        mk = _build_req if req else _resp_from_spec_plain
        outs = []
        wire_ok = True

        def serialised():
            # the wire form, directly and through the library encoder, is the array of the elements' wire forms - now
            w = b.to_json()
            return w == [m.to_json() for m in b] and json.loads(json.dumps(b, cls=pjrpc.JSONEncoder)) == json.loads(json.dumps(w))
        for o in c['ops']:
            try:
                if o['k'] == 'append':
                    b.append(mk(o['r']))
                else:
                    b.extend([mk(s) for s in o['rs']])
                outs.append('ok')
            except BaseException as ex:  # noqa
                outs.append(core.exc_name(ex))
            try:
                wire_ok = serialised() and wire_ok        # serialised after every operation (sent, grown, sent again)
            except BaseException:  # noqa
                wire_ok = False
        return {'outs': outs, 'final': enc_breq(b) if req else enc_bresp(b), 'wire_follows_elements': wire_ok}
    raise core.InfraError(f'unknown msg op {op}')


# ------------------------------------------------------------------------------------------------
# projections (what each property's correspondence compares) and labels
# ------------------------------------------------------------------------------------------------

def _sort_ids(x):
    """id *sets* are compared as sets"""
    if isinstance(x, dict):
        return {k: (sorted(v, key=json.dumps) if k == 'ids' and isinstance(v, list) else _sort_ids(v)) for k, v in x.items()}
    if isinstance(x, list):
        return [_sort_ids(v) for v in x]
    return x


def _drop_ids(x):
    if isinstance(x, dict):
        return {k: _drop_ids(v) for k, v in x.items() if k != 'ids'}
    if isinstance(x, list):
        return [_drop_ids(v) for v in x]
    return x


C06_OPS = {'req_from_json', 'resp_from_json', 'err_from_json', 'breq_from_json', 'bresp_from_json', 'breq_hist', 'bresp_hist'}
C05_OPS = {'breq_hist', 'bresp_hist', 'req_build', 'err_build', 'resp_build', 'breq_build', 'bresp_build', 'req_from_json', 'resp_from_json',
           'err_from_json', 'breq_from_json', 'bresp_from_json'}


def project(prop, c, out):
    op = c['op']
    if prop == 'C06':
        if op not in C06_OPS:
            return None
        if op.endswith('_hist'):
            return _sort_ids({k: v for k, v in out.items() if k != 'wire_follows_elements'})
        # strict and total: accepted or not, and what is raised
        return {'raised': out['raised']} if 'raised' in out else {'ok': True}
    if prop == 'C05':
        if op not in C05_OPS or c.get('deep'):
            return None
        if op.endswith('_hist'):
            # a batch serialised, grown and serialised again: the wire form follows the elements (the model's toJson is a
            # function of the current elements)
            return {'wire_follows_elements': out.get('wire_follows_elements', True)}
        o = {k: v for k, v in out.items() if k not in ('text_equal', 'codec_ok', 'independent', 'after_disturbance')}
        return _drop_ids(o)            # the id *set* is bookkeeping for C06's duplicate check, not a wire field
    return None


def agree(prop, c, pm, pi):
    """C05 constrains what survives the wire, not what is refused (that is C06): a `*_from_json` input either side
    refuses, and a message only the implementation manages to build (its round trip is then judged by the oracle
    alone), are outside the C05 comparison."""
    if prop != 'C05':
        return None
    if c['op'].endswith('_from_json') and ('raised' in pm or 'raised' in pi):
        return True
    if c['op'].endswith('_build') and pm.get('built') != 'ok' and pi.get('built') == 'ok':
        return True
    return None


def label(c, model_out):
    """branch label for the coverage histogram / distinct_nontrivial"""
    op = c['op']
    if 'raised' in model_out:
        return f'{op}/raised:{model_out["raised"]}'
    if 'built' in model_out:
        b = model_out.get('back')
        if b is None:
            return f'{op}/built:{model_out["built"]}'
        return f'{op}/built:ok/' + ('back-ok' if 'ok' in b else 'back-raised:' + b['raised'])
    if 'outs' in model_out:
        return f'{op}/' + ','.join(sorted(set(model_out['outs'])))
    return f'{op}/ok'


def nontrivial(c, model_out):
    return not label(c, model_out).endswith('raised:DeserializationError') or c['op'] != 'req_from_json' or True


# ------------------------------------------------------------------------------------------------
# oracles: the properties as predicates over observations of the real code (independent of the model)
# ------------------------------------------------------------------------------------------------

def _is_id(v):
    return v is None or (isinstance(v, (int, str)) and not isinstance(v, bool))


def valid_error_shape(e):
    return (isinstance(e, dict) and 'code' in e and isinstance(e['code'], int) and not isinstance(e['code'], bool)
            and 'message' in e and isinstance(e['message'], str))


def valid_request_shape(j):
    return (isinstance(j, dict) and j.get('jsonrpc', ABSENT) == '2.0' and isinstance(j.get('jsonrpc'), str)
            and _is_id(j.get('id')) and isinstance(j.get('method', ABSENT), str)
            and isinstance(j.get('params', []), (list, dict)))


def valid_response_shape(j):
    if not (isinstance(j, dict) and isinstance(j.get('jsonrpc'), str) and j['jsonrpc'] == '2.0' and _is_id(j.get('id'))):
        return False
    has_r, has_e = 'result' in j, 'error' in j
    if has_r == has_e:
        return False
    return has_r or valid_error_shape(j['error'])


def oracle(prop, c, out):
    op = c['op']
    f = []
    if prop == 'C06':
        if op.endswith('_from_json'):
            j = dec(c['j'])
            allowed = {'DeserializationError'} | ({'IdentityError'} if op.startswith('b') else set())
            if 'raised' in out and out['raised'] not in allowed:
                f.append(Finding(prop, f'escape:{out["raised"]}', f'{op} raised {out["raised"]} instead of the deserialisation error', c, out))
            if 'ok' in out:
                valid = {'req_from_json': valid_request_shape, 'resp_from_json': valid_response_shape, 'err_from_json': valid_error_shape,
                         'breq_from_json': lambda x: isinstance(x, list) and len(x) > 0 and all(valid_request_shape(e) for e in x),
                         'bresp_from_json': lambda x: (isinstance(x, list) and all(valid_response_shape(e) for e in x))
                         or (isinstance(x, dict) and x.get('jsonrpc') == '2.0' and x.get('id') is None and valid_error_shape(x.get('error')))}[op]
                if not valid(j):
                    f.append(Finding(prop, 'accepted-invalid', f'{op} accepted a structurally invalid message', c, out))
                if op in ('breq_from_json', 'bresp_from_json') and isinstance(j, list):
                    ids = [e.get('id') for e in j if isinstance(e, dict) and e.get('id') is not None]
                    if len(set(map(json.dumps, ids))) != len(ids):
                        f.append(Finding(prop, 'accepted-duplicate-ids', f'{op} accepted duplicate ids', c, out))
        elif op.endswith('_hist') and c['strict']:
            # replay the history against a reference: a refused op leaves the batch unchanged
            elems, seen = [], set()
            for o, res in zip(c['ops'], out['outs']):
                new = [o['r']] if o['k'] == 'append' else o['rs']
                ids = [json.dumps(s['id']) for s in new if s['id'] is not None]
                dup = len(set(ids)) != len(ids) or any(i in seen for i in ids)
                if dup:
                    if res != 'IdentityError':
                        f.append(Finding(prop, 'dup-not-refused', f'duplicate id accepted by {o["k"]} ({res})', c, out))
                        break
                else:
                    if res != 'ok':
                        f.append(Finding(prop, 'nondup-refused', f'{o["k"]} of fresh ids raised {res}', c, out))
                        break
                    elems += new
                    seen |= set(ids)
            else:
                key = 'requests' if op == 'breq_hist' else 'responses'
                got_ids = [json.dumps(e['id']) for e in out['final'][key]]
                want_ids = [json.dumps(s['id']) for s in elems]
                if got_ids != want_ids or sorted(json.dumps(i) for i in out['final']['ids']) != sorted(seen):
                    f.append(Finding(prop, 'batch-changed-by-refused-op', 'batch contents / id set differ from the accepted operations', c, out,
                                     {'elements': want_ids, 'ids': sorted(seen)}))
    if prop == 'C05' and out.get('independent') is False:
        f.append(Finding(prop, 'deserialised-messages-share-state', f'{op}: after a deserialised message was changed in place, the same text '
                                                                    f'deserialises to something else: {json.dumps(out.get("after_disturbance"))[:200]}', c, out))
    if prop == 'C05' and op.endswith('_hist') and not out.get('wire_follows_elements', True):
        f.append(Finding(prop, 'stale-wire-form', f'{op}: after growing a batch that had been serialised, to_json() / the encoder do not '
                                                  f'give the array of the current elements', c, out))
    if prop == 'C05' and op.endswith('_build') and out.get('built') == 'ok':
        if not out.get('text_equal') or not out.get('codec_ok'):
            f.append(Finding(prop, 'encoder-mismatch', 'json.dumps(to_json()) and json.dumps(cls=JSONEncoder) disagree', c, out))
        back = out.get('back', {})
        if 'raised' in back:
            empty_batch = op == 'breq_build' and not c['reqs']
            if not empty_batch:
                f.append(Finding(prop, f'roundtrip-raised:{back["raised"]}', f'{op}: own wire form refused ({back["raised"]})', c, out))
        else:
            if out.get('wire2') != out.get('wire'):
                f.append(Finding(prop, 'not-a-fixpoint', f'{op}: second serialisation differs from the first', c, out))
            f += _c05_fields(prop, c, out)
    return f


def _c05_fields(prop, c, out):
    """same method / id / params / result / error fields, exact wire form, class by code"""
    f = []
    op, wire, back = c['op'], dec(out['wire']), out['back']['ok']

    def chk_req(spec, w, b):
        want_params = dec(spec['params']['v']) if spec['params']['k'] != 'none' else None
        ok = (w.get('jsonrpc') == '2.0' and w.get('method') == spec['method']
              and ('id' in w) == (spec['id'] is not None) and (spec['id'] is None or enc(w['id']) == spec['id'])
              and ('params' in w) == bool(want_params) and (not want_params or enc(w['params']) == enc(want_params))
              and set(w) <= {'jsonrpc', 'method', 'id', 'params'})
        ok = ok and b['method'] == spec['method'] and b['id'] == spec['id']
        bp = b['params']
        ok = ok and ((bp['k'] != 'none' and enc(dec(bp['v'])) == enc(want_params)) if want_params else
                     (bp['k'] == 'pos' and dec(bp['v']) == []))
        return ok

    def want_cls(code, base):
        for k in REG:
            if k['code'] == str(code):
                return k['name']
        return base

    def chk_err(e_self, w, b, base):
        ok = (enc(w.get('code')) == ['i', e_self['code']] and w.get('message') == e_self['message']
              and ('data' in w) == (e_self['data'] is not None) and (e_self['data'] is None or enc(w['data']) == e_self['data']['v'])
              and set(w) <= {'code', 'message', 'data'})
        ok = ok and b['code'] == e_self['code'] and b['message'] == e_self['message'] and b['data'] == e_self['data']
        ok = ok and b['cls'] == want_cls(e_self['code'], base)
        return ok

    def chk_err_spec(espec, w, b, base):
        # the error a spec builds: explicit code / message or the class defaults
        e_self = {'code': espec['code'] if espec['code'] is not None else espec['ecls']['code'],
                  'message': espec['message'] if espec['message'] is not None else espec['ecls']['message'], 'data': espec['data']}
        return isinstance(w, dict) and b is not None and chk_err(e_self, w, b['v'], base)

    if op == 'req_build':
        if not chk_req(c['req'], wire, back):
            f.append(Finding(prop, 'request-roundtrip', 'request fields or wire form changed by the round trip', c, out))
    elif op == 'err_build':
        if not chk_err(out['self'], wire, back, c['cls']['name']):
            f.append(Finding(prop, 'error-roundtrip', 'error code / message / data / class changed by the round trip', c, out))
    elif op == 'resp_build':
        spec = c['resp']
        ok = (wire.get('jsonrpc') == '2.0' and 'id' in wire and (enc(wire['id']) == (spec['id'] or ['n']))
              and ('result' in wire) != ('error' in wire) and set(wire) <= {'jsonrpc', 'id', 'result', 'error'}
              and ('result' in wire) == (spec['result'] is not None)
              and (spec['result'] is None or enc(wire['result']) == spec['result']['v'])
              and back['id'] == spec['id'] and back['result'] == spec['result'] and (back['error'] is None) == (spec['error'] is None))
        if ok and spec['error'] is not None:
            ok = chk_err_spec(spec['error'], wire.get('error'), back['error'], c['cls']['name'])
        if not ok:
            f.append(Finding(prop, 'response-roundtrip', 'response fields or wire form changed by the round trip', c, out))
    elif op == 'breq_build':
        if not c['reqs']:
            return f
        ok = isinstance(wire, list) and len(wire) == len(c['reqs']) == len(back['requests']) and all(
            chk_req(s, w, b) for s, w, b in zip(c['reqs'], wire, back['requests']))
        if not ok:
            f.append(Finding(prop, 'batch-request-roundtrip', 'batch elements / order changed by the round trip', c, out))
    elif op == 'bresp_build':
        if c.get('error') is None:
            ok = isinstance(wire, list) and len(wire) == len(c['resps']) == len(back['responses']) and all(
                b['id'] == s['id'] and b['result'] == s['result'] and (b['error'] is None) == (s['error'] is None)
                and (s['error'] is None or chk_err_spec(s['error'], w.get('error'), b['error'], c['cls']['name']))
                for s, w, b in zip(c['resps'], wire, back['responses']))
        else:
            ok = (isinstance(wire, dict) and wire.get('id', 0) is None and 'error' in wire and back['error'] is not None and back['responses'] == []
                  and chk_err_spec(c['error'], wire['error'], back['error'], c['cls']['name']))
        if not ok:
            f.append(Finding(prop, 'batch-response-roundtrip', 'batch response changed by the round trip', c, out))
    return f


def relevant(prop, c):
    return c['op'] in (C06_OPS if prop == 'C06' else C05_OPS if prop == 'C05' else ())
