"""
Suite `validators` (C14): methods validated by the real JsonSchemaValidator / PydanticValidator,
dispatched through the real dispatchers; the model gets the validator's verdict on the bound arguments
(computed by calling jsonschema / pydantic *directly* on what CPython's own binder produces).
"""
from __future__ import annotations

import enum
import inspect
import itertools
import json
from typing import Annotated, Any, Dict, List, Optional

import jsonschema
import pydantic

from .. import core
from ..core import enc, dec, Finding
from .. import impl_server as S
from . import dispatch as D

import pjrpc
import pjrpc.server
from pjrpc.server import validators
from pjrpc.server.validators import jsonschema as js_validators
from pjrpc.server.validators import pydantic as pd_validators

NAME = 'dispatch'
SERIAL = False
HALVES = ('sync', 'async')


class Color(enum.Enum):
    RED = 'red'
    BLUE = 'blue'


class Point(pydantic.BaseModel):
    x: int
    y: int = 0


def _even(v):
    # the user's own validation step: it raises (pydantic reports the exception object itself among the error details)
    if v % 2:
        raise ValueError('must be even')
    return v


Even = Annotated[int, pydantic.AfterValidator(_even)]

ANNOTATIONS = {
    'even': Even,
    'posint': Annotated[int, pydantic.Field(gt=0, le=100)], 'shortstr': Annotated[str, pydantic.Field(max_length=3)],
    'int': int, 'str': str, 'float': float, 'bool': bool, 'optint': Optional[int], 'listint': List[int],
    'dictint': Dict[str, int], 'any': Any, 'point': Point, 'color': Color,
}
ANN_SRC = {'even': 'Even', 'posint': 'Annotated[int, Field(gt=0, le=100)]', 'shortstr': 'Annotated[str, Field(max_length=3)]', 'int': 'int', 'str': 'str', 'float': 'float', 'bool': 'bool', 'optint': 'Optional[int]', 'listint': 'List[int]',
           'dictint': 'Dict[str, int]', 'any': 'Any', 'point': 'Point', 'color': 'Color'}
VALUES = {
    'even': [4, 3, 0, '6', '7', 'x', None],
    'posint': [5, 100, 0, -1, 101, '7', 'x', None], 'shortstr': ['abc', '', 'abcd', 1, None],
    'int': [1, 0, -5, '1', '7', 1.0, 1.5, 'x', None, True, [1], {}],
    'str': ['s', '', 1, None, ['s'], True],
    'float': [1.5, 1, '2.5', 'x', None, True],
    'bool': [True, False, 1, 0, 'true', 'yes', 2, None, 'x'],
    'optint': [None, 1, '3', 'x', 1.5, []],
    'listint': [[], [1, 2], ['1', 2], [1, 'x'], 'x', None, [[1]], {'a': 1}],
    'dictint': [{}, {'a': 1}, {'a': '2'}, {'a': 'x'}, [], None, {'a': {'b': 1}}],
    'any': [1, 'x', None, [1, {'a': None}]],
    'point': [{'x': 1}, {'x': '2', 'y': 3}, {'y': 1}, {'x': 'a'}, {'x': 1, 'z': 1}, 1, None, []],
    'color': ['red', 'blue', 'green', 1, None],
}
SCHEMAS = {
    'integer': ({'type': 'integer'}, [1, 0, -3, 1.0, 1.5, '1', None, True, [1]]),
    'string-enum': ({'type': 'string', 'enum': ['a', 'b']}, ['a', 'b', 'c', 1, None]),
    'number-bounds': ({'type': 'number', 'minimum': 0, 'maximum': 10}, [0, 10, 5.5, -1, 11, '5', None]),
    'array': ({'type': 'array', 'items': {'type': 'integer'}, 'maxItems': 2}, [[], [1, 2], [1, 2, 3], ['x'], 'x', None]),
    'object': ({'type': 'object', 'properties': {'k': {'type': 'string'}}, 'required': ['k'], 'additionalProperties': False},
               [{'k': 'v'}, {}, {'k': 1}, {'k': 'v', 'z': 1}, [], None]),
    'nullable': ({'type': ['integer', 'null']}, [None, 1, 'x']),
    # alternatives: a value that matches none of them fails with a compound error (sub-errors per alternative)
    'anyof': ({'anyOf': [{'type': 'integer'}, {'type': 'string', 'maxLength': 2}]}, [1, 'ab', 'abc', None, 1.5]),
    'oneof': ({'oneOf': [{'type': 'integer'}, {'type': 'number', 'minimum': 5}]}, [1, 7.5, 7, 2.5, 'x']),
    'nested': ({'type': 'array', 'items': {'anyOf': [{'type': 'integer', 'minimum': 0}, {'type': 'null'}]}}, [[1, None], [-1], ['x', 1], []]),
}


def norm_value(v):
    """JSON rendering of what a body may receive after coercion"""
    if isinstance(v, pydantic.BaseModel):
        return {'<model>': type(v).__name__, 'fields': norm_value(v.model_dump())}
    if isinstance(v, enum.Enum):
        return {'<enum>': v.value}
    if isinstance(v, (list, tuple)):
        return [norm_value(x) for x in v]
    if isinstance(v, dict):
        return {k: norm_value(x) for k, x in v.items()}
    return S.norm(v)


S_NORM_ORIG = S.norm


def _patched_norm(v):
    if isinstance(v, (pydantic.BaseModel, enum.Enum)):
        return norm_value(v)
    if isinstance(v, (list, tuple)):
        return [_patched_norm(x) for x in v]
    if isinstance(v, dict):
        return {k: _patched_norm(x) for k, x in v.items()}
    return S_NORM_ORIG(v)


S.norm = _patched_norm

_FUNCS = {}


def make_function(key, params, is_async, view=False):
    """params: [{'n','k','d','ann'}]; annotated function recording its arguments (d: False | True (marker default) | 'none')"""
    ck = (key, json.dumps(params), is_async, view)
    if ck in _FUNCS:
        return _FUNCS[ck]
    parts, star = (['self'] if view else []), False
    for p in params:
        ann = f': {ANN_SRC[p["ann"]]}' if p.get('ann') else ''
        d = ' = None' if p['d'] == 'none' else (f' = {S.DEFAULT!r}' if p['d'] else '')
        if p['k'] == 'vp':
            parts.append('*' + p['n'])
            star = True
            continue
        if p['k'] == 'vk':
            parts.append('**' + p['n'])
            continue
        if p['k'] == 'ko' and not star:
            parts.append('*')
            star = True
        parts.append(f'{p["n"]}{ann}{d}')
    recv = '{' + ', '.join([f'{p["n"]!r}: {p["n"]}' for p in params] + (["'<self.context>': _ctx_mark(self.context)"] if view else [])) + '}'
    ns = {'_perform': S._perform, '_ctx_mark': S.ctx_mark, 'Annotated': Annotated, 'Field': pydantic.Field, 'Optional': Optional, 'List': List, 'Dict': Dict, 'Any': Any, 'Point': Point, 'Color': Color, 'Even': Even}
    src = f'{"async " if is_async else ""}def f({", ".join(parts)}):\n    return _perform({key!r}, {recv})\n'
    exec(compile(src, '<generated method>', 'exec', dont_inherit=True), ns)      # no `from __future__ import annotations`
    _FUNCS[ck] = ns['f']
    return ns['f']


_VALIDATORS = {}


def get_validator(kind, coerce, excluded, wide=False):
    k = (kind, coerce, tuple(excluded), wide)
    if k not in _VALIDATORS:
        pred = (lambda name, ann, default: name in excluded) if excluded else None
        if kind == 'jsonschema':
            # `wide`: the validator object itself carries a permissive default schema; a method's own schema wins over it
            _VALIDATORS[k] = js_validators.JsonSchemaValidator(exclude_param=pred, **({'schema': {'type': 'object'}} if wide else {}))
        elif kind == 'pydantic':
            _VALIDATORS[k] = pd_validators.PydanticValidator(coerce=coerce, exclude_param=pred)
        else:
            _VALIDATORS[k] = validators.BaseValidator(exclude_param=pred)
    return _VALIDATORS[k]


_DISP = {}


def build(c, is_async):
    v = c['validator']
    key = json.dumps([v, c['params'], c['cfg']['methods'][0].get('ctx'), is_async, c.get('twin')], sort_keys=True)
    if key in _DISP:
        return _DISP[key]
    view = bool(c['cfg']['methods'][0].get('view'))
    f = make_function('f#' + key[:40] + str(len(_DISP)), c['params'], is_async, view)
    # a fresh function object per configuration: the validation meta is attached to the function
    import types
    g = types.FunctionType(f.__code__, f.__globals__, f.__name__, f.__defaults__, f.__closure__)
    g.__kwdefaults__ = f.__kwdefaults__
    g.__annotations__ = dict(f.__annotations__)
    if view:
        def _init(self, context=None):
            pjrpc.server.ViewMixin.__init__(self)
            self.context = context
        V = type('V', (pjrpc.server.ViewMixin,), {'__init__': _init, 'vm': g})
    val = get_validator(v['kind'], v.get('coerce', True), v.get('excluded') or [], bool(v.get('wide')))
    if v['kind'] == 'jsonschema':
        # validator arguments given for *this* method only (besides its schema)
        extra = {'format_checker': jsonschema.FormatChecker()} if v.get('format_checker') else {}
        val.validate(g, schema=v['schema'], **extra)
    else:
        val.validate(g)
    d = (pjrpc.server.AsyncDispatcher if is_async else pjrpc.server.Dispatcher)()
    m = c['cfg']['methods'][0]
    if view:
        d.registry.add_methods(pjrpc.server.dispatcher.ViewMethod(V, 'vm', 'f', m.get('ctx')))
    else:
        d.add(g, 'f', context=m.get('ctx'))
    if c.get('twin'):
        # the same function exposed a second time, with another context designation, under the same validator
        d.add(g, 'g', context=c['twin']['ctx'])
    _DISP[key] = (d, f.__code__)
    return _DISP[key]


def run_impl(c):
    out = {}
    S.set_bodies(c['cfg'])
    for half, is_async in (('sync', False), ('async', True)):
        d, _ = build(c, is_async)
        # the body looks its description up under the generated key
        for k in list(S.CURRENT['bodies']):
            pass
        S.CURRENT['bodies'] = {k2: dict(c['cfg']['methods'][0]['body'], _name='f', _post=None) for k2 in _all_keys()}
        if c.get('twin'):
            # ... and served first
            warm = json.dumps({'jsonrpc': '2.0', 'id': 0, 'method': 'g', 'params': c['twin']['params']})
            S.loop().run_until_complete(d.dispatch(warm, context=S.next_ctx())) if is_async else d.dispatch(warm, context=S.next_ctx())
        del S.LOG[:]
        try:
            r = S.loop().run_until_complete(d.dispatch(c['text'], context=S.next_ctx())) if is_async else d.dispatch(c['text'], context=S.next_ctx())
        except Exception as e:  # noqa
            r = e
        out[half] = S.observe(r, list(S.LOG))
    out['async_plain'] = out['async']
    out['async_seq'] = out['async']
    return out


def _all_keys():
    return [k[0] for k in _FUNCS]


# ------------------------------------------------------------------------------------------------
# reference: CPython's binder + the validation library called directly
# ------------------------------------------------------------------------------------------------

def twin(params):
    key = json.dumps([(p['n'], p['k'], p['d']) for p in params])
    if key not in _TWIN:
        parts, star = [], False
        for p in params:
            if p['k'] == 'vp':
                parts.append('*' + p['n'])
                star = True
                continue
            if p['k'] == 'vk':
                parts.append('**' + p['n'])
                continue
            if p['k'] == 'ko' and not star:
                parts.append('*')
                star = True
            parts.append(p['n'] + (f' = {S.DEFAULT!r}' if p['d'] else ''))
        ns = {}
        exec(f'def g({", ".join(parts)}):\n    pass\n', ns)
        _TWIN[key] = ns['g']
    return _TWIN[key]


_TWIN = {}


def reference(c):
    """-> ('nobind', None) | ('reject', None) | ('accept', received mapping)"""
    m = c['cfg']['methods'][0]
    v = c['validator']
    ctx = m.get('ctx')
    excluded = set(v.get('excluded') or [])
    view = bool(m.get('view'))
    visible = [p for p in c['params'] if (p['n'] != ctx or view) and p['n'] not in excluded]
    req = json.loads(c['text'])
    params = req.get('params', [])
    try:
        ba = inspect.signature(twin(visible)).bind(*params) if isinstance(params, list) else inspect.signature(twin(visible)).bind(**params)
    except TypeError:
        return 'nobind', None
    args = dict(ba.arguments)
    if v['kind'] == 'jsonschema':
        try:
            extra = {'format_checker': jsonschema.FormatChecker()} if v.get('format_checker') else {}
            jsonschema.validate(args, v['schema'], types={'array': (list, tuple)}, **extra)
        except jsonschema.ValidationError:
            return 'reject', None
        final = dict(args)
    elif v['kind'] == 'pydantic':
        conv = {}
        for p in visible:
            if p['n'] in args:
                ann = ANNOTATIONS[p['ann']] if p.get('ann') else Any
                try:
                    conv[p['n']] = pydantic.TypeAdapter(ann).validate_python(args[p['n']])
                except pydantic.ValidationError:
                    return 'reject', None
        final = conv if v.get('coerce', True) else dict(args)
    else:
        final = dict(args)
    recv = {}
    for p in c['params']:
        if p['n'] == ctx and not view:
            recv[p['n']] = '<CTX>'
        elif p['n'] in final:
            recv[p['n']] = norm_value(final[p['n']])
        elif p['k'] in ('vp', 'vk'):
            recv[p['n']] = [] if p['k'] == 'vp' else {}          # a variadic parameter that was given nothing
        else:
            recv[p['n']] = S.DEFAULT
    if view:
        recv['<self.context>'] = '<CTX>' if ctx else '<none>'
    return 'accept', recv


def make_case(params, validator, ctx, req_params, tag='validators', twin=None, view=False):
    sig = [{'n': p['n'], 'k': p['k'], 'd': bool(p['d'])} for p in params]
    m = D.M('f', sig, D.ECHO)
    if view:
        m['view'] = True
    if ctx:
        m['ctx'] = ctx
    if validator.get('excluded'):
        m['excluded'] = validator['excluded']
    text = json.dumps({'jsonrpc': '2.0', 'id': 1, 'method': 'f', 'params': req_params})
    c = D.case(text, D.cfg(methods=[m]), tag=tag)
    c['params'] = params
    c['validator'] = validator
    if twin is not None:
        c['twin'] = twin
    # the validator's verdict for the model
    kind, recv = reference(c)
    if kind == 'reject':
        m['post'] = {'k': 'reject'}
    elif kind == 'accept':
        hidden = {'<self.context>'} | ({ctx} if (ctx and not view) else set())
        variadic = {p['n'] for p in params if p['k'] in ('vp', 'vk')}
        args = {k: v for k, v in recv.items() if v != S.DEFAULT and k not in hidden and k not in variadic}
        # with coercion pydantic hands over every model field, defaults included
        if validator['kind'] == 'pydantic' and validator.get('coerce', True):
            excluded = set(validator.get('excluded') or [])
            args = {k: v for k, v in recv.items() if k not in hidden and k not in excluded}
        m['post'] = {'k': 'replace', 'args': enc(args)}
    c['expected'] = {'kind': kind, 'recv': None if recv is None else enc(recv)}
    return c


def generate(tier, rng):
    thorough = tier == 'thorough'
    # --- pydantic: annotations x values x passing x coercion x exclusion ---------------------------
    anns = list(ANNOTATIONS)
    for coerce in (True, False):
        for ann in anns:
            for val in VALUES[ann]:
                params = [{'n': 'a', 'k': 'pk', 'd': False, 'ann': ann}]
                v = {'kind': 'pydantic', 'coerce': coerce}
                yield make_case(params, v, None, [val])
                yield make_case(params, v, None, {'a': val})
        for ann1, ann2 in itertools.product(['int', 'str', 'listint', 'point', 'optint'], ['int', 'bool', 'color', 'dictint']):
            for _ in range(6 if thorough else 2):
                v1, v2 = rng.choice(VALUES[ann1]), rng.choice(VALUES[ann2])
                params = [{'n': 'a', 'k': 'pk', 'd': False, 'ann': ann1}, {'n': 'b', 'k': rng.choice(['pk', 'ko']), 'd': True, 'ann': ann2},
                          {'n': 'dep', 'k': 'ko', 'd': True, 'ann': 'any'}]
                v = {'kind': 'pydantic', 'coerce': coerce, 'excluded': ['dep']}
                for rp in ([v1], {'a': v1}, {'a': v1, 'b': v2}, {'a': v1, 'dep': 1}, {'b': v2}, {'a': v1, 'zz': 1}, [v1, v2] if params[1]['k'] == 'pk' else [v1]):
                    yield make_case(params, v, None, rp)
                # context parameter: never validated, never settable
                paramsc = [{'n': 'ctx', 'k': 'pk', 'd': False}, {'n': 'a', 'k': 'pk', 'd': False, 'ann': ann1}]
                for rp in ([v1], {'a': v1}, {'a': v1, 'ctx': 1}, [v1, 2]):
                    yield make_case(paramsc, {'kind': 'pydantic', 'coerce': coerce}, 'ctx', rp)
                    # exposed also without the context designation (and the other way round), the twin served first
                    yield make_case(paramsc, {'kind': 'pydantic', 'coerce': coerce}, 'ctx', rp, tag='validators-twin',
                                    twin={'ctx': None, 'params': {'ctx': 1, 'a': v1}})
                    yield make_case(paramsc, {'kind': 'pydantic', 'coerce': coerce}, None, rp, tag='validators-twin',
                                    twin={'ctx': 'ctx', 'params': {'a': v1}})
    # methods without client-settable parameters still refuse superfluous arguments (and the context name)
    for kind in ('pydantic', 'jsonschema', 'base'):
        v = {'kind': kind}
        if kind == 'jsonschema':
            v['schema'] = {'type': 'object'}
        for params, ctxname in (([], None), ([{'n': 'ctx', 'k': 'pk', 'd': False}], 'ctx')):
            for rp in ([], {}, [1], {'x': 1}, {'ctx': 'client-supplied'}, ['client-supplied']):
                yield make_case(params, v, ctxname, rp, tag='validators-noparams')
    # a parameter that defaults to None is not thereby Optional: an explicit null does not conform to `int`
    for coerce in (True, False):
        for ann in ('int', 'str', 'float', 'listint', 'optint'):
            params = [{'n': 'b', 'k': 'pk', 'd': False, 'ann': 'int'}, {'n': 'a', 'k': 'pk', 'd': 'none', 'ann': ann}]
            for val in [None] + VALUES[ann][:3]:
                for rp in ([1, val], {'a': val, 'b': 1}):
                    yield make_case(params, {'kind': 'pydantic', 'coerce': coerce}, None, rp, tag='validators-none-default')
    # class-based views take the context through the constructor: a method parameter that happens to share the context
    # name is an ordinary, validated parameter
    for kind in ('pydantic', 'jsonschema', 'base'):
        v = {'kind': kind}
        if kind == 'jsonschema':
            v['schema'] = {'type': 'object', 'properties': {'request': {'type': 'string'}, 'times': {'type': 'integer'}}, 'required': ['request']}
        params = [{'n': 'request', 'k': 'pk', 'd': False, 'ann': 'str'}, {'n': 'times', 'k': 'pk', 'd': True, 'ann': 'int'}]
        for ctxname in ('request', 'times', 'other', None):
            for rp in (['ping'], ['ping', 2], {'request': 'ping', 'times': 2}, {'times': 2}, {}, {'request': 1}, ['ping', 'x'], {'request': 'ping', 'other': 1}):
                yield make_case(params, v, ctxname, rp, tag='validators-view', view=True)
    # an explicit null accepted for an Optional parameter reaches the method as None (not the default, not dropped)
    for coerce in (True, False):
        params = [{'n': 'v', 'k': 'pk', 'd': False, 'ann': 'int'}, {'n': 'f', 'k': 'pk', 'd': True, 'ann': 'optint'}]
        for rp in ([3, None], {'v': 3, 'f': None}, [3], {'v': 3}, [3, 4], [None]):
            yield make_case(params, {'kind': 'pydantic', 'coerce': coerce}, None, rp, tag='validators-optional-null')
        params = [{'n': 'n', 'k': 'pk', 'd': False, 'ann': 'optint'}]
        for rp in ([None], {'n': None}, [1], {}):
            yield make_case(params, {'kind': 'pydantic', 'coerce': coerce}, None, rp, tag='validators-optional-null')
    # --- jsonschema: per-parameter fragments, required, additionalProperties ----------------------
    for name, (frag, vals) in SCHEMAS.items():
        for val in vals:
            for required in (True, False):
                for addl in (True, False):
                    schema = {'type': 'object', 'properties': {'a': frag}, 'additionalProperties': addl}
                    if required:
                        schema['required'] = ['a']
                    params = [{'n': 'a', 'k': 'pk', 'd': not required}, {'n': 'b', 'k': 'pk', 'd': True}]
                    v = {'kind': 'jsonschema', 'schema': schema}
                    for rp in ([val], {'a': val}, {}, [], {'b': 1}, {'a': val, 'b': 'extra'}, {'a': val, 'zz': 1}):
                        yield make_case(params, v, None, rp)
                    if required and not addl:
                        for rp in ([val], {'a': val}, {}):
                            yield make_case(params, dict(v, wide=True), None, rp, tag='validators-wide')
    # schemas that name their own dialect: the keywords mean what that dialect says (boolean exclusiveMinimum of draft-04,
    # divisibleBy / required-as-boolean of draft-03, const / exclusiveMinimum-as-number of draft-06+)
    DIALECTS = [
        ({'$schema': 'http://json-schema.org/draft-04/schema#', 'type': 'object',
          'properties': {'a': {'type': 'integer', 'minimum': 0, 'exclusiveMinimum': True}}, 'required': ['a']}, (0, 1, -1, 'x')),
        ({'$schema': 'http://json-schema.org/draft-04/schema#', 'type': 'object',
          'properties': {'a': {'type': 'number', 'maximum': 10, 'exclusiveMaximum': True}}}, (10, 9.5, 11)),
        ({'$schema': 'http://json-schema.org/draft-03/schema#', 'type': 'object',
          'properties': {'a': {'type': 'integer', 'divisibleBy': 2, 'required': True}}}, (2, 3, 0)),
        ({'$schema': 'http://json-schema.org/draft-06/schema#', 'type': 'object',
          'properties': {'a': {'type': 'integer', 'exclusiveMinimum': 0}}, 'required': ['a']}, (0, 1)),
        ({'$schema': 'http://json-schema.org/draft-07/schema#', 'type': 'object',
          'properties': {'a': {'const': 'k'}}, 'required': ['a']}, ('k', 'z')),
    ]
    # methods with *args / **kwargs that are given nothing for them (calls that do give them something are the recorded D6): the
    # validators hand on exactly what was bound, nothing is invented for the variadic parameters
    for vparams in ([{'n': 'a', 'k': 'pk', 'd': False}, {'n': 'kw', 'k': 'vk', 'd': False}],
                    [{'n': 'a', 'k': 'pk', 'd': True}, {'n': 'rest', 'k': 'vp', 'd': False}],
                    [{'n': 'a', 'k': 'pk', 'd': False}, {'n': 'rest', 'k': 'vp', 'd': False}, {'n': 'k', 'k': 'ko', 'd': True}, {'n': 'kw', 'k': 'vk', 'd': False}]):
        for vv in ({'kind': 'jsonschema', 'schema': {'type': 'object'}}, {'kind': 'base'},
                   {'kind': 'jsonschema', 'schema': {'type': 'object', 'properties': {'a': {'type': 'integer'}}}}):
            for rp in ({'a': 1}, [1], {'a': 'x'}, {}, []):
                if vparams[1]['k'] == 'vp' and isinstance(rp, list) and len(rp) > 1:
                    continue
                yield make_case(vparams, vv, None, rp, tag='validators-variadic-unused')
    for schema, vals in DIALECTS:
        params = [{'n': 'a', 'k': 'pk', 'd': 'required' not in schema and '03' not in schema['$schema']}]
        for val in vals:
            for rp in ([val], {'a': val}):
                yield make_case(params, {'kind': 'jsonschema', 'schema': schema}, None, rp, tag='validators-dialect')
    schema = {'type': 'object', 'properties': {'a': {'type': 'integer'}, 'b': {'type': 'string'}}, 'required': ['a']}
    for excluded in ([], ['dep']):
        params = [{'n': 'a', 'k': 'pk', 'd': False}, {'n': 'b', 'k': 'ko', 'd': True}, {'n': 'dep', 'k': 'ko', 'd': True}]
        v = {'kind': 'jsonschema', 'schema': schema, 'excluded': excluded}
        for rp in ([1], ['x'], {'a': 1, 'b': 's'}, {'a': 1, 'b': 2}, {'a': 1, 'dep': 5}, {'a': 1, 'dep': 'not-validated'}, {'b': 's'}):
            yield make_case(params, v, None, rp)
        paramsc = [{'n': 'ctx', 'k': 'pk', 'd': False}, {'n': 'a', 'k': 'pk', 'd': False}]
        for rp in ([1], ['x'], {'a': 1}, {'a': 1, 'ctx': 2}):
            yield make_case(paramsc, {'kind': 'jsonschema', 'schema': schema, 'excluded': []}, 'ctx', rp)
            yield make_case(paramsc, {'kind': 'jsonschema', 'schema': schema, 'excluded': []}, 'ctx', rp, tag='validators-twin',
                            twin={'ctx': None, 'params': {'ctx': 1, 'a': 1}})
            yield make_case(paramsc, {'kind': 'jsonschema', 'schema': schema, 'excluded': []}, None, rp, tag='validators-twin',
                            twin={'ctx': 'ctx', 'params': {'a': 1}})
            for kind in ('base',):
                yield make_case(paramsc, {'kind': kind}, 'ctx', rp, tag='validators-twin', twin={'ctx': None, 'params': {'ctx': 1, 'a': 1}})
                yield make_case(paramsc, {'kind': kind}, None, rp, tag='validators-twin', twin={'ctx': 'ctx', 'params': {'a': 1}})
    # validator arguments of one method must not reach another method validated by the same validator object:
    # `format` is an assertion only for the method that asks for a format checker
    fschema = {'type': 'object', 'properties': {'a': {'type': 'string', 'format': 'ipv4'}}, 'required': ['a']}
    params = [{'n': 'a', 'k': 'pk', 'd': False}]
    strict = {'kind': 'jsonschema', 'schema': fschema, 'format_checker': True}
    lenient = {'kind': 'jsonschema', 'schema': fschema}
    for order in ((strict, lenient), (lenient, strict), (strict, lenient, strict, lenient)):
        for v in order:
            for val in ('127.0.0.1', 'localhost', 1, ''):
                yield make_case(params, v, None, [val], tag='validators-kwargs')
                yield make_case(params, v, None, {'a': val}, tag='validators-kwargs')
    # --- base validator with an exclusion predicate -------------------------------------------------
    params = [{'n': 'a', 'k': 'pk', 'd': False}, {'n': 'dep', 'k': 'pk', 'd': True}]
    for rp in ([1], [1, 2], {'a': 1}, {'a': 1, 'dep': 2}, {}, {'dep': 1}):
        yield make_case(params, {'kind': 'base', 'excluded': ['dep']}, None, rp)


halves = D.halves


def relevant(prop, c):
    # C03 "parameters that do not bind to, or do not validate against, the method -> -32602 without running it"
    return prop in ('C14', 'C01') or (prop == 'C03' and not c.get('twin'))


def _proj_one(o):
    r = o['result']
    doc = D._decoded(o) if r['k'] == 'reply' else None
    execs = [e for e in o['events'] if e['e'] == 'exec']
    out = {'k': r['k'], 'exec': execs}
    if isinstance(doc, dict):
        out['error_code'] = (doc.get('error') or {}).get('code') if 'error' in doc else None
        out['data_is_array'] = isinstance((doc.get('error') or {}).get('data'), list) if 'error' in doc else None
        out['result'] = enc(doc.get('result')) if 'result' in doc else None
    return out


def project(prop, c, out):
    if prop not in ('C14', 'C03', 'C01'):
        return None
    hs = halves(out)
    if prop == 'C01':
        # whatever the validator makes of the call, dispatch answers (or stays silent): it never raises
        return {h: {'raised': hs[h]['result']['k'] == 'raised'} for h in HALVES}
    if prop == 'C03':
        return {h: {k: v for k, v in _proj_one(hs[h]).items() if k in ('k', 'error_code') or k == 'exec' and False} | {'ran': bool(_proj_one(hs[h])['exec'])}
                for h in HALVES}
    return {h: _proj_one(hs[h]) for h in HALVES}


def label(c, mo):
    v = c['validator']
    r = mo['result']
    code = ','.join(r.get('codes', [])) if r['k'] == 'reply' else r['k']
    return f'validators/{v["kind"]}/{"coerce" if v.get("coerce", True) else "asis"}/{c["expected"]["kind"]}/{code}'


def oracle(prop, c, out):
    f = []
    if prop == 'C01':
        for half in HALVES:
            r = out[half]['result']
            if r['k'] == 'raised':
                f.append(Finding(prop, f'escape:{r.get("exc")}', f'[{half}] {r.get("exc")} escaped from dispatch for a call to a validated method', c, r))
        return f
    if prop not in ('C14', 'C03'):
        return f
    want = c['expected']
    if prop == 'C03' and want['kind'] not in ('nobind', 'reject'):
        return f
    for half in HALVES:
        o = out[half]
        p = _proj_one(o)

        def fail(key, what, expected=None):
            f.append(Finding(prop, key, f'[{half}] {what}', c, {'result': o['result'], 'events': o['events']}, expected))
        if want['kind'] in ('nobind', 'reject'):
            if p.get('error_code') != -32602:
                fail('nonconforming-not-32602', f'a call that does not {"bind" if want["kind"] == "nobind" else "validate"} was not refused with -32602 '
                     f'(answer {p.get("error_code")}, {p["k"]})')
            elif p['exec']:
                fail('nonconforming-executed', 'the body ran although the arguments do not conform')
            elif not p.get('data_is_array'):
                fail('error-data-not-encodable', 'the -32602 error does not carry a JSON description (array)')
        else:
            if len(p['exec']) != 1:
                fail('conforming-not-executed', f'conforming arguments were not executed (answer {p.get("error_code")})', want['recv'])
            elif p['exec'][0]['recv'] != want['recv'] and core.canon(p['exec'][0]['recv']) != core.canon(want['recv']):
                fail('arguments-changed', 'the method did not receive the accepted arguments (unchanged, or converted when coercion is on)', want['recv'])
    return f
