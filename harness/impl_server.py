"""
Adapters that build *real* pjrpc dispatchers from the finite configuration descriptions the model
driver also reads (DESIGN §3): generated method functions / coroutines / view classes that record what
they received, middlewares and error handlers compiled from their kinds.
"""
from __future__ import annotations

import asyncio
import functools
import json

from . import core
from .core import enc, dec
from . import userclasses as U

import pjrpc
import pjrpc.server
from pjrpc.common import UNSET
from pjrpc.server import validators


CURRENT = {'bodies': {}}       # method key -> body description of the case in progress; 'ctx' -> context of the call in progress


class Ctx:
    """the per-request server-side context object.  All instances compare *equal* (like per-request dataclass / dict
    contexts with the same content): what a method receives must be the object of *this* request, by identity."""

    def __repr__(self):
        return '<ctx-object>'

    def __eq__(self, other):
        return isinstance(other, Ctx)

    def __hash__(self):
        return 7


CTX = Ctx()
CTX2 = Ctx()                   # equal to CTX, another object
_FLIP = [False]


def next_ctx():
    """the context object for the next dispatch call: consecutive calls get equal but distinct objects; the recording
    bodies mark as `<CTX>` the object of the call in progress and as `<stale-ctx>` any other context object"""
    CURRENT['ctx'] = Ctx()          # a new object for every call (equal to every other one)
    return CURRENT['ctx']


def ctx_mark(v, absent='<none>'):
    if v is CURRENT.get('ctx'):
        return '<CTX>'
    return '<stale-ctx>' if isinstance(v, Ctx) else absent


def ctx_label(v):
    return 'CTX' if v is CURRENT.get('ctx') else repr(v)
DEFAULT = '<default>'
LOG = []                       # events of the dispatch in progress


class CustomError(Exception):
    pass


class BadReprError(Exception):
    """an exception that cannot be rendered: whatever the server does with a method's exception besides mapping it to -32000
    (logging, formatting) must not change the answer"""

    def __repr__(self):
        raise RuntimeError('repr of the exception failed')

    def __str__(self):
        raise RuntimeError('str of the exception failed')


EXC_TYPES = {c.__name__: c for c in (BadReprError, ValueError, KeyError, TypeError, AssertionError, RuntimeError, CustomError,
                                     AttributeError, ZeroDivisionError, LookupError, OSError, StopIteration, NotImplementedError)}
EXC_TYPES['ValidationError'] = validators.ValidationError
# the library's own non-protocol exceptions escaping from a method body (a gateway method using a pjrpc client)
EXC_TYPES['DeserializationError'] = pjrpc.exc.DeserializationError
EXC_TYPES['IdentityError'] = pjrpc.exc.IdentityError
EXC_TYPES['BaseError'] = pjrpc.exc.BaseError


def norm(v):
    """normalise what a body received: the context object becomes its marker, tuples become lists"""
    if isinstance(v, Ctx):
        return ctx_mark(v)
    if isinstance(v, (list, tuple)):
        return [norm(x) for x in v]
    if isinstance(v, dict):
        return {k: norm(x) for k, x in v.items()}
    if v is None or isinstance(v, (bool, int, float, str)):
        return v
    return f'<object {type(v).__name__}>'


def _perform(key, recv):
    recv = norm(recv)
    body = CURRENT['bodies'][key]
    LOG.append({'e': 'exec', 'm': body['_name'], 'recv': enc(recv)})
    k = body['k']
    if k == 'echo':
        return recv
    if k == 'const':
        return dec(body['v'])
    if k == 'rpc':
        e = body['err']
        cls = U.BY_NAME[e['cls']]
        kw = {} if e['data'] is None else {'data': dec(e['data']['v'])}
        raise cls(int(e['code']), e['message'], **kw)
    if k == 'exc':
        name, _, marker = body['tag'].partition(':')
        raise EXC_TYPES[name](marker)
    raise core.InfraError(f'bad body {body}')


_KIND_ORDER = ['po', 'pk', 'vp', 'ko', 'vk']


def render_params(sig):
    """Python parameter list for a signature description (every default is the marker string)"""
    parts, seen_po, seen_star = [], False, False
    for i, p in enumerate(sig):
        k, n = p['k'], p['n']
        d = f'={DEFAULT!r}' if p['d'] else ''
        if k != 'po' and seen_po and '/' not in parts:
            parts.append('/')
        if k == 'po':
            seen_po = True
            parts.append(n + d)
        elif k == 'pk':
            parts.append(n + d)
        elif k == 'vp':
            seen_star = True
            parts.append('*' + n)
        elif k == 'ko':
            if not seen_star:
                parts.append('*')
                seen_star = True
            parts.append(n + d)
        elif k == 'vk':
            parts.append('**' + n)
    if seen_po and '/' not in parts:
        parts.append('/')
    return ', '.join(parts)


_FUNCS = {}


def shared_decorator(f):
    """an ordinary `functools.wraps` decorator: every decorated method shares this one wrapper code object, and a
    decorated coroutine function is a *plain* function returning a coroutine"""
    @functools.wraps(f)
    def wrapper(*args, **kwargs):
        return f(*args, **kwargs)
    return wrapper


def make_callable(key, sig, is_async, view, fresh=False, deco=False, static_ctx=None):
    """function / coroutine function / view class whose body records its arguments and then does what the
    current case says.  Cached: the validator's signature cache is keyed by the function object
    (`fresh=True` builds new objects, for measuring cache growth)."""
    ck = (key, json.dumps(sig), is_async, view, deco, static_ctx)
    if ck in _FUNCS and not fresh:
        return _FUNCS[ck]
    params = render_params(sig)
    recv = '{' + ', '.join(f'{p["n"]!r}: {p["n"]}' for p in sig) + '}'
    a = 'async ' if is_async else ''
    ns = {'_perform': _perform, '_ctx_mark': ctx_mark}
    if view and static_ctx is not None:
        # the exposed member is a @staticmethod: no instance parameter to strip, every declared parameter is the caller's
        # (what the instance was constructed with cannot be seen from inside; the marker is the configured one)
        src = (
            'import pjrpc.server\n'
            'class V(pjrpc.server.ViewMixin):\n'
            '    def __init__(self, context=None):\n'
            '        super().__init__()\n'
            '        self.context = context\n'
            '    @staticmethod\n'
            f'    {a}def vm({params}):\n'
            f'        recv = {recv}\n'
            f"        recv['<self.context>'] = {static_ctx!r}\n"
            f'        return _perform({key!r}, recv)\n'
        )
        exec(src, ns)
        obj = ns['V']
    elif view:
        src = (
            'import pjrpc.server\n'
            'class V(pjrpc.server.ViewMixin):\n'
            '    def __init__(self, context=None, *, _given=[]):\n'
            '        super().__init__()\n'
            '        self.context = context\n'
            f'    {a}def vm(self{", " if params else ""}{params}):\n'
            f'        recv = {recv}\n'
            "        recv['<self.context>'] = _ctx_mark(self.context)\n"
            f'        return _perform({key!r}, recv)\n'
        )
        exec(src, ns)
        obj = ns['V']
        if deco:
            obj.vm = shared_decorator(obj.vm)
    else:
        src = f'{a}def f({params}):\n    return _perform({key!r}, {recv})\n'
        exec(src, ns)
        obj = shared_decorator(ns['f']) if deco else ns['f']
    if not fresh:
        _FUNCS[ck] = obj
    return obj


class RaisingView(pjrpc.server.ViewMixin):
    def __init__(self, context=None):
        # a lookup error, of all things (an anonymous session, a missing header): it is the view that failed, not the method
        # name that is unknown
        raise KeyError('view constructor failed: marker-init')

    def vm(self, *args, **kwargs):
        return None


class _VerdictValidator(validators.BaseValidator):
    """Stands for a schema / type validator whose verdict on the bound arguments is given per case
    (used by the dispatch suite for the `post` descriptions; the real validators are exercised by the
    validators suite)."""

    def __init__(self, key, excluded):
        super().__init__(exclude_param=(lambda name, ann, default: name in excluded) if excluded else None)
        self._key = key

    def validate_method(self, method, params, exclude=(), **kwargs):
        arguments = super().validate_method(method, params, exclude)
        post = CURRENT['bodies'][self._key].get('_post')
        if post is None or post['k'] == 'accept':
            return arguments
        if post['k'] == 'reject':
            raise validators.ValidationError('rejected by verdict')
        return dec(post['args'])


def make_middleware(i, spec, is_async):
    k = spec['k']

    def enter(request, context):
        LOG.append({'e': 'enter', 'i': str(i), 'm': request.method, 'ctx': ctx_label(context)})

    def leave():
        LOG.append({'e': 'leave', 'i': str(i)})

    def transform_request(request):
        if k == 'appendParam':
            # in-place mutation of the request's own parameter list (no copy): it must stay this request's own
            if isinstance(request.params, list):
                request.params.append(dec(spec['v']))
            return request
        if k == 'rename':
            return pjrpc.Request(spec['to'], request.params, request.id)
        if k == 'setParams':
            p = spec['p']
            params = None if p['k'] == 'none' else dec(p['v'])
            return pjrpc.Request(request.method, params, request.id)
        return request

    def short(request):
        if k == 'short':
            return UNSET if request.id is None else pjrpc.Response(id=request.id, result=dec(spec['v']))
        return pjrpc.Response(id=None if spec.get('id') is None else dec(spec['id']), result=dec(spec['v']))

    def transform_response(r):
        if k == 'wrapResult' and r is not UNSET and r.is_success:
            return pjrpc.Response(id=r.id, result=[r.result])
        return r

    class _ByKind:
        """a callable object that compares (and hashes) equal to another middleware of the same kind: two equal middlewares
        declared at two positions are still two middlewares"""
        def __eq__(self, other):
            return getattr(other, '_kind_key', None) == self._kind_key

        def __hash__(self):
            return hash(self._kind_key)

    if is_async:
        async def mw(request, context, handler):
            enter(request, context)
            if k in ('short', 'shortFixed'):
                r = short(request)
            else:
                r = transform_response(await handler(transform_request(request), context))
            leave()
            return r
    else:
        def mw(request, context, handler):
            enter(request, context)
            if k in ('short', 'shortFixed'):
                r = short(request)
            else:
                r = transform_response(handler(transform_request(request), context))
            leave()
            return r
    obj = type('Middleware', (_ByKind,), {'__call__': lambda self, request, context, handler: mw(request, context, handler)})()
    obj._kind_key = json.dumps(spec, sort_keys=True)
    return obj


def make_handler(key, i, spec, is_async):
    k = spec['k']

    def run(request, context, error):
        LOG.append({'e': 'handler', 'key': None if key is None else str(key), 'i': str(i), 'code': str(error.code)})
        if k == 'ident':
            return error
        if k == 'recode':
            return pjrpc.exc.JsonRpcError(code=int(spec['code']), message=error.message, data=error.data)
        if k == 'setData':
            return type(error)(error.code, error.message, data=dec(spec['d']))
        raise core.InfraError(f'bad handler {spec}')

    if is_async:
        async def h(request, context, error):
            return run(request, context, error)
        return h
    return run


_DISPATCHERS = {}


def structure_key(cfg, is_async):
    methods = [{k: v for k, v in m.items() if k not in ('body', 'post')} for m in cfg['methods']]
    return json.dumps([methods, cfg.get('middlewares'), cfg.get('handlers'), cfg.get('max_batch_size'), is_async,
                       cfg.get('concurrent_batch'), cfg.get('json_hooks')], sort_keys=True)


HOOK_CALLS = {'loads': 0, 'dumps': 0}


def _hook_loads(text, *a, **kw):
    HOOK_CALLS['loads'] += 1
    return json.loads(text, *a, **kw)


def _hook_dumps(obj, *a, **kw):
    HOOK_CALLS['dumps'] += 1
    return json.dumps(obj, *a, **kw)


class HookDecoder(json.JSONDecoder):
    pass


class HookEncoder(pjrpc.server.JSONEncoder):
    pass


def build_dispatcher(cfg, is_async, fresh=False, coroutine_methods=None):
    """coroutine_methods: None = coroutines on the async dispatcher, plain functions on the sync one;
    False = plain functions even on the async dispatcher (C11: plain functions in async)"""
    if coroutine_methods is None:
        coroutine_methods = is_async
    sk = structure_key(cfg, is_async) + str(coroutine_methods)
    if not fresh and sk in _DISPATCHERS:
        return _DISPATCHERS[sk]
    kwargs = {}
    if cfg.get('max_batch_size') is not None:
        kwargs['max_batch_size'] = int(cfg['max_batch_size'])
    if cfg.get('middlewares'):
        kwargs['middlewares'] = [make_middleware(i, s, is_async) for i, s in enumerate(cfg['middlewares'])]
    if cfg.get('handlers'):
        kwargs['error_handlers'] = {
            (None if e['key'] is None else int(e['key'])): [make_handler(None if e['key'] is None else int(e['key']), i, h, is_async)
                                                              for i, h in enumerate(e['hs'])]
            for e in cfg['handlers']}
    if is_async and cfg.get('concurrent_batch') is not None:
        kwargs['concurrent_batch'] = cfg['concurrent_batch']
    if cfg.get('json_hooks'):
        # the user's own codec hooks, each equivalent to the default it replaces: nothing about the answers may change
        kwargs.update(json_loader=_hook_loads, json_dumper=_hook_dumps, json_encoder=HookEncoder, json_decoder=HookDecoder)
    cls_d = pjrpc.server.AsyncDispatcher if is_async else pjrpc.server.Dispatcher
    if kwargs.get('middlewares') or kwargs.get('error_handlers'):
        # the same middleware list / handler table *objects* configure another dispatcher first (a shared setting):
        # the dispatcher under test must still see them as declared
        cls_d(**kwargs)
    d = cls_d(**kwargs)
    for m in cfg['methods']:
        key = m.get('key') or m['name']
        excluded = m.get('excluded') or []
        if m.get('view'):
            cls = RaisingView if m.get('initRaises') else make_callable(
                key, m['sig'], coroutine_methods, True, deco=bool(m.get('deco')),
                static_ctx=(('<CTX>' if m.get('ctx') else '<none>') if m.get('static') else None))
            if m.get('post') is not None or excluded:
                _VerdictValidator(key, excluded).validate(cls.vm)
            d.registry.add_methods(pjrpc.server.dispatcher.ViewMethod(cls, 'vm', key, m.get('ctx'), bool(m.get('positional'))))
        else:
            f = make_callable(m.get('fn') or key, m['sig'], coroutine_methods, False, deco=bool(m.get('deco')))
            if m.get('post') is not None or excluded:
                _VerdictValidator(key, excluded).validate(f)
            if m.get('via_registry'):
                # registered on a registry of its own which is then merged into the dispatcher's (methods are copied)
                reg = pjrpc.server.MethodRegistry()
                reg.add_methods(pjrpc.server.Method(f, key, m.get('ctx'), bool(m.get('positional'))))
                d.add_methods(reg)
            else:
                d.registry.add_methods(pjrpc.server.Method(f, key, m.get('ctx'), bool(m.get('positional'))))
    if not fresh:
        _DISPATCHERS[sk] = d
    return d


def set_bodies(cfg):
    CURRENT['bodies'] = {}
    for m in cfg['methods']:
        b = dict(m['body'])
        b['_name'] = m['name']
        b['_post'] = m.get('post')
        CURRENT['bodies'][m.get('key') or m['name']] = b
        if m.get('fn'):
            CURRENT['bodies'][m['fn']] = b          # one function object registered under several names


_LOOP = None


def loop():
    global _LOOP
    if _LOOP is None or _LOOP.is_closed():
        _LOOP = asyncio.new_event_loop()
    return _LOOP


def strict_loads(text):
    """RFC 8259 parse: the non-JSON constants Python accepts are refused"""
    def bad(c):
        raise ValueError(f'non-JSON constant {c}')
    return json.loads(text, parse_constant=bad)


def observe(result, log):
    """canonical observation of a dispatch call"""
    if isinstance(result, BaseException):
        return {'result': {'k': 'raised', 'exc': core.exc_name(result)}, 'events': log}
    if result is None:
        return {'result': {'k': 'nothing'}, 'events': log}
    text, codes = result
    out = {'result': {'k': 'reply', 'codes': [str(c) for c in codes]}, 'events': log, 'text': text}
    try:
        out['result']['doc'] = enc(strict_loads(text))
        out['strict_json'] = True
    except ValueError:
        out['strict_json'] = False
        try:
            out['result']['doc'] = enc(json.loads(text))
        except ValueError:
            out['result']['doc'] = ['x', 'unparseable']
    return out


def dispatch(cfg, text, is_async, fresh=False, coroutine_methods=None):
    d = build_dispatcher(cfg, is_async, fresh=fresh, coroutine_methods=coroutine_methods)
    set_bodies(cfg)
    del LOG[:]
    try:
        if is_async:
            r = loop().run_until_complete(d.dispatch(text, context=next_ctx()))
        else:
            r = d.dispatch(text, context=next_ctx())
    except Exception as e:  # noqa: an exception out of dispatch is an observation
        r = e
    return observe(r, list(LOG))


def load_result(text):
    """what `json.loads` does with the text — the model's input (the same trusted function the
    dispatcher calls)"""
    try:
        v = json.loads(text)
    except json.JSONDecodeError:
        return {'k': 'decodeError'}
    except RecursionError:
        return {'k': 'recursionError'}
    except ValueError:
        return {'k': 'valueError'}
    return {'k': 'ok', 'j': enc(v)}
