"""
The small translator: reads pjrpc's source with `ast` (no import) and regenerates
lean/PjrpcModel/Generated/Constants.lean.  Props/Constants.lean proves each generated constant equal
to the constant the model uses, so a source edit that changes a code, a message, a content type or a
default breaks a proof obligation at `lake build`.
A constant that cannot be located any more (refactoring) is emitted as `none` — the tie theorem then
fails and the check falls back to the failing-input search.
"""
from __future__ import annotations

import ast
import json
from pathlib import Path

from .core import LEAN, REPO

OUT = LEAN / 'PjrpcModel' / 'Generated' / 'Constants.lean'


def _parse(rel):
    try:
        return ast.parse((REPO / rel).read_text())
    except Exception:
        return None


def _lit(node):
    try:
        return ast.literal_eval(node)
    except Exception:
        return _MISSING


class _Missing:
    def __repr__(self):
        return 'MISSING'


_MISSING = _Missing()


def _class(tree, name):
    if tree is None:
        return None
    for n in ast.walk(tree):
        if isinstance(n, ast.ClassDef) and n.name == name:
            return n
    return None


def _func(scope, name):
    if scope is None:
        return None
    for n in scope.body:
        if isinstance(n, (ast.FunctionDef, ast.AsyncFunctionDef)) and n.name == name:
            return n
    return None


def _class_attr(cls, attr):
    """value of a class-level `attr = literal` / `attr: T = literal`"""
    if cls is None:
        return _MISSING
    for n in cls.body:
        if isinstance(n, ast.AnnAssign) and isinstance(n.target, ast.Name) and n.target.id == attr and n.value is not None:
            return _lit(n.value)
        if isinstance(n, ast.Assign) and any(isinstance(t, ast.Name) and t.id == attr for t in n.targets):
            return _lit(n.value)
    return _MISSING


def _module_attr(tree, attr):
    if tree is None:
        return _MISSING
    for n in tree.body:
        if isinstance(n, ast.Assign) and any(isinstance(t, ast.Name) and t.id == attr for t in n.targets):
            return _lit(n.value)
        if isinstance(n, ast.AnnAssign) and isinstance(n.target, ast.Name) and n.target.id == attr and n.value is not None:
            return _lit(n.value)
    return _MISSING


def _default(fn, param):
    """default value of a parameter; literal, or the dotted source text for names"""
    if fn is None:
        return _MISSING
    a = fn.args
    pos = a.posonlyargs + a.args
    defaults = [None] * (len(pos) - len(a.defaults)) + list(a.defaults)
    for p, d in list(zip(pos, defaults)) + list(zip(a.kwonlyargs, a.kw_defaults)):
        if p.arg == param:
            if d is None:
                return _MISSING
            v = _lit(d)
            if v is _MISSING:
                return 'expr:' + ast.unparse(d)
            return v
    return _MISSING


def extract():
    exc = _parse('pjrpc/common/exceptions.py')
    common = _parse('pjrpc/common/__init__.py')
    v20 = _parse('pjrpc/common/v20.py')
    client = _parse('pjrpc/client/client.py')
    disp = _parse('pjrpc/server/dispatcher.py')
    retry = _parse('pjrpc/client/retry.py')
    gens = _parse('pjrpc/common/generators.py')
    openapi = _parse('pjrpc/server/specs/openapi.py')
    mocker = _parse('pjrpc/client/integrations/pytest.py')
    pyd = _parse('pjrpc/server/validators/pydantic.py')

    c = {}
    # error class table, in definition order: name, code, message, first base
    classes = []
    if exc is not None:
        for n in exc.body:
            if isinstance(n, ast.ClassDef):
                bases = [ast.unparse(b) for b in n.bases]
                if n.name == 'JsonRpcError' or any(b in {k[0] for k in classes} for b in bases):
                    code, msg = _class_attr(n, 'code'), _class_attr(n, 'message')
                    classes.append((n.name, None if code is _MISSING else code, None if msg is _MISSING else msg,
                                    bases[0] if bases else ''))
    c['errorClasses'] = classes
    for k in ('DEFAULT_CONTENT_TYPE', 'REQUEST_CONTENT_TYPES', 'RESPONSE_CONTENT_TYPES'):
        c[k] = _module_attr(common, k)
    for k in ('Request', 'Response', 'BatchRequest', 'BatchResponse'):
        c['version_' + k] = _class_attr(_class(v20, k), 'version')
    c['BatchRequest_strict'] = _default(_func(_class(v20, 'BatchRequest'), '__init__'), 'strict')
    c['BatchResponse_strict'] = _default(_func(_class(v20, 'BatchResponse'), '__init__'), 'strict')
    init = _func(_class(client, 'BaseAbstractClient'), '__init__')
    c['client_strict'] = _default(init, 'strict')
    c['client_id_gen_impl'] = _default(init, 'id_gen_impl')
    c['client_retry_strategy'] = _default(init, 'retry_strategy')
    c['client_error_cls'] = _default(init, 'error_cls')
    c['dispatcher_max_batch_size'] = _default(_func(_class(disp, 'Dispatcher'), '__init__'), 'max_batch_size')
    ainit = _func(_class(disp, 'AsyncDispatcher'), '__init__')
    c['async_dispatcher_max_batch_size'] = _default(ainit, 'max_batch_size')
    c['async_dispatcher_concurrent_batch'] = _default(ainit, 'concurrent_batch')
    c['method_positional'] = _default(_func(_class(disp, 'Method'), '__init__'), 'positional')
    for cls, attr in (('PeriodicBackoff', 'interval'), ('ExponentialBackoff', 'base'), ('ExponentialBackoff', 'factor'),
                      ('ExponentialBackoff', 'max_value'), ('FibonacciBackoff', 'multiplier'), ('FibonacciBackoff', 'max_value'),
                      ('RetryStrategy', 'codes'), ('RetryStrategy', 'exceptions')):
        c[f'{cls}_{attr}'] = _class_attr(_class(retry, cls), attr)
    seq = _func(gens, 'sequential') if gens is not None else None
    c['sequential_start'] = _default(seq, 'start')
    c['sequential_step'] = _default(seq, 'step')
    c['HTTP_DEFAULT_STATUS'] = _module_attr(openapi, 'HTTP_DEFAULT_STATUS')
    c['JSONRPC_MEDIATYPE'] = _module_attr(openapi, 'JSONRPC_MEDIATYPE')
    c['mocker_passthrough'] = _default(_func(_class(mocker, 'PjRpcMocker'), '__init__'), 'passthrough')
    madd = _func(_class(mocker, 'PjRpcMocker'), 'add')
    c['mocker_add_once'] = _default(madd, 'once')
    c['mocker_add_version'] = _default(madd, 'version')
    c['pydantic_coerce'] = _default(_func(_class(pyd, 'PydanticValidator'), '__init__'), 'coerce')
    return c


def _lean_str(s):
    return json.dumps(s, ensure_ascii=False)


def _lean_val(v):
    """Lean term of type `Val` (a small sum type declared in the generated file)."""
    if v is _MISSING:
        return '.missing'
    if v is None:
        return '.none'
    if v is True or v is False:
        return f'.bool {"true" if v else "false"}'
    if isinstance(v, int):
        return f'.int ({v})'
    if isinstance(v, float):
        return f'.float {_lean_str(repr(v))}'
    if isinstance(v, str):
        return f'.str {_lean_str(v)}'
    if isinstance(v, (tuple, list)) and all(isinstance(x, str) for x in v):
        return '.strs [' + ', '.join(_lean_str(x) for x in v) + ']'
    return '.missing'


def render(c):
    lines = [
        '/- GENERATED by harness/extract_constants.py from the pjrpc source tree — do not edit. -/',
        'namespace Pjrpc.Generated',
        '',
        'inductive Val where',
        '  | missing | none | bool (b : Bool) | int (i : Int) | float (repr : String) | str (s : String) | strs (xs : List String)',
        '  deriving Repr, DecidableEq',
        '',
        '/-- exceptions.py: (class name, code, message, first base), in definition order -/',
        'def errorClasses : List (String × Option Int × Option String × String) := [',
    ]
    rows = []
    for name, code, msg, base in c['errorClasses']:
        code_s = 'none' if code is None else f'some ({code})'
        msg_s = 'none' if msg is None else f'some {_lean_str(msg)}'
        rows.append(f'  ({_lean_str(name)}, {code_s}, {msg_s}, {_lean_str(base)})')
    lines.append(',\n'.join(rows))
    lines.append(']')
    lines.append('')
    for k, v in c.items():
        if k == 'errorClasses':
            continue
        lines.append(f'def {k} : Val := {_lean_val(v)}')
    lines += ['', 'end Pjrpc.Generated', '']
    return '\n'.join(lines)


def regenerate():
    text = render(extract())
    OUT.parent.mkdir(parents=True, exist_ok=True)
    if not OUT.exists() or OUT.read_text() != text:
        OUT.write_text(text)
        return True
    return False


if __name__ == '__main__':
    print(render(extract()))
