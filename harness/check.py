"""
./check <ID> --tier quick|thorough [--replay FILE]

Decision rule (DESIGN §0.5): regenerate constants, build, audit the property's theorems, run the
property's suites through implementation and model, compare the property's projection, run the
property's oracle on the implementation's observations.
exit 0: held on everything explored (KNOWN-FINDING lines allowed); exit 1: VIOLATION line(s);
exit 2: the machinery itself failed (never a VIOLATION line).
"""
from __future__ import annotations

import argparse
import collections
import importlib
import json
import os
import random
import sys
import time
import traceback

from . import core
from .core import InfraError

# property -> suites that exercise it (module names under harness/suites)
PROPS = {
    'C01': ['dispatch', 'validators'],
    'C02': ['dispatch', 'asyncsched'],
    'C03': ['dispatch', 'validators'],
    'C04': ['bind'],
    'C11': ['dispatch', 'asyncsched', 'registry', 'client', 'loopback', 'httploop'],
    'C12': ['dispatch'],
    'C15': ['registry'],
    'C07': ['loopback', 'asyncsched', 'httploop'],
    'C08': ['client', 'httploop'],
    'C09': ['client'],
    'C19': ['client'],
    'C13': ['history'],
    'C14': ['validators'],
    'C16': ['specs'],
    'C17': ['specbind'],
    'C18': ['http', 'httploop'],
    'C20': ['mocker'],
    'C10': ['asyncsched'],
    'C05': ['msg'],
    'C06': ['msg'],
}

TIME_BUDGET = {'quick': 900, 'thorough': 7200}


def _suite(name):
    return importlib.import_module(f'harness.suites.{name}')


def _safe_run_impl(s, c):
    """an exception that escapes from the library through an adapter (a place where the unchanged library never raises) is an
    observation, not a failure of the machinery"""
    try:
        return s.run_impl(c)
    except InfraError:
        raise
    except Exception as e:  # noqa
        return {'__escaped__': core.exc_name(e), 'where': traceback.format_exc()[-600:]}


def _run_impl_chunk(args):
    suite_name, cases = args
    s = _suite(suite_name)
    return [_safe_run_impl(s, c) for c in cases]


def run_impl_all(suite_name, cases, jobs):
    s = _suite(suite_name)
    if jobs <= 1 or len(cases) < 4000 or getattr(s, 'SERIAL', False):
        return [_safe_run_impl(s, c) for c in cases]
    import multiprocessing as mp
    size = max(500, (len(cases) + jobs * 4 - 1) // (jobs * 4))
    chunks = [(suite_name, cases[i:i + size]) for i in range(0, len(cases), size)]
    with mp.get_context('fork').Pool(jobs) as pool:
        outs = pool.map(_run_impl_chunk, chunks)
    return [o for chunk in outs for o in chunk]


def _agree(s, prop, c, pm, pi):
    """model projection vs implementation projection; a suite may supply its own comparison (`agree`) where the
    property does not constrain one side's behaviour (e.g. C05 says nothing about inputs that are refused)"""
    if hasattr(s, 'agree'):
        r = s.agree(prop, c, pm, pi)
        if r is not None:
            return r
    return core.matches(core.canon(pm), core.canon(pi))


def write_replay(prop, n, payload):
    core.REPLAYS.mkdir(exist_ok=True)
    p = core.REPLAYS / f'{prop}-{n}.json'
    p.write_text(json.dumps(payload, indent=1, ensure_ascii=True, default=str) + '\n')
    return p


def replay(prop, path):
    """Re-run the recorded case on the current tree and report whether it still fails."""
    payload = json.loads(open(path).read())
    case = payload.get('case')
    if not case:
        print(f'replay {path}: no executable case recorded ({payload.get("kind")}): {payload.get("what")}')
        return 1
    s = _suite(case['suite'])
    out = s.run_impl(case)
    model = core.run_driver([s.model_case(case, out) if hasattr(s, 'model_case') else case])[0]
    fs = s.oracle(prop, case, out)
    pm, pi = s.project(prop, case, model), s.project(prop, case, out)
    diff = pm is not None and not _agree(s, prop, case, pm, pi)
    print(json.dumps({'case': case, 'implementation': out, 'model': model, 'oracle': [f.to_json() for f in fs],
                      'correspondence_differs': diff}, indent=1, default=str))
    if fs or diff:
        print(f'VIOLATION property={prop} replay={path}')
        return 1
    print('replay: the recorded case no longer fails')
    return 0


def main(argv=None):
    ap = argparse.ArgumentParser()
    ap.add_argument('prop')
    ap.add_argument('--tier', default=os.environ.get('VERIF_TIER', 'quick'), choices=['quick', 'thorough'])
    ap.add_argument('--replay')
    ap.add_argument('--jobs', type=int, default=int(os.environ.get('VERIF_JOBS', '0')) or min(16, os.cpu_count() or 1))
    ap.add_argument('--no-build', action='store_true')
    args = ap.parse_args(argv)
    prop, tier = args.prop, args.tier
    seed = int(os.environ.get('VERIF_SEED', '0') or 0)
    t0 = time.time()
    if prop not in PROPS:
        print(f'unknown or unclaimed property {prop}', file=sys.stderr)
        return 2
    try:
        if args.replay:
            if not args.no_build:
                core.build()
            return replay(prop, args.replay)
        return run_check(prop, tier, seed, args.jobs, t0, build=not args.no_build)
    except InfraError as e:
        print(f'INFRASTRUCTURE ERROR (not a verdict on pjrpc): {e}', file=sys.stderr)
        return 2
    except Exception:  # noqa
        traceback.print_exc()
        print('INFRASTRUCTURE ERROR (not a verdict on pjrpc): unexpected exception in the harness', file=sys.stderr)
        return 2


def run_check(prop, tier, seed, jobs, t0, build=True):
    known = core.load_known()
    if core.REPLAYS.exists():
        for old in core.REPLAYS.glob(f'{prop}-*.json'):
            old.unlink()
    # ---- 1. proof obligations ------------------------------------------------------------------
    lib_ok, build_out = core.build() if build else (True, '')
    scan_hits = core.source_scan()
    aud = core.audit(prop)
    obligations = len(aud)
    broken = {t: a for t, a in aud.items() if not a['ok']}
    if scan_hits:
        broken['<source-scan>'] = {'ok': False, 'why': 'forbidden construct in Lean sources: ' + '; '.join(scan_hits[:5])}
    checker_note = 'not run (quick tier)'
    if tier == 'thorough' and build:
        ok, out = core.leanchecker(prop)
        checker_note = 'ok' if ok else 'FAILED'
        if not ok:
            broken['<leanchecker>'] = {'ok': False, 'why': 'leanchecker rejected the compiled modules: ' + out[-300:]}
    discharged = obligations - len([t for t in broken if not t.startswith('<')])
    if obligations == 0:
        raise InfraError(f'no obligations listed for {prop} in lean/obligations.json')

    # ---- 2. correspondence + oracle ------------------------------------------------------------
    evaluations = 0
    labels = collections.Counter()
    distinct = set()
    samples = []
    diffs = []          # correspondence disagreements (projection of this property)
    findings = []       # oracle violations on the real code
    per_suite = {}
    drift = core.source_drift()
    # the library differs from the tree the model was compared with: explore more of the sampled part of every suite
    extra_seeds = [seed + 1000 * k for k in (1, 2)] if (drift and tier == 'quick') else []
    for suite_name in PROPS[prop]:
        s = _suite(suite_name)
        rng = random.Random(f'{seed}/{suite_name}/{prop}')
        cases = list(s.corpus()) if hasattr(s, 'corpus') else []
        cases += list(s.generate(tier, rng))
        if extra_seeds:
            seen = {json.dumps(c, sort_keys=True) for c in cases}
            for es in extra_seeds:
                for c in s.generate(tier, random.Random(f'{es}/{suite_name}/{prop}')):
                    k = json.dumps(c, sort_keys=True)
                    if k not in seen:
                        seen.add(k)
                        cases.append(c)
        if hasattr(s, 'relevant'):
            cases = [c for c in cases if s.relevant(prop, c)]
        impl_outs = run_impl_all(suite_name, cases, jobs)
        # cases in which an exception escaped from the library through the adapter: a finding by themselves
        escaped = [(c, io) for c, io in zip(cases, impl_outs) if isinstance(io, dict) and '__escaped__' in io]
        for c, io in escaped[:50]:
            findings.append(core.Finding(prop, f'escaped:{io["__escaped__"]}', f'{io["__escaped__"]} escaped from the library where the unchanged '
                                                                              f'library never raises: {io["where"][-200:]}', c, io))
            diffs.append({'suite': suite_name, 'case': c, 'model': None, 'implementation': io})
        keep = [i for i, io in enumerate(impl_outs) if not (isinstance(io, dict) and '__escaped__' in io)]
        cases = [cases[i] for i in keep]
        impl_outs = [impl_outs[i] for i in keep]
        model_cases = [s.model_case(c, io) for c, io in zip(cases, impl_outs)] if hasattr(s, 'model_case') else cases
        model_outs = core.run_driver_sharded(model_cases, jobs)
        n_rel = 0
        for c, io, mo in zip(cases, impl_outs, model_outs):
            pm = s.project(prop, c, mo)
            if pm is None:
                continue
            n_rel += 1
            evaluations += 1
            lab = s.label(c, mo)
            labels[f'{suite_name}:{lab}'] += 1
            key = json.dumps(c, sort_keys=True)
            if lab and not lab.startswith('trivial'):
                distinct.add(hash(key))
            if len(samples) < 6 and labels[f'{suite_name}:{lab}'] == 1:
                samples.append({'case': c, 'model': mo, 'implementation': io})
            region = s.region(prop, c) if hasattr(s, 'region') else None
            if region is None:
                pi = s.project(prop, c, io)
                if not _agree(s, prop, c, pm, pi):
                    diffs.append({'suite': suite_name, 'case': c, 'model': pm, 'implementation': pi})
            findings += s.oracle(prop, c, io)
        per_suite[suite_name] = n_rel
        if time.time() - t0 > TIME_BUDGET[tier]:
            raise InfraError('time budget exceeded')

    # ---- 3. failing-input search when an obligation or the correspondence broke ---------------
    searched = 0
    t_search = time.time()            # one time box for the whole search (60 s quick / 600 s thorough)
    if (broken or diffs) and not [f for f in findings if (f.prop, f.key) not in known]:
        # suites whose correspondence broke are searched first
        order = sorted(PROPS[prop], key=lambda n: 0 if any(d['suite'] == n for d in diffs) else 1)
        for suite_name in order:
            s = _suite(suite_name)
            rng = random.Random(f'{seed}/search/{suite_name}/{prop}')
            extra = []
            if hasattr(s, 'neighbourhood'):
                for d in diffs[:20]:
                    extra += list(s.neighbourhood(d['case'], rng))
            if tier == 'quick':
                extra += [c for c in s.generate('thorough', rng)][:200000]
            for c in extra:
                if time.time() - t_search > (60 if tier == 'quick' else 600):
                    break
                if hasattr(s, 'relevant') and not s.relevant(prop, c):
                    continue
                try:
                    io = s.run_impl(c)
                except InfraError:
                    continue
                searched += 1
                fs = [f for f in s.oracle(prop, c, io) if (f.prop, f.key) not in known]
                if fs:
                    findings += fs
                    break
            if [f for f in findings if (f.prop, f.key) not in known]:
                break

    # ---- 4. verdict ------------------------------------------------------------------------------
    new = [f for f in findings if (f.prop, f.key) not in known]
    old = [f for f in findings if (f.prop, f.key) in known]
    seen_known = collections.OrderedDict()
    for f in old:
        seen_known.setdefault(f.key, f)
    for key, f in seen_known.items():
        print(f'KNOWN-FINDING: property={prop} {key}: {known[(prop, key)]}')
    lines = []
    nrep = 0
    if new:
        by_key = collections.OrderedDict()
        for f in new:
            by_key.setdefault(f.key, f)
        for key, f in list(by_key.items())[:5]:
            nrep += 1
            p = write_replay(prop, nrep, {'kind': 'failing-input', 'property': prop, 'key': key, 'what': f.what,
                                          'case': f.case, 'observed': f.observed, 'expected': f.expected,
                                          'broken_obligations': sorted(broken), 'correspondence_disagreements': len(diffs)})
            lines.append(f'VIOLATION property={prop} replay={p}')
    elif broken or diffs:
        nrep += 1
        what = []
        if broken:
            what.append('proof obligations no longer check: ' + ', '.join(f'{t} ({a.get("why", "")})' for t, a in sorted(broken.items())))
        if diffs:
            what.append(f'correspondence of suite {diffs[0]["suite"]} broke on {len(diffs)} case(s)')
        p = write_replay(prop, nrep, {'kind': 'no-failing-input-found', 'property': prop, 'what': '; '.join(what),
                                      'theorems': sorted(broken), 'case': diffs[0]['case'] if diffs else None,
                                      'disagreements': diffs[:5], 'searched_inputs': searched,
                                      'build_output_tail': build_out[-1500:] if not lib_ok else ''})
        lines.append(f'VIOLATION property={prop} replay={p} no-failing-input-found')

    wall = time.time() - t0
    coverage = {
        'obligations': obligations,
        'discharged': discharged,
        'checker_cmd': 'cd lean && lake build PjrpcModel && lake env lean Audit/<property>_<module>.lean  (#print axioms per theorem)',
        'trusted_base': core.TRUSTED_BASE,
        'leanchecker': checker_note,
        'theorems': {t: {'axioms': a.get('axioms', []), 'ok': a['ok'], 'module': a.get('module')} for t, a in aud.items()},
        'evaluations': evaluations,
        'distinct_nontrivial': len(distinct),
        'rule': 'cases are enumerated from the per-member product alphabets named in the property (exhaustive where finite) '
                'plus seeded random payloads; a case counts as distinct by its canonical JSON text and as non-trivial when the '
                "model labels its path with a branch other than 'trivial'",
        'samples': samples,
        'traces_validated_against_impl': evaluations - len(diffs),
        'correspondence_disagreements': len(diffs),
        'branch_histogram': dict(labels.most_common(60)),
        'cases_per_suite': per_suite,
        'source_drift': {'changed_files': drift, 'extra_seeds': extra_seeds,
                         'note': 'library files whose syntax tree differs from lean/source_fingerprint.json; not a verdict, it widens the exploration'},
        'search': {'oracle_evaluations': evaluations + searched, 'findings_known': sorted(seen_known), 'findings_new': len(new)},
        'exhaustive': False,
    }
    core.write_evidence(prop, tier, seed, wall, coverage, len(lines))
    for l in lines:
        print(l)
    print(f'{prop} {tier}: obligations {discharged}/{obligations}, {evaluations} cases, {len(diffs)} disagreements, '
          f'{len(new)} new / {len(seen_known)} known findings, {wall:.1f}s')
    return 1 if lines else 0


if __name__ == '__main__':
    rc = main()
    sys.stdout.flush()
    sys.stderr.flush()
    os._exit(rc)          # no interpreter teardown: the frameworks' test servers / sessions print noise from __del__ otherwise
