"""
Adapters for the client half: real sync / async clients whose transport follows a script (or loops
back into a real dispatcher), recording tracers, captured sleeps.
"""
from __future__ import annotations

import asyncio
import json
import re
import struct
from types import SimpleNamespace
from unittest import mock

from pjrpc.client.tracer import LoggingTracer
from . import core
from .core import enc, dec
from . import userclasses as U
from . import impl_server as S

import pjrpc
from pjrpc.client import AbstractClient, AbstractAsyncClient, retry as retry_mod
from pjrpc.client.tracer import Tracer
from pjrpc.common import UNSET


class ConnErr(ConnectionError):
    pass


class SubConnErr(ConnErr):
    pass


class TimeoutErr(TimeoutError):
    pass


class Cancel(BaseException):
    """stands for cancellation / KeyboardInterrupt: not an Exception"""


EXC = {c.__name__: c for c in (ConnErr, SubConnErr, TimeoutErr, Cancel, ValueError, RuntimeError, KeyError, asyncio.CancelledError,
                                KeyboardInterrupt)}
LISTABLE = {c.__name__: c for c in (ConnErr, ConnectionError, OSError, TimeoutError, ValueError, Exception, pjrpc.exc.BaseError,
                                    pjrpc.exc.IdentityError, TimeoutErr, SubConnErr, TypeError)}


def mro_names(cls):
    return [c.__name__ for c in cls.__mro__ if c is not object]


MROS = [[n, mro_names(c)] for n, c in EXC.items()]


def f2bits(x: float) -> str:
    return str(struct.unpack('<Q', struct.pack('<d', float(x)))[0])


def bits2f(s: str) -> float:
    return struct.unpack('<d', struct.pack('<Q', int(s)))[0]


def enc_id(i):
    return None if i is None else enc(i)


def enc_error(e):
    return {'code': str(e.code), 'message': e.message, 'data': None if e.data is UNSET else {'v': enc(e.data)}, 'cls': type(e).__name__}


def enc_response(r):
    return {'id': enc_id(r.id), 'result': None if r._result is UNSET else {'v': enc(r._result)},
            'error': None if r._error is UNSET else {'v': enc_error(r._error)}}


def enc_any_response(r):
    if r is None:
        return None
    if isinstance(r, pjrpc.BatchResponse):
        return {'batch': {'responses': [enc_response(x) for x in r], 'error': None if r.error is UNSET else {'v': enc_error(r.error)}}}
    return {'single': enc_response(r)}


def enc_exc(e):
    if isinstance(e, pjrpc.exc.JsonRpcError):
        return {'rpc': enc_error(e)}
    return {'exc': core.exc_name(e)}


def build_request(spec):
    p = spec['params']
    if p['k'] == 'none':
        params = None
    else:
        params = dec(p['v'])
        if p['k'] == 'pos' and spec.get('tuple'):
            params = tuple(params)
    return pjrpc.Request(spec['method'], params, None if spec['id'] is None else dec(spec['id']))


class RecTracer(Tracer):
    def __init__(self, idx, log, ctxs, supplied):
        self.idx, self.log, self.ctxs, self.supplied = idx, log, ctxs, supplied

    def _ctx(self, ctx):
        if self.supplied is not None and ctx is self.supplied:
            return '0'
        for i, c in enumerate(self.ctxs):
            if c is ctx:
                return str(i + 1)
        self.ctxs.append(ctx)         # keeps the object alive: identities are never reused
        return str(len(self.ctxs))

    def on_request_begin(self, trace_context, request):
        self.log.append({'t': str(self.idx), 'ctx': self._ctx(trace_context), 'k': 'begin'})

    def on_request_end(self, trace_context, request, response):
        self.log.append({'t': str(self.idx), 'ctx': self._ctx(trace_context), 'k': 'end', 'resp': enc_any_response(response)})

    def on_error(self, trace_context, request, error):
        self.log.append({'t': str(self.idx), 'ctx': self._ctx(trace_context), 'k': 'error', 'exc': enc_exc(error)})
        ERROR_ATTEMPTS.append(attempt_of(error))


class TracerFailure(Exception):
    pass


class RaisingTracer(Tracer):
    """configured LAST: its completion hook raises (an exporter whose sink is down).  The tracers before it have all been
    told by then; whatever the library does with the failure, none of them may be told a second time."""

    def on_request_end(self, trace_context, request, response):
        raise TracerFailure('the tracer itself failed')


ERROR_ATTEMPTS = []       # for every on_error event, in order: which attempt's exception object it was given (None: not a scripted one)


def attempt_of(e):
    """the scripted transport exceptions carry the number of the attempt that raised them"""
    m = re.search(r'marker #(\d+)$', str(e.args[0])) if getattr(e, 'args', None) and isinstance(e.args[0], str) else None
    return int(m.group(1)) if m else None


class _Script:
    def __init__(self, attempts):
        self.attempts, self.k, self.sent = attempts, 0, []

    def next(self, text):
        self.sent.append(text)
        a = self.attempts[min(self.k, len(self.attempts) - 1)]
        self.k += 1
        if a['k'] == 'exc':
            raise EXC[a['name']](f'transport failure marker #{self.k - 1}')
        if a['k'] == 'none':
            return None
        if a['k'] == 'empty':
            return ''
        return a['text']


class ScriptClient(AbstractClient):
    def __init__(self, script, **kw):
        super().__init__(**kw)
        self.script = script

    def _request(self, request_text, is_notification=False, **kwargs):
        return self.script.next(request_text)


class AsyncScriptClient(AbstractAsyncClient):
    def __init__(self, script, **kw):
        super().__init__(**kw)
        self.script = script

    async def _request(self, request_text, is_notification=False, **kwargs):
        return self.script.next(request_text)


def make_backoff(b):
    jit = [bits2f(x) for x in b['jitter']]
    calls = {'n': 0}

    def jitter():
        v = jit[calls['n']] if calls['n'] < len(jit) else 0.0
        calls['n'] += 1
        return v
    n = int(b['attempts'])
    if b['k'] == 'periodic':
        return retry_mod.PeriodicBackoff(attempts=n, jitter=jitter, interval=bits2f(b['interval']))
    if b['k'] == 'exponential':
        return retry_mod.ExponentialBackoff(attempts=n, jitter=jitter, base=bits2f(b['base']), factor=bits2f(b['factor']),
                                            max_value=None if b.get('max') is None else bits2f(b['max']))
    return retry_mod.FibonacciBackoff(attempts=n, jitter=jitter, multiplier=bits2f(b['multiplier']),
                                      max_value=None if b.get('max') is None else bits2f(b['max']))


def make_strategy(s):
    if s is None:
        return None
    codes = None if s.get('codes') is None else {int(c) for c in s['codes']}
    if s.get('codes_kind') == 'empty':
        codes = set()
    excs = None if s.get('excs') is None else {LISTABLE[n] for n in s['excs']}
    return retry_mod.RetryStrategy(backoff=make_backoff(s['backoff']), codes=codes, exceptions=excs)


def client_kwargs(cl):
    kw = {'strict': cl['strict']}
    if cl.get('error_cls'):
        kw['error_cls'] = U.BY_NAME[cl['error_cls']['name']]
    return kw


_SESSIONS = {}


class _OverlapTracer(Tracer):
    def __init__(self, idx, log):
        self.idx, self.log = idx, log

    def on_request_begin(self, trace_context, request):
        self.log.append((getattr(trace_context, 'i', None), {'t': str(self.idx), 'ctx': '0', 'k': 'begin'}))

    def on_request_end(self, trace_context, request, response):
        self.log.append((getattr(trace_context, 'i', None), {'t': str(self.idx), 'ctx': '0', 'k': 'end', 'resp': enc_any_response(response)}))

    def on_error(self, trace_context, request, error):
        self.log.append((getattr(trace_context, 'i', None), {'t': str(self.idx), 'ctx': '0', 'k': 'error', 'exc': enc_exc(error)}))


def run_overlap(c, is_async):
    """`n` identical requests whose attempts are all in flight at the same time on ONE client object (tasks gathered on the
    asynchronous client, threads on the synchronous one): every transport call starts before any of them returns.  Returns
    the per-request observations; each must look exactly like the lone request the model is given."""
    import threading
    cl, n = c['client'], int(c['overlap']['n'])
    a = c['attempts'][0]
    log = []
    kw = client_kwargs(cl)
    kw['tracers'] = [_OverlapTracer(i, log) for i in range(int(cl['tracers']))]

    def reply():
        if a['k'] == 'exc':
            raise EXC[a['name']]('transport failure marker #0')
        return None if a['k'] == 'none' else ('' if a['k'] == 'empty' else a['text'])
    request = build_request(c['request']['req'])
    finals = [None] * n
    if is_async:
        state = {'in': 0, 'ev': None}

        class C(AbstractAsyncClient):
            async def _request(self, request_text, is_notification=False, **kwargs):
                state['in'] += 1
                if state['in'] == n:
                    state['ev'].set()
                await state['ev'].wait()
                return reply()
        client = C(**kw)

        async def one(i):
            try:
                r = await client.send(build_request(c['request']['req']), _trace_ctx=SimpleNamespace(i=i))
                finals[i] = {'resp': enc_any_response(r)}
            except BaseException as e:  # noqa
                finals[i] = {'raised': enc_exc(e)}

        async def go():
            state['ev'] = asyncio.Event()
            await asyncio.gather(*[one(i) for i in range(n)])
        S.loop().run_until_complete(go())
    else:
        barrier = threading.Barrier(n)

        class C(AbstractClient):
            def _request(self, request_text, is_notification=False, **kwargs):
                barrier.wait(timeout=10)
                return reply()
        client = C(**kw)

        def one(i):
            try:
                r = client.send(build_request(c['request']['req']), _trace_ctx=SimpleNamespace(i=i))
                finals[i] = {'resp': enc_any_response(r)}
            except BaseException as e:  # noqa
                finals[i] = {'raised': enc_exc(e)}
        ts = [threading.Thread(target=one, args=(i,)) for i in range(n)]
        for t in ts:
            t.start()
        for t in ts:
            t.join(20)
    per = [{'trace': [ev for (i, ev) in log if i == k], 'final': finals[k]} for k in range(n)]
    return {'overlap': per, 'stray': [ev for (i, ev) in log if i is None]}


def _fixed_ids(request_specs):
    ids = [dec(r['id']) for r in request_specs if r['id'] is not None]
    return lambda: iter(ids)


def _args_of(spec):
    p = spec['params']
    if p['k'] == 'none':
        return (), {}
    v = dec(p['v'])
    return (tuple(v), {}) if p['k'] == 'pos' else ((), v)


def value_via_call(c, is_async):
    """the same exchange through the public call notations: `client.call(...)` for a single call, `batch.add/notify ...;
    batch.call()` for a batch (optionally grown in two steps on one batch object, `regrow`)"""
    cl = c['client']
    req = c['request']
    specs = [req['req']] if req['kind'] == 'single' else req['reqs']
    kw = client_kwargs(cl)
    kw['id_gen_impl'] = _fixed_ids(specs)
    script = _Script(c['attempts'])
    client = (AsyncScriptClient if is_async else ScriptClient)(script, **kw)

    def run(x):
        return S.loop().run_until_complete(x) if is_async else x
    try:
        if req['kind'] == 'single':
            a, k = _args_of(specs[0])
            if specs[0]['id'] is None:
                return {'nothing': True} if run(client.notify(specs[0]['method'], *a, **k)) is None else {'value': 'not-none'}
            return {'value': enc(run(client.call(specs[0]['method'], *a, **k)))}
        b = client.batch
        first_n = (c.get('regrow') or {}).get('first_n')
        for i, sp in enumerate(specs):
            if first_n is not None and i == first_n:
                # first round: the calls made so far, answered in order
                ids = [dec(x['id']) for x in specs[:first_n] if x['id'] is not None]
                client.script = _Script([{'k': 'text', 'text': json.dumps([{'jsonrpc': '2.0', 'id': j, 'result': 'first'} for j in ids])}])
                run(b.call())
                client.script = script
            a, k = _args_of(sp)
            (b.notify if sp['id'] is None else b.add)(sp['method'], *a, **k)
        v = run(b.call())
        return {'nothing': True} if v is None else {'tuple': [enc(x) for x in v]}
    except BaseException as e:  # noqa
        return {'raised': enc_exc(e)}


def run_send(c, is_async):
    """one `send` / `call` through a real client; returns the observation in the driver's shape"""
    cl = c['client']
    script = _Script(c['attempts'])
    trace, ctxs = [], []
    supplied = SimpleNamespace() if cl['caller_ctx'] else None
    tracers = [RecTracer(i, trace, ctxs, supplied) for i in range(int(cl['tracers']))]
    kw = client_kwargs(cl)
    kw['tracers'] = ([LoggingTracer()] if cl.get('logging_tracer') else []) + tracers + ([RaisingTracer()] if cl.get('raising_tracer') else [])
    kw['retry_strategy'] = make_strategy(cl.get('retry'))
    sess = c.get('session')
    if sess is not None and (sess, is_async) in _SESSIONS:
        # a later request of a session: the *same* client object (and its retry strategy) serves it
        client = _SESSIONS[(sess, is_async)]
        client.script = script
    else:
        client = (AsyncScriptClient if is_async else ScriptClient)(script, **kw)
        if sess is not None:
            _SESSIONS[(sess, is_async)] = client
    send_kw = {}
    if 'req_retry' in c:
        send_kw['_retry_strategy'] = make_strategy(c['req_retry'])
    if supplied is not None:
        send_kw['_trace_ctx'] = supplied
    sleeps = []
    req = c['request']
    single = req['kind'] == 'single'
    if single:
        request = build_request(req['req'])
    else:
        request = pjrpc.BatchRequest(*[build_request(r) for r in req['reqs']])

    def fake_sleep(d):
        sleeps.append(f2bits(d))

    async def fake_asleep(d):
        sleeps.append(f2bits(d))

    final = None
    related = None
    del ERROR_ATTEMPTS[:]
    raised_attempt = None
    try:
        if is_async:
            with mock.patch.object(retry_mod.asyncio, 'sleep', fake_asleep):
                coro = client.send(request, **send_kw) if single else client.batch.send(request, **send_kw)
                resp = S.loop().run_until_complete(coro)
        else:
            with mock.patch.object(retry_mod.time, 'sleep', fake_sleep):
                resp = client.send(request, **send_kw) if single else client.batch.send(request, **send_kw)
        final = {'resp': enc_any_response(resp)}
        if resp is None:
            related = None
        elif single:
            related = [enc_id(resp.related.id)] if resp.related is not None else [None]
        elif resp.is_error:
            related = None
        else:
            related = [enc_id(r.related.id) if r.related is not None else None for r in resp]
        # the value handed to the caller by call() / batch.call()
        try:
            if resp is None:
                if c['call']:
                    raise AssertionError('response is not set')
                value = {'nothing': True}
            elif single:
                value = {'value': enc(resp.result)}
            else:
                value = {'tuple': [enc(v) for v in resp.result]}
        except BaseException as e:  # noqa
            value = {'raised': enc_exc(e)}
    except BaseException as e:  # noqa
        final = {'raised': enc_exc(e)}
        value = {'raised': enc_exc(e)}
        raised_attempt = attempt_of(e)
    wire = None
    if script.sent:
        wire = enc(json.loads(script.sent[0]))
    same_doc = all(json.loads(t) == json.loads(script.sent[0]) for t in script.sent)
    out = {'wire': wire, 'sends': str(len(script.sent)), 'sleeps': sleeps, 'final': final, 'value': value, 'related': related,
           'trace': trace, 'same_doc_each_attempt': same_doc,
           # identity of exception objects (not part of any projection; read by the oracles only)
           'raised_attempt': raised_attempt, 'error_event_attempts': list(ERROR_ATTEMPTS)}
    if c.get('tag') == 'relate':
        out['value_call'] = value_via_call(c, is_async)
    if c.get('tag') == 'trace' and single and req['req']['id'] is not None and supplied is not None and not c.get('session') \
            and 'req_retry' not in c and not c.get('overlap'):
        out['trace_dunder'] = trace_via_dunder(c, is_async)
    return out


def trace_via_dunder(c, is_async):
    """the same single call through the call-operator form `client(method, *args, _trace_ctx=ctx)`"""
    cl = c['client']
    spec = c['request']['req']
    script = _Script(c['attempts'])
    trace, ctxs = [], []
    supplied = SimpleNamespace()
    kw = client_kwargs(cl)
    kw['tracers'] = [RecTracer(i, trace, ctxs, supplied) for i in range(int(cl['tracers']))]
    kw['retry_strategy'] = make_strategy(cl.get('retry'))
    kw['id_gen_impl'] = _fixed_ids([spec] * 8)
    client = (AsyncScriptClient if is_async else ScriptClient)(script, **kw)
    a, k = _args_of(spec)
    sleeps = []

    async def fake_asleep(d):
        sleeps.append(d)
    try:
        if is_async:
            with mock.patch.object(retry_mod.asyncio, 'sleep', fake_asleep):
                S.loop().run_until_complete(client(spec['method'], *a, _trace_ctx=supplied, **k))
        else:
            with mock.patch.object(retry_mod.time, 'sleep', sleeps.append):
                client(spec['method'], *a, _trace_ctx=supplied, **k)
    except BaseException:  # noqa: the outcome is compared elsewhere; here only what the tracers were told
        pass
    return trace
