"""
Harness core: paths, tagged JSON encoding, model driver, canonical comparison, known findings,
evidence, build + axiom audit.  Everything here is trusted glue (DESIGN §2).
"""
from __future__ import annotations

import contextlib
import fcntl
import hashlib
import json
import os
import re
import subprocess
import sys
import time
from pathlib import Path

VERIF = Path(__file__).resolve().parent.parent
REPO = Path(os.environ.get('PJRPC_REPO', '/repo'))
LEAN = VERIF / 'lean'
DRIVER = LEAN / '.lake' / 'build' / 'bin' / 'driver'
CACHE = VERIF / '.cache'
REPLAYS = VERIF / 'replays'
EVIDENCE = VERIF / 'evidence'
KNOWN = VERIF / 'KNOWN_FINDINGS.txt'
GUARD = 'PJRPC_VERIF'

ALLOWED_AXIOMS = {'propext', 'Classical.choice', 'Quot.sound'}

# the real code, from the working tree under test (never an installed copy)
if str(REPO) not in sys.path:
    sys.path.insert(0, str(REPO))
os.environ.setdefault(GUARD, '1')

import logging  # noqa: E402
logging.disable(logging.CRITICAL)   # pjrpc logs every handled exception; the checks observe return values


class InfraError(Exception):
    """Something in the machinery (not in pjrpc) failed: exit 2, never a VIOLATION line."""


# ------------------------------------------------------------------------------------------------
# tagged encoding of modelled JSON values
# ------------------------------------------------------------------------------------------------

class Opaque:
    """A non-JSON Python object seen in an implementation output (never sent to the model)."""

    def __init__(self, name):
        self.name = name


def enc(v):
    if v is None:
        return ['n']
    if v is True or v is False:
        return ['b', v]
    if isinstance(v, int):
        return ['i', str(v)]
    if isinstance(v, float):
        return ['f', repr(v)]
    if isinstance(v, str):
        return ['s', v]
    if isinstance(v, (list, tuple)):
        return ['a', [enc(x) for x in v]]
    if isinstance(v, dict):
        return ['o', [[k if isinstance(k, str) else f'<nonstr:{k!r}>', enc(x)] for k, x in v.items()]]
    return ['x', type(v).__name__]


def dec(t):
    tag = t[0]
    if tag == 'n':
        return None
    if tag == 'b':
        return bool(t[1])
    if tag == 'i':
        return int(t[1])
    if tag == 'f':
        return float(t[1])
    if tag == 's':
        return t[1]
    if tag == 'a':
        return [dec(x) for x in t[1]]
    if tag == 'o':
        return {k: dec(x) for k, x in t[1]}
    raise ValueError(f'bad tagged value {t!r}')


TEXT = '<text>'   # model-side wildcard: library-generated free text, compared only as "is a string"


def canon(x):
    """Canonical form for comparison: tagged objects get their members sorted by key; plain dicts are
    compared as dicts (key order irrelevant) anyway."""
    if isinstance(x, dict):
        return {k: canon(v) for k, v in x.items()}
    if isinstance(x, list):
        if len(x) == 2 and x[0] == 'o' and isinstance(x[1], list) and all(
                isinstance(p, list) and len(p) == 2 and isinstance(p[0], str) for p in x[1]):
            return ['o', sorted(([k, canon(v)] for k, v in x[1]), key=lambda p: p[0])]
        return [canon(v) for v in x]
    return x


def matches(model, impl):
    """Structural equality, except that the model's wildcard text matches any implementation string."""
    if model == ['s', TEXT]:
        return isinstance(impl, list) and len(impl) == 2 and impl[0] == 's'
    if model == TEXT:
        return isinstance(impl, str)
    if isinstance(model, dict):
        return isinstance(impl, dict) and model.keys() == impl.keys() and all(matches(model[k], impl[k]) for k in model)
    if isinstance(model, list):
        return isinstance(impl, list) and len(model) == len(impl) and all(matches(a, b) for a, b in zip(model, impl))
    return type(model) is type(impl) and model == impl


def exc_name(e: BaseException) -> str:
    return type(e).__name__


# ------------------------------------------------------------------------------------------------
# model driver
# ------------------------------------------------------------------------------------------------

def run_driver(cases):
    """Pipe the cases (one JSON object per line) through the compiled model driver."""
    if not cases:
        return []
    if not DRIVER.exists():
        raise InfraError(f'model driver not built: {DRIVER}')
    data = '\n'.join(json.dumps(c, ensure_ascii=True, separators=(',', ':')) for c in cases) + '\n'
    p = subprocess.run([str(DRIVER)], input=data.encode(), stdout=subprocess.PIPE, stderr=subprocess.PIPE)
    if p.returncode != 0:
        raise InfraError(f'driver exited {p.returncode}: {p.stderr.decode(errors="replace")[:2000]}')
    lines = p.stdout.decode().splitlines()
    if len(lines) != len(cases):
        raise InfraError(f'driver returned {len(lines)} lines for {len(cases)} cases: {p.stderr.decode(errors="replace")[:500]}')
    outs = [json.loads(l) for l in lines]
    for c, o in zip(cases, outs):
        if isinstance(o, dict) and 'driver_error' in o:
            raise InfraError(f'driver could not evaluate case: {o["driver_error"]} case={json.dumps(c)[:600]}')
    return outs


def run_driver_sharded(cases, jobs=1):
    if jobs <= 1 or len(cases) < 2000:
        return run_driver(cases)
    from concurrent.futures import ThreadPoolExecutor
    n = len(cases)
    size = (n + jobs - 1) // jobs
    chunks = [cases[i:i + size] for i in range(0, n, size)]
    with ThreadPoolExecutor(max_workers=jobs) as ex:
        outs = list(ex.map(run_driver, chunks))
    return [o for chunk in outs for o in chunk]


# ------------------------------------------------------------------------------------------------
# known findings
# ------------------------------------------------------------------------------------------------

def load_known():
    """finding: property=C04 key=<key> <what fails>   /   fixed: property=C01 <commit> <what failed>"""
    findings = {}
    if KNOWN.exists():
        for line in KNOWN.read_text().splitlines():
            line = line.strip()
            m = re.match(r'finding:\s+property=(C\d+)\s+key=(\S+)\s+(.*)$', line)
            if m:
                findings[(m.group(1), m.group(2))] = m.group(3)
    return findings


class Finding:
    """An oracle violation observed on the real code."""

    def __init__(self, prop, key, what, case, observed=None, expected=None):
        self.prop, self.key, self.what, self.case = prop, key, what, case
        self.observed, self.expected = observed, expected

    def to_json(self):
        return {'property': self.prop, 'key': self.key, 'what': self.what, 'case': self.case,
                'observed': self.observed, 'expected': self.expected}


# ------------------------------------------------------------------------------------------------
# build + audit
# ------------------------------------------------------------------------------------------------

@contextlib.contextmanager
def flock(path: Path):
    path.parent.mkdir(parents=True, exist_ok=True)
    with open(path, 'w') as f:
        fcntl.flock(f, fcntl.LOCK_EX)
        try:
            yield
        finally:
            fcntl.flock(f, fcntl.LOCK_UN)


def _run(cmd, cwd=None, timeout=3600):
    return subprocess.run(cmd, cwd=cwd, stdout=subprocess.PIPE, stderr=subprocess.STDOUT, timeout=timeout, text=True)


def build(log=None):
    """Regenerate the constants module from the source, build the driver (must succeed) and the proof
    library (may fail: a failing module is a broken proof obligation, reported by the caller).
    Returns (ok_lib: bool, output: str)."""
    from . import extract_constants
    with flock(CACHE / 'lake.lock'):
        extract_constants.regenerate()
        r = _run(['lake', 'build', 'driver'], cwd=LEAN)
        if r.returncode != 0:
            raise InfraError('lake build driver failed:\n' + r.stdout[-3000:])
        r = _run(['lake', 'build', 'PjrpcModel'], cwd=LEAN)
        return r.returncode == 0, r.stdout


FORBIDDEN = re.compile(r'\bsorry\b|\badmit\b|^\s*axiom\s|native_decide|bv_decide|implemented_by|\bunsafe\s|maxHeartbeats\s+0')


def strip_comments(src: str) -> str:
    out, i, depth = [], 0, 0
    while i < len(src):
        if src.startswith('/-', i):
            depth += 1
            i += 2
        elif depth and src.startswith('-/', i):
            depth -= 1
            i += 2
        elif depth:
            if src[i] == '\n':
                out.append('\n')
            i += 1
        elif src.startswith('--', i):
            while i < len(src) and src[i] != '\n':
                i += 1
        else:
            out.append(src[i])
            i += 1
    return ''.join(out)


def source_scan():
    """grep the Lean sources (comments stripped) for constructs that would void the proofs."""
    hits = []
    for p in sorted(LEAN.rglob('*.lean')):
        if '.lake' in p.parts or p.parts[-2:-1] == ('Audit',):
            continue
        code = strip_comments(p.read_text())
        for n, line in enumerate(code.splitlines(), 1):
            if FORBIDDEN.search(line):
                hits.append(f'{p.relative_to(LEAN)}:{n}: {line.strip()[:120]}')
    return hits


def obligations():
    return json.loads((LEAN / 'obligations.json').read_text())


# ------------------------------------------------------------------------------------------------
# source drift: which library files differ (as programs, not as text) from the tree the model was written against
# ------------------------------------------------------------------------------------------------

FINGERPRINT = LEAN / 'source_fingerprint.json'


def _ast_hash(path):
    import ast
    import hashlib
    tree = ast.parse(path.read_text())
    for node in ast.walk(tree):          # docstrings and comments are not behaviour
        body = getattr(node, 'body', None)
        if isinstance(body, list) and body and isinstance(body[0], ast.Expr) and isinstance(getattr(body[0], 'value', None), ast.Constant) \
                and isinstance(body[0].value.value, str):
            body[0].value.value = ''
    return hashlib.sha256(ast.dump(tree, include_attributes=False).encode()).hexdigest()[:16]


def source_fingerprint():
    out = {}
    for p in sorted((REPO / 'pjrpc').rglob('*.py')):
        try:
            out[str(p.relative_to(REPO))] = _ast_hash(p)
        except SyntaxError:
            out[str(p.relative_to(REPO))] = 'syntax-error'
    return out


def source_drift():
    """files whose abstract syntax differs from the recorded fingerprint (the tree the hand-written model was last
    compared with).  Drift is not a verdict: it makes the check explore more (extra seeds) and is recorded in the evidence."""
    if not FINGERPRINT.exists():
        return []
    base = json.loads(FINGERPRINT.read_text())
    now = source_fingerprint()
    return sorted(f for f in set(base) | set(now) if base.get(f) != now.get(f))


def audit(prop: str):
    """`#print axioms` for every theorem listed for the property.  Returns
    {theorem: {'ok': bool, 'axioms': [...], 'why': str}}."""
    obl = obligations().get(prop, [])
    by_module = {}
    for o in obl:
        by_module.setdefault(o['module'], []).append(o['theorem'])
    result = {}
    audit_dir = LEAN / 'Audit'
    audit_dir.mkdir(exist_ok=True)
    for module, thms in by_module.items():
        src = f'import {module}\nopen Pjrpc\n' + ''.join(f'#print axioms {t}\n' for t in thms)
        olean = LEAN / '.lake' / 'build' / 'lib' / 'lean' / (module.replace('.', '/') + '.olean')
        key = hashlib.sha256(src.encode() + (olean.read_bytes() if olean.exists() else b'missing')).hexdigest()
        cache_file = CACHE / 'audit' / f'{prop}-{module}-{key[:24]}.txt'
        if cache_file.exists():
            out = cache_file.read_text()
        else:
            f = audit_dir / f'{prop}_{module.split(".")[-1]}.lean'
            f.write_text(src)
            with flock(CACHE / 'lake.lock'):
                r = _run(['lake', 'env', 'lean', str(f.relative_to(LEAN))], cwd=LEAN)
            out = r.stdout
            if olean.exists() and r.returncode == 0:
                cache_file.parent.mkdir(parents=True, exist_ok=True)
                cache_file.write_text(out)
        # parse
        flat = out.replace('\n', ' ')
        for t in thms:
            m = re.search(r"'(?:Pjrpc\.)?" + re.escape(t) + r"' (does not depend on any axioms|depends on axioms: \[([^\]]*)\])", flat)
            if not m:
                result[t] = {'ok': False, 'axioms': [], 'why': 'theorem missing or module failed to build', 'module': module}
                continue
            axioms = [a.strip() for a in (m.group(2) or '').split(',') if a.strip()]
            bad = [a for a in axioms if a not in ALLOWED_AXIOMS]
            result[t] = {'ok': not bad, 'axioms': axioms, 'why': ('uses ' + ', '.join(bad)) if bad else '', 'module': module}
    return result


def leanchecker(prop: str):
    """thorough tier: re-check the compiled .olean files of the property's modules with the toolchain's
    independent checker.  Returns (ok, output)."""
    modules = sorted({o['module'] for o in obligations().get(prop, [])})
    with flock(CACHE / 'lake.lock'):
        r = _run(['lake', 'env', 'leanchecker'] + modules, cwd=LEAN, timeout=1800)
    return r.returncode == 0, r.stdout[-1500:]


# ------------------------------------------------------------------------------------------------
# evidence
# ------------------------------------------------------------------------------------------------

TRUSTED_BASE = [
    'Lean 4.33.0 kernel; axioms propext, Classical.choice, Quot.sound only (audited by #print axioms every run)',
    'hand-written Lean model of the pjrpc functions named in DESIGN.md §0.1 (modelled, not verified); tie = correspondence run + constants translator',
    'harness (generators, adapters, canonicalisation, oracles) and the unverified driver glue (Driver.lean, Lean.Data.Json)',
    'CPython json / inspect / asyncio and third-party libraries behave as recorded in DESIGN.md §2',
    'harness conventions of DESIGN.md §9b (a new, equal context object per dispatch call marked by identity; library message texts compared as '
    '"is a string"; cache sizes compared as bounds; validator verdicts supplied per case by calling jsonschema / pydantic directly)',
]


def write_evidence(prop, tier, seed, wall, coverage, violations, assumptions=None):
    EVIDENCE.mkdir(exist_ok=True)
    ev = {
        'property_id': prop,
        'tier': tier,
        'seed': seed,
        'level': 'proof',
        'coverage': coverage,
        'assumptions': assumptions or TRUSTED_BASE,
        'wall_s': round(wall, 2),
        'violations': violations,
    }
    (EVIDENCE / f'{prop}.json').write_text(json.dumps(ev, indent=1, ensure_ascii=True, default=str) + '\n')
