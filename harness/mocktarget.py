"""Client classes whose transport method the real PjRpcMocker patches (harmless originals, so the
passthrough branch can be observed offline)."""
from pjrpc.client import AbstractClient, AbstractAsyncClient


class SyncClient(AbstractClient):
    def __init__(self, endpoint, **kw):
        super().__init__(**kw)
        self._endpoint = endpoint

    def _request(self, request_text, is_notification=False, **kwargs):
        return 'ORIGINAL:' + self._endpoint


class AsyncClient(AbstractAsyncClient):
    def __init__(self, endpoint, **kw):
        super().__init__(**kw)
        self._endpoint = endpoint

    async def _request(self, request_text, is_notification=False, **kwargs):
        return 'ORIGINAL:' + self._endpoint
