"""
User-defined error classes the harness registers with pjrpc's process-global code -> class registry
(defined once, at import), and the registry as the model sees it (most recent registration first).
"""
from . import core  # noqa: F401  (puts the repo under test on sys.path)
from pjrpc.common import exceptions as E


class ClientBaseError(E.JsonRpcError):
    """a client's `error_cls`: no code, hence not registered"""


class UserError2001(E.JsonRpcError):
    code = 2001
    message = 'User error 2001'


class UserErrorZero(E.JsonRpcError):
    code = 0
    message = 'Zero'


class UserErrorNeg(E.JsonRpcError):
    code = -5
    message = ''


class UserError2002(E.JsonRpcError):
    code = 2002
    message = 'User error 2002'


class UserError2002Child(UserError2002):
    """inherits code 2002: the metaclass re-registers the code, the later class wins"""


BUILTIN = [E.JsonRpcError, E.ClientError, E.ParseError, E.InvalidRequestError, E.MethodNotFoundError,
           E.InvalidParamsError, E.InternalError, E.ServerError]
USER = [ClientBaseError, UserError2001, UserErrorZero, UserErrorNeg, UserError2002, UserError2002Child]
ALL = BUILTIN + USER
BY_NAME = {c.__name__: c for c in ALL}


def errclass_json(cls):
    return {'name': cls.__name__, 'code': None if cls.code is None else str(cls.code), 'message': cls.message}


def registry_json():
    """what the registry must contain, derived from the class *definitions* (not read back from
    pjrpc's mapping): every class with a code, most recent first"""
    return [errclass_json(c) for c in reversed(ALL) if c.code is not None]
