#!/usr/bin/env python3
"""
Run the registered quick checks against a seeded change: apply the patch to /repo, run the checks of the
given properties (default: all claimed), revert.  Usage: tools/seedtest.py <patch.diff> [C01 C02 ...]
Prints one line per property: exit code, VIOLATION lines.
"""
import json, subprocess, sys, os
from concurrent.futures import ThreadPoolExecutor

VERIF = os.path.dirname(os.path.dirname(os.path.abspath(__file__)))
patch = os.path.abspath(sys.argv[1])
props = sys.argv[2:] or [c['property_id'] for c in json.load(open(os.path.join(VERIF, 'MANIFEST.json')))['checks']]
tier = os.environ.get('VERIF_TIER', 'quick')
assert subprocess.run(['git', '-C', '/repo', 'status', '--porcelain'], capture_output=True, text=True).stdout.strip() == '', '/repo not clean'
subprocess.run(['git', '-C', '/repo', 'apply', patch], check=True)
try:
    # build once, then run checks without rebuilding concurrently
    subprocess.run(['/venv/bin/python', '-c', 'from harness import core; core.build()'], cwd=VERIF, check=False, capture_output=True)

    def run(p):
        r = subprocess.run(['./check', p, '--tier', tier], cwd=VERIF, capture_output=True, text=True, timeout=3600)
        viol = [l for l in r.stdout.splitlines() if l.startswith('VIOLATION')]
        last = r.stdout.strip().splitlines()[-1] if r.stdout.strip() else r.stderr.strip().splitlines()[-1:]
        return p, r.returncode, viol, last
    with ThreadPoolExecutor(max_workers=int(os.environ.get('SEED_JOBS', '5'))) as ex:
        for p, rc, viol, last in ex.map(run, props):
            flag = 'DETECTED' if rc == 1 else ('quiet' if rc == 0 else 'INFRA-ERROR')
            print(f'{p}: {flag} rc={rc} {"; ".join(viol[:2])} | {last}')
finally:
    subprocess.run(['git', '-C', '/repo', 'checkout', '--', '.'], check=True)
    subprocess.run(['git', '-C', '/repo', 'clean', '-fdq', '--', 'pjrpc'], check=False)
