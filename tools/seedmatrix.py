#!/usr/bin/env python3
"""
Collect the results of tools/seedtest.py runs (one text file per seeded change) into
  * seeded/<id>/meta.json  (key `quick_checks`: per property detected / detected-no-failing-input / quiet)
  * seeded/README.md       (the matrix: which checks catch which changes)
usage: seedmatrix.py <results-dir>     (files <id>.txt as printed by seedtest.py)
"""
import json
import os
import re
import sys

VERIF = os.path.dirname(os.path.dirname(os.path.abspath(__file__)))
res_dir = sys.argv[1]
seeds = sorted(d for d in os.listdir(os.path.join(VERIF, 'seeded')) if re.fullmatch(r'C\d\d-\d+', d))
props = [f'C{i:02d}' for i in range(1, 21)]
rows = []
for sid in seeds:
    mp = os.path.join(VERIF, 'seeded', sid, 'meta.json')
    meta = json.load(open(mp))
    rp = os.path.join(res_dir, sid + '.txt')
    if not os.path.exists(rp):
        rows.append((sid, meta, None))
        continue
    cells = {}
    for line in open(rp):
        m = re.match(r'(C\d\d): (DETECTED|quiet|INFRA-ERROR) rc=(\d+) (.*)', line)
        if not m:
            continue
        p, flag, rc, rest = m.groups()
        if flag == 'DETECTED':
            cells[p] = 'detected (no failing input found)' if 'no-failing-input-found' in rest.split('|')[0] else 'detected'
        elif flag == 'quiet':
            cells[p] = 'quiet'
        else:
            cells[p] = 'infra-error'
    meta['quick_checks'] = {'how': 'tools/seedtest.py patch.diff  (git -C /repo apply; every registered quick check; git -C /repo checkout -- .)',
                            'results': cells}
    json.dump(meta, open(mp, 'w'), indent=1)
    rows.append((sid, meta, cells))

out = ['# Seeded changes', '',
       'Each directory holds one change produced by a sub-agent that saw only the text of one property and a scratch worktree',
       '(`patch.diff`, the demonstration `demo.py`, `meta.json`).  Every change was confirmed in a scratch worktree with',
       '`tools/confirm_seed.py` (demo passes on the unchanged tree, fails with the patch, the repository test suite keeps its',
       'pass/fail set) and then run against every registered quick check with `tools/seedtest.py`.', '',
       'Legend: **D** = VIOLATION with a concrete failing input (replay), **d** = VIOLATION ... no-failing-input-found (the',
       'correspondence / a proof obligation broke, the search found no input violating *that* property), `.` = quiet.', '',
       '| change | target | ' + ' | '.join(p[1:] for p in props) + ' | what it does |',
       '|---|---|' + '---|' * len(props) + '---|']
missed = []
for sid, meta, cells in rows:
    tgt = meta['property']
    if cells is None:
        out.append(f'| {sid} | {tgt} | ' + ' | '.join('?' for _ in props) + f' | {meta["summary"][:140]} |')
        continue
    sym = {'detected': '**D**', 'detected (no failing input found)': 'd', 'quiet': '.', 'infra-error': 'E'}
    out.append(f'| {sid} | {tgt} | ' + ' | '.join(sym.get(cells.get(p, '?'), '?') for p in props) + f' | {meta["summary"][:140].replace("|", "/")} |')
    if cells.get(tgt) != 'detected':
        missed.append((sid, cells.get(tgt)))
out += ['', '## Target property not detected with a failing input', '']
out += [f'* {sid}: {c}' for sid, c in missed] or ['none']
open(os.path.join(VERIF, 'seeded', 'README.md'), 'w').write('\n'.join(out) + '\n')
print('\n'.join(out[-(len(missed) + 3):]))
