#!/usr/bin/env python3
"""
Confirm a sub-agent's seeded change in a scratch worktree (never in /repo):
  1. the demonstration passes on the unchanged worktree,
  2. it fails with the patch applied,
  3. the repository's own test suite gives the same pass/fail set with the patch as without.
usage: confirm_seed.py <worktree> <patch.diff> <demo.py>   -> prints one JSON line
"""
import json
import re
import subprocess
import sys

PY = '/venv/bin/python'


def sh(cmd, cwd, env=None, timeout=1200):
    import os
    e = dict(os.environ)
    e.update(env or {})
    r = subprocess.run(cmd, cwd=cwd, env=e, stdout=subprocess.PIPE, stderr=subprocess.STDOUT, text=True, timeout=timeout)
    return r.returncode, r.stdout


def suite(wt):
    rc, out = sh([PY, '-m', 'pytest', '-q', '-p', 'no:cacheprovider', '-rf', '--timeout=900'], wt)
    failed = sorted(set(re.findall(r'^FAILED (\S+)', out, re.M)))
    tail = out.strip().splitlines()[-1] if out.strip() else ''
    return failed, tail


def main():
    wt, patch, demo = sys.argv[1:4]
    res = {'worktree': wt, 'patch': patch, 'demo': demo}
    rc, out = sh(['git', 'status', '--porcelain'], wt)
    if out.strip():
        sh(['git', 'checkout', '--', '.'], wt)
    base_failed, base_tail = suite(wt)
    res['baseline_suite'] = base_tail
    rc, out = sh([PY, demo], wt, {'PYTHONPATH': wt})
    res['demo_clean'] = {'rc': rc, 'last': out.strip().splitlines()[-1][:300] if out.strip() else ''}
    rc, out = sh(['git', 'apply', patch], wt)
    if rc != 0:
        res['apply_error'] = out[-300:]
        print(json.dumps(res))
        return 1
    try:
        rc, out = sh([PY, demo], wt, {'PYTHONPATH': wt})
        res['demo_patched'] = {'rc': rc, 'last': out.strip().splitlines()[-1][:400] if out.strip() else ''}
        failed, tail = suite(wt)
        res['patched_suite'] = tail
        res['same_failing_set'] = failed == base_failed
    finally:
        sh(['git', 'checkout', '--', '.'], wt)
    res['confirmed'] = (res['demo_clean']['rc'] == 0 and res['demo_patched']['rc'] != 0 and res['same_failing_set'])
    print(json.dumps(res))
    return 0 if res['confirmed'] else 1


if __name__ == '__main__':
    sys.exit(main())
