#!/usr/bin/env python3
"""Record the syntax-tree fingerprint of /repo/pjrpc (run after the model has been compared with the tree, e.g. after a fix: commit)."""
import json, os, sys
sys.path.insert(0, os.path.dirname(os.path.dirname(os.path.abspath(__file__))))
from harness import core
core.FINGERPRINT.write_text(json.dumps(core.source_fingerprint(), indent=1) + '\n')
print(f'{len(core.source_fingerprint())} files fingerprinted from {core.REPO}')
