#!/usr/bin/env python3
"""Regenerates MANIFEST.json from the table below (kept valid at all times)."""
import json, os
HERE = os.path.dirname(os.path.abspath(__file__))
ALL = [f'C{i:02d}' for i in range(1, 21)]
BASELINE = json.load(open('/root/.vp/BASELINE.json'))['cmd'] if os.path.exists('/root/.vp/BASELINE.json') else ''

CLAIMED = {
    'C01': dict(ref='§4 C01', text='Lean theorem C01_total_wellformed over the dispatcher model: for every configuration with id-preserving middlewares, every load result '
                'other than RecursionError and every context, dispatch returns nothing or a reply whose document satisfies the declarative JSON-RPC 2.0 response predicate '
                '(object or NON-EMPTY array) with codes = docCodes(doc); never raises. Tied to both real dispatchers by the dispatch correspondence suite '
                '(product alphabets of request members, batches, malformed texts, digit-limit literals, nesting to 64; dispatchers with the user\'s own JSON loader / dumper / encoder / decoder) '
                'and, for methods behind the schema / type validators, by the validators suite (whatever the validator makes of a call, dispatch answers and never raises).',
                note='Kernel + standard axioms; hand-written model of dispatcher.py/v20.py tied by correspondence; json.loads classification (decode error / other ValueError / value) '
                'is an input of the model; methods return JSON values; RecursionError (nesting far beyond 64) excluded by hypothesis.'),
    'C02': dict(ref='§4 C02', text='Lean theorems: call answered once with the identical id (ReqId keeps JSON type), notification silent on every path, '
                'C02_batch_is_map (accepted batch = collectReplies of single dispatches, logs concatenated), rejected batch executes nothing, exactly-once executions. '
                'Tied by the dispatch suite incl. element-wise re-dispatch on the real dispatchers (sync, async, async serving plain functions, async with concurrent_batch off) '
                'and by the scheduler suite (request order of the ids and exactly-once, completed executions under every interleaving; theorems C10_order_and_identity, C10_async_batch_equals_sync, C10_exactly_once).',
                note='Kernel + standard axioms; id-preserving middleware premise (explicit, decidable, shown necessary by C01_illbehaved_counterexample); hand-written model tied by correspondence.'),
    'C03': dict(ref='§4 C03', text='Lean theorems: -32700 / -32600 (id null, nothing runs) / -32601 / -32602 without execution / protocol errors verbatim for every code, message, data (absent vs null) / '
                'other exceptions → {-32000, "Server error"} independent of the exception; error codes tied to the source by the constants translator. '
                'Correspondence over codes x messages x data shapes x exception types (incl. the library\'s own non-protocol exceptions), as call / notification / batch element; '
                'the validation clause (-32602 without running) also through the validators suite (real jsonschema / pydantic validators).',
                note='Kernel + standard axioms; statements are for the library without user error handlers on the code in question (handlers are C12); '
                'the loader accepting NaN/Infinity (D20) is a recorded finding decided by the oracle.'),
    'C07': dict(ref='§4 C07', text='Lean theorems: every notation emits exactly one well-formed request document (ids present for calls, absent for notifications, arguments as given); '
                'emitted batch documents have pairwise distinct call ids for every id generator, and sequential with step != 0 is never refused; loop-back through the library\'s own dispatcher: '
                'C07_loopback_value / C07_loopback_error (same code, message, data; class registered for the code else the client\'s base) / notifications and all-notification batches silent; notations interchangeable. '
                'Tied by real sync and async clients in every notation x id generators (increasing, decreasing, random) x strict on/off, looped back into real sync and async dispatchers '
                '(coroutines and plain functions), compared with the model end to end; notified methods run to completion under every interleaving (scheduler suite, C10_exactly_once). '
                'Over HTTP: C07_value_over_http / C07_error_over_http / C07_notification_over_http for every client backend x server integration (suite httploop).',
                note='Kernel + standard axioms; composition of the C05 round-trip theorems, the dispatcher theorems (C02, C12) and the client model; generators.uuid (D7) is a recorded finding.'),
    'C08': dict(ref='§4 C08', text='Lean theorems: single responses — id mismatch rejected in strict mode, otherwise related; C08_batch_accept_iff (strict: accepted iff the non-null response ids are exactly the call ids, '
                'duplicate-free by the strict BatchResponse), C08_positional_attribution (after acceptance the id-carrying responses are in call order whatever the server\'s order), bad bodies raise the deserialisation error, '
                'server and batch-level errors are raised. Tied by every response document a server could return for batches of <=3 (quick) / <=4 (thorough) calls plus notifications: permutations, omissions, duplications, additions, '
                'type-confused and null ids, batch-level errors, success/error mixes; singles x every id relation x strict on/off x sync/async. '
                'At the HTTP backends: C08_foreign_content_type_refused, C18_backends_accept_documented (suite httploop: status x Content-Type header x body x request kind x raise_for_status x strict).',
                note='Kernel + standard axioms; the ordering step is modelled as bucketing by call position (equal to the stable list.sort by position used in the code; checked by the correspondence run).'),
    'C09': dict(ref='§4 C09', text='Lean theorems over the retry loop (structural recursion on the remaining delays — termination is the bound): sends <= attempts+1, re-sent iff listed outcome and attempts remain (C09_resend_iff), '
                'sleeps = delays.take (sends-1), final = outcome of the last attempt, unlisted outcomes immediate, exhaustion; the three backoff families\' delay formulas for any numeric carrier; per-request strategy wins. '
                'Tied by outcome scripts over 7 outcome kinds x code / exception sets x the three backoff families with scripted jitter and caps x single / batch / notification x client-wide / per-request / disabled, sync and async, '
                'sleeps captured bit-exactly.',
                note='Kernel + standard axioms; float rounding is not reasoned about (the theorems are identities between the same operations at any carrier; the driver evaluates them at IEEE doubles with libm pow as CPython does).'),
    'C19': dict(ref='§4 C19', text='Lean theorems: attempt shape (begin per tracer in order, then exactly one completion per tracer: end iff returned, error iff raised, same context), all attempts traced, '
                'begin and completion counts equal the number of sends per tracer, the outcome the tracers saw last is the one reaching the caller. Tied by scripts over 6 per-attempt outcome kinds (incl. BaseException) '
                'x strategies of 0..3 attempts x 0..3 tracers x single / batch / notification x caller-supplied vs default trace context, sync and async.',
                note='Kernel + standard axioms; tracers that raise are outside the model; what the model says about the others (one completion per begin) is still compared when the last tracer\'s completion hook raises.'),
    'C10': dict(ref='§4 C10', text='Lean theorems: schedule_independence / complete_schedule_results (any number of processes, segments, any schedule) for non-interfering processes; '
                'the dispatcher\'s element handlers are such processes (handler_segments_noninterfering); corollaries C10_order_and_identity, C10_async_batch_equals_sync, '
                'C10_exactly_once (per-element log projection = the element\'s own events, every one once, under every complete schedule) and C10_sequential_no_overlap. '
                'Tied by running the real AsyncDispatcher under a harness-controlled scheduler over enumerated interleavings (<=3 elements x <=2 suspension points quick, <=4 thorough) '
                'of suspension points in method bodies, the outer middleware and error handlers, concurrent and sequential mode; the effective schedule is replayed on the model.',
                note='Kernel + standard axioms; asyncio itself (tasks switch only at await, gather keeps argument order, call_soon FIFO) is assumed and exercised, not modelled: a scheduler bug in the event loop cannot be exhibited by the model.'),
    'C11': dict(ref='§4 C11', text='Lean theorems C11_dispatchers_agree / C11_same_executions / C11_plain_functions_in_async: dispatchAsync (separate definition, through gather and the scheduler) returns exactly dispatch\'s document and codes '
                'for every configuration, load result, context, placement of suspension points and complete schedule, with the same per-element executions. '
                'Every case of the dispatch, registry and async suites runs on both real halves (plus the async dispatcher with plain functions); besides model-vs-half the halves are diffed directly. '
                'Client twins: one model per role, both implementations checked against it (suites of C07-C09, C19) and against each other; the synchronous and asynchronous HTTP backends against one model of `_request` (suite httploop).',
                note='Kernel + standard axioms; the twin diff is an implementation-side oracle; asyncio assumed as for C10.'),
    'C12': dict(ref='§4 C12', text='Lean theorems: chain order for n pass-through middlewares (enter 0..n-1, inner, leave n-1..0), short circuit at position k, chain result is what is sent, '
                'per-element logs concatenate, handler fold (generic then per original code, each once), handlers never on success or rejected documents. '
                'Correspondence over stacks of 0..3 middlewares of six kinds x handler tables x request kinds on both dispatchers.',
                note='Kernel + standard axioms; middlewares / handlers are interpreted from finite kinds compiled to real Python callables by the harness.'),
    'C04': dict(ref='§4 C04', text='Lean theorems: C04_partial / C04_partial_dispatch — for every signature of positional-or-keyword / keyword-only parameters (any length, any defaults), '
                'context by name or as first positional argument, every positional list and every named mapping: the body runs iff a direct Python call binds, receives exactly the bound values + defaults + context, '
                'and its return value is the result; else -32602 without execution (closed forms of inspect.Signature.bind and of the call protocol, by induction on the parameter list). '
                'C04_context_not_overridable for all kinds. The full statement is proved FALSE of the pinned tree (C04Statement_false, D6 witnesses by decide), recorded as known findings. '
                'Tied by exhaustive enumeration of all signatures of <=3 (quick) / <=4 (thorough) parameters over the five kinds against the real dispatchers; reference oracle = CPython direct call of a recording twin.',
                note='Kernel + standard axioms; CPython Signature._bind and the call protocol are transcribed (Bind.lean) and checked exhaustively; variadic / positional-only kinds are the recorded defect D6 (decided by the oracle).'),
    'C15': dict(ref='§4 C15', text='Lean theorem C15_refines: for every registration history (a tree over add / add with name / add_methods / view / merge) pjrpc\'s registry equals the rendering of an abstract registry '
                'whose names are lists of segments (non-empty prefixes outermost first, then explicit or own name) — same keys, same order, same targets; last registration wins (C15_last_registration_wins); '
                'unregistered names answer -32601; clean views expose exactly their public callables. Correspondence over exhaustive short histories and random deep merges, probed by dispatching every name, '
                'names one edit away and private member names on both dispatchers.',
                note='Kernel + standard axioms; dir() order / callable() / __name__ of members are declared per test class (oracle input); D21 (public alias of a private view member) and D24 (Method object in a prefixed registry) are recorded findings.'),
    'C13': dict(ref='§4 C13', text='Lean theorems: a memo table over a pure function never changes an answer (cachedCall_value / cachedCall_ok), the method layer threading the signature cache equals the uncached one, '
                'C13_history_independence / C13_probe_after_history (every history, every probe), C13_no_retention (after D11 every cache key is the static key of a registered method: no per-request object id is retained) and '
                'C13_bounded_state (table size <= number of registered methods), C13_interleaving_independence (any interleaving of lookup / insert steps of concurrent dispatches); the pinned keying is refuted by '
                'C13_no_retention_counterexample. Tied by histories over the request corpus followed by a probe on both dispatchers (compared with the probe on a fresh dispatcher and with the model), '
                'the real lru_cache growth compared with the model\'s table size, weak references to per-request contexts after gc for N in {1, 10, 1000}, and thread pools of 2..16 threads.',
                note='Kernel + standard axioms; memory is observed through cache_info() and weak references, not through the allocator; the GIL / lru_cache atomicity and CPython reference counting + gc.collect() are assumed.'),
    'C14': dict(ref='§4 C14', text='Lean theorems, for every verdict function of the validator: executed iff the arguments bind to the reduced signature, validate, and the call goes through (C14_executed_iff); '
                'otherwise -32602 with array data and no execution; accepted arguments reach the method unchanged, or exactly the converted values when coercion is on; excluded parameters (context, predicate) are neither '
                'among the validated arguments nor settable by the client. Tied by dispatching through real JsonSchemaValidator / PydanticValidator-validated methods (schema fragments, annotations incl. Optional / List / Dict / model / enum, '
                'conforming / coercible / non-conforming values, positional / named, exclusion predicates, coercion on / off); the verdicts come from jsonschema / pydantic called directly on what CPython\'s binder produces.',
                note='Kernel + standard axioms; "conforming" is what jsonschema / pydantic say — their semantics are oracles, not theorems; D6 applies to variadic signatures.'),
    'C16': dict(ref='§4 C16', text='Lean theorems over the generators\' plumbing with abstract extractor results and an explicit annotation heap: C16_pure_heap, C16_deterministic, '
                'C16_complete (exactly one entry per (endpoint, method) under join_path(path, endpoint)#name, each a function of its own method alone: no cross-method leak), C16_closed (every $ref resolves if each extractor returns the components it references), '
                'OpenRPC complete + pure; the pinned in-place extension is refuted (C16_shared_list_counterexample). Tied by generating real OpenAPI 3.0 / 3.1 and OpenRPC documents for random method sets x annotation combinations '
                '(errors lists shared between methods, tags, examples, prefixes, servers, security) x extractor stacks x endpoint prefixes x 1..3 generations, abstracted to path keys / error codes / tags / $ref targets / component keys; '
                'per-method model inputs come from generating each method alone. Oracle: JSON-encodability, the official meta-schemas shipped with the repo, dangling-$ref scan, repetition, before / after snapshots, content digests per entry. utils.join_path / remove_prefix / remove_suffix are model functions with an exact correspondence (1.7k string cases) and theorems: the path keys are distinct whenever the (URL path, exposed name) pairs are and paths contain no # (C16_complete_distinct_paths / C16_complete_user_paths, the premise of C16_complete derived rather than assumed), removePrefix_append, removeSuffix_append. Two generations on one spec object that overlap in time are exercised through a gate in every extractor call.',
                note='Kernel + standard axioms; meta-schema validity and the content of pydantic-generated schemas are checked by the oracle only; OAS 3.0 dialect, untyped docstrings and same-named methods on different endpoints (D22) are recorded findings.'),
    'C17': dict(ref='§4 C17', text='Lean theorems: C17_names_agree (documented names = names the binder keeps, required = those without default), C17_accept_iff (a named params object with key set K binds iff required ⊆ K ⊆ documented, '
                'from the closed form of Signature.bind), C17_excluded_absent; C17_view_counterexample refutes the statement for class-based views (D16, recorded). Tied by reading the parameter schema out of real OpenAPI and OpenRPC documents '
                'for all signatures of <=4 positional-or-keyword / keyword-only parameters x defaults x context / exclusion predicate x function / view and dispatching every params object over subsets of (documented + undocumented + context names).',
                note='Kernel + standard axioms; the step from field definitions to properties / required is pydantic\'s (oracle input).'),
    'C18': dict(ref='§4 C18', text='Lean theorems over the three _rpc_handle functions: every documented media type passes the gate (tied to REQUEST_CONTENT_TYPES by the constants translator), every other one is answered 415 with an empty log, '
                'an accepted request is answered with exactly the dispatcher\'s document, the JSON content type and status_by_error(codes) (200 + empty body for nothing), never 500 with well-behaved middlewares (via C01), '
                'undecodable bodies 400, the integrations coincide. Tied through the aiohttp TestClient, flask test_client and werkzeug Client over media types (documented, charset / case variants, near misses, missing) '
                'x bodies (valid, invalid, batch, notification, non-UTF-8) x status functions x prefixes. The client\'s HTTP backends (requests, httpx sync/async, aiohttp) are modelled as well (Backend.lean) and composed with the integrations: '
                'C18_http_transparent (client backend after server integration = the loop-back transport, whatever parameters the framework appends to the content type), the two content-type handshakes, C18_error_status_masks_reply; '
                'tied by suite httploop (scripted HTTP replies through the real HTTP libraries; real pjrpc clients against the real flask / werkzeug / aiohttp integrations).',
                note='Kernel + standard axioms; the frameworks\' header parsing and routing are inputs (the parsed media type is computed independently by the harness); the Flask JSON-provider shadowing of the encoder (D27) is a recorded finding.'),
    'C20': dict(ref='§4 C20', text='Lean theorems: the queue discipline in closed form (C20_round_robin: first |q| calls in order of addition, every later block of |keep q| calls by the surviving patches in the same order; '
                'C20_once_exactly_once; C20_round_robin_mod), and the state machine: C20_step (head answers, that queue steps, every other queue and record untouched, the call recorded), add / replace / remove on the current queue, '
                'request id carried incl. 0 and "", unpatched method -32601, unpatched endpoint passthrough / refused, batches element-wise, calls recorded even when the reply cannot be built (raising callback: C20_recorded_even_if_reply_fails). Tied by operation / call histories through the real PjRpcMocker '
                'patching sync and async transport methods and the library\'s requests backend, against the model and an independent reference simulator.',
                note='Kernel + standard axioms; dicts are modelled as association lists (absent queue = empty queue abstraction proved invariant under cleanup); histories are well-formed (replace / remove address existing patches).'),
    'C05': dict(ref='§4 C05', text='Lean theorems over the message model: from_json∘to_json = id up to falsy-params normalisation for requests, '
                'responses, errors, batches and batch-level errors; to_json fixpoint; exact wire form; class-by-code. Tied to the code by the '
                'msg correspondence suite (real constructors / to_json / JSON text through both encoders / from_json vs the model) and the constants translator.',
                note='Kernel + propext/Classical.choice/Quot.sound; model of v20.py/exceptions.py is hand-written (tie: correspondence); the JSON text codec (json.dumps/loads) is assumed, exercised on every case.'),
    'C06': dict(ref='§4 C06', text='Lean theorems: from_json of request/response/error/batch is total with only DeserializationError (IdentityError for batches) '
                'and accepts exactly the declarative valid shapes (iff); append/extend are atomic over all histories (invariant by induction). '
                'Tied by exhaustive product-alphabet correspondence on the real from_json / append / extend.',
                note='Kernel + standard axioms; hand-written model tied by correspondence; Python set membership on ids (int/str) assumed to be structural equality.'),
}
NOT_YET = 'check under construction in this round (model/theorems not yet committed); will be claimed once its correspondence suite passes on the clean tree'

def main():
    checks = []
    for pid in ALL:
        if pid in CLAIMED:
            c = CLAIMED[pid]
            checks.append({
                'property_id': pid,
                'quick_cmd': f'./check {pid} --tier quick',
                'thorough_cmd': f'./check {pid} --tier thorough',
                'evidence_file': f'evidence/{pid}.json',
                'replay_cmd_template': f'./check {pid} --replay {{path}}',
                'engine': 'lean-model+correspondence',
                'level_claimed': {'category': 'proof', 'text': c['text'], 'design_ref': c['ref']},
                'level_note': c['note'],
                'technique': 'Lean 4 theorems over a hand-written executable model; model tied to /repo by differential correspondence and a constants translator',
            })
    m = {
        'version': 1,
        'setup_cmd': './setup.sh',
        'hooks': {'guard': 'PJRPC_VERIF', 'enable': 'no source hooks are needed; checks export PJRPC_VERIF=1 (unused by pjrpc)',
                  'baseline_off_cmd': BASELINE, 'source_commits': [], 'add_only': True},
        'engines': [{'name': 'lean-model+correspondence', 'path': 'lean/ + harness/', 'serves_properties': sorted(CLAIMED),
                     'kind_free_text': 'Lean 4 model + theorems (lake), compiled model driver, Python correspondence harness and oracles'}],
        'checks': checks,
        'notes': 'See DESIGN.md. KNOWN_FINDINGS.txt lists recorded defects and fix: commits.',
        'not_applicable': [{'property_id': p, 'reason': NOT_YET} for p in ALL if p not in CLAIMED],
    }
    json.dump(m, open(os.path.join(HERE, 'MANIFEST.json'), 'w'), indent=1)
    print('claimed', sorted(CLAIMED))

if __name__ == '__main__':
    main()
