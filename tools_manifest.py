#!/usr/bin/env python3
"""Regenerates MANIFEST.json from the table below (kept valid at all times)."""
import json, os
HERE = os.path.dirname(os.path.abspath(__file__))
ALL = [f'C{i:02d}' for i in range(1, 21)]
BASELINE = json.load(open('/root/.vp/BASELINE.json'))['cmd'] if os.path.exists('/root/.vp/BASELINE.json') else ''

CLAIMED = {
    'C05': dict(ref='§4 C05', text='Lean theorems over the message model: from_json∘to_json = id up to falsy-params normalisation for requests, '
                'responses, errors, batches and batch-level errors; to_json fixpoint; exact wire form; class-by-code. Tied to the code by the '
                'msg correspondence suite (real constructors / to_json / JSON text through both encoders / from_json vs the model) and the constants translator.',
                note='Kernel + propext/Classical.choice/Quot.sound; model of v20.py/exceptions.py is hand-written (tie: correspondence); the JSON text codec (json.dumps/loads) is assumed, exercised on every case.'),
    'C06': dict(ref='§4 C06', text='Lean theorems: from_json of request/response/error/batch is total with only DeserializationError (IdentityError for batches) '
                'and accepts exactly the declarative valid shapes (iff); append/extend are atomic over all histories (invariant by induction). '
                'Tied by exhaustive product-alphabet correspondence on the real from_json / append / extend.',
                note='Kernel + standard axioms; hand-written model tied by correspondence; Python set membership on ids (int/str) assumed to be structural equality.'),
}
NOT_YET = 'check under construction in this round (model/theorems not yet committed); will be claimed once its correspondence suite passes on the clean tree'

def main():
    checks = []
    for pid in ALL:
        if pid in CLAIMED:
            c = CLAIMED[pid]
            checks.append({
                'property_id': pid,
                'quick_cmd': f'./check {pid} --tier quick',
                'thorough_cmd': f'./check {pid} --tier thorough',
                'evidence_file': f'evidence/{pid}.json',
                'replay_cmd_template': f'./check {pid} --replay {{path}}',
                'engine': 'lean-model+correspondence',
                'level_claimed': {'category': 'proof', 'text': c['text'], 'design_ref': c['ref']},
                'level_note': c['note'],
                'technique': 'Lean 4 theorems over a hand-written executable model; model tied to /repo by differential correspondence and a constants translator',
            })
    m = {
        'version': 1,
        'setup_cmd': './setup.sh',
        'hooks': {'guard': 'PJRPC_VERIF', 'enable': 'no source hooks are needed; checks export PJRPC_VERIF=1 (unused by pjrpc)',
                  'baseline_off_cmd': BASELINE, 'source_commits': [], 'add_only': True},
        'engines': [{'name': 'lean-model+correspondence', 'path': 'lean/ + harness/', 'serves_properties': sorted(CLAIMED),
                     'kind_free_text': 'Lean 4 model + theorems (lake), compiled model driver, Python correspondence harness and oracles'}],
        'checks': checks,
        'notes': 'See DESIGN.md. KNOWN_FINDINGS.txt lists recorded defects and fix: commits.',
        'not_applicable': [{'property_id': p, 'reason': NOT_YET} for p in ALL if p not in CLAIMED],
    }
    json.dump(m, open(os.path.join(HERE, 'MANIFEST.json'), 'w'), indent=1)
    print('claimed', sorted(CLAIMED))

if __name__ == '__main__':
    main()
