#!/bin/sh
# MANIFEST.setup_cmd: build the Lean model, proofs and driver from files on disk only (offline).
cd "$(dirname "$0")" || exit 2
set -e
/venv/bin/python -c "from harness import extract_constants; extract_constants.regenerate()"
cd lean
lake build driver
lake build PjrpcModel
