/- Line-protocol driver: one JSON case per line in, one JSON line out. Unverified glue; it only
   evaluates model definitions. -/
import PjrpcModel.Driver.SuiteMsg
import PjrpcModel.Driver.SuiteDispatch
import PjrpcModel.Driver.SuiteRegistry
import PjrpcModel.Driver.SuiteAsync
import PjrpcModel.Driver.SuiteClient
import PjrpcModel.Driver.SuiteMocker
import PjrpcModel.Driver.SuiteHttp
import PjrpcModel.Driver.SuiteHttpLoop
import PjrpcModel.Driver.SuiteHistory
import PjrpcModel.Driver.SuiteSpecs
open Pjrpc.Driver

def handle (line : String) : String :=
  match Lean.Json.parse line with
  | .error e => (obj [("driver_error", jstr s!"parse: {e}")]).compress
  | .ok c =>
    let r : M J := do
      match (← str (← fld c "suite")) with
      | "msg" => suiteMsg c
      | "dispatch" => suiteDispatch c
      | "registry" => suiteRegistry c
      | "async" => suiteAsync c
      | "client" => suiteClient c
      | "mocker" => suiteMocker c
      | "http" => suiteHttp c
      | "httploop" => suiteHttpLoop c
      | "history" => suiteHistory c
      | "specs" => suiteSpecs c
      | s => throw s!"unknown suite {s}"
    match r with
    | .ok j => j.compress
    | .error e => (obj [("driver_error", jstr e)]).compress

partial def loop (hin : IO.FS.Stream) (hout : IO.FS.Stream) : IO Unit := do
  let line ← hin.getLine
  if line.isEmpty then return ()
  let t := line.trimAscii.toString
  if t.isEmpty then loop hin hout else
  hout.putStrLn (handle t)
  loop hin hout

def main : IO Unit := do
  let hin ← IO.getStdin
  let hout ← IO.getStdout
  loop hin hout
  hout.flush
