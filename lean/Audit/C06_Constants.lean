import PjrpcModel.Props.Constants
open Pjrpc
#print axioms tie_versions
#print axioms tie_strictDefaults
