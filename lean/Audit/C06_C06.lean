import PjrpcModel.Props.C06
open Pjrpc
#print axioms C06_Request_fromJson_total
#print axioms C06_Error_fromJson_total
#print axioms C06_Response_fromJson_total
#print axioms C06_Request_fromJson_ok_iff
#print axioms C06_Error_fromJson_ok_iff
#print axioms C06_Response_fromJson_ok_iff
#print axioms C06_BatchRequest_fromJson_total
#print axioms C06_BatchRequest_empty_rejected
#print axioms C06_BatchResponse_fromJson_total
#print axioms C06_extend_ok_inv
#print axioms C06_extend_raise_iff_dup
#print axioms C06_extend_only_identity
#print axioms C06_history_atomic
#print axioms C06_append_dup_atomic
#print axioms C06_extend_dup_atomic
#print axioms C06_construct_ok_iff_nodup
