import PjrpcModel.Props.Constants
open Pjrpc
#print axioms tie_errorClasses
#print axioms tie_errorBases
#print axioms tie_versions
