import PjrpcModel.Props.C05
open Pjrpc
#print axioms C05_Request_roundtrip
#print axioms C05_Request_fixpoint
#print axioms C05_wire_exact_request
#print axioms C05_Error_roundtrip
#print axioms C05_Error_fixpoint
#print axioms C05_error_class_by_code
#print axioms C05_error_data_null_vs_absent
#print axioms C05_Response_roundtrip
#print axioms C05_Response_fixpoint
#print axioms C05_wire_exact_response
#print axioms C05_result_null_vs_missing
#print axioms C05_BatchRequest_roundtrip
#print axioms C05_batch_order_preserved
#print axioms C05_BatchResponse_roundtrip
#print axioms C05_batch_level_error_roundtrip
