import PjrpcModel.Json
import PjrpcModel.Msg
import PjrpcModel.Defaults
import PjrpcModel.Generated.Constants
import PjrpcModel.Props.Constants
import PjrpcModel.Props.C05
import PjrpcModel.Props.C06
