import PjrpcModel.Json
import PjrpcModel.Msg
