/- Driver glue for suite `http` (C18): drives Http.lean. -/
import PjrpcModel.Driver.SuiteDispatch
import PjrpcModel.Http
namespace Pjrpc.Driver

def decIntegration : String → M Integration
  | "aiohttp" => pure .aiohttp | "flask" => pure .flask | "werkzeug" => pure .werkzeug
  | k => throw s!"bad integration {k}"

/-- status_by_error: {"k":"default"} | {"k":"table","map":[[code,status]…],"else":status}: the status
of the first error code listed in the table, else the fallback; "single" / "count": functions that look at the
length / multiplicities of the tuple -/
def decStatusFn (j : J) : M (List Int → Int) := do
  match (← str (← fld j "k")) with
  | "default" => pure fun _ => 200
  | "table" =>
    let tbl ← listOf (fun e => do
      match (← arr e) with
      | [c, s] => pure ((← int c), (← int s))
      | _ => throw "bad status entry") (← fld j "map")
    let dflt ← int (← fld j "else")
    pure fun codes =>
      match codes.findSome? (fun c => (tbl.find? (fun p => p.1 == c)).map (·.2)) with
      | some s => s
      | none => dflt
  | "single" =>
    -- sensitive to the *length* of the codes tuple: the table applies to one-element tuples only
    let tbl ← listOf (fun e => do
      match (← arr e) with
      | [c, s] => pure ((← int c), (← int s))
      | _ => throw "bad status entry") (← fld j "map")
    let dflt ← int (← fld j "else")
    pure fun codes =>
      match codes with
      | [c] => ((tbl.find? (fun p => p.1 == c)).map (·.2)).getD dflt
      | _ => dflt
  | "count" =>
    -- sensitive to multiplicity: base + the number of error (non-zero) codes
    let base ← int (← fld j "base")
    pure fun codes => base + (codes.filter (· != 0)).length
  | k => throw s!"bad status fn {k}"

def encHttpReply (r : HttpReply) : J :=
  obj [("status", jint r.status), ("content_type", jopt jstr r.contentType), ("body", jopt encJ r.body)]

def suiteHttp (c : J) : M J := do
  let cfg ← decConfig (← fld c "cfg")
  let sbe ← decStatusFn (← fld c "status")
  let mime ← str (← fld c "mime")
  let body ← match (← str (← fld (← fld c "body") "k")) with
    | "text" => do pure (BodyText.text (← decLoad (← fld (← fld c "body") "load")))
    | "undecodable" => pure BodyText.undecodable
    | k => throw s!"bad body {k}"
  let outs ← (← listOf str (← fld c "integrations")).mapM fun name => do
    let i ← decIntegration name
    let (r, ev) := rpcHandle i cfg sbe mime body "CTX"
    pure (name, obj [("reply", encHttpReply r), ("events", jlist encEvent ev)])
  return obj outs

end Pjrpc.Driver
