/-
  Driver glue (unverified): tagged-JSON line protocol <-> model values.
  Tagged encoding of a modelled JSON value (nothing is lost to JSON's own typing):
    ["n"] | ["b",true] | ["i","123"] | ["f","1.5"] | ["s","…"] | ["a",[…]] | ["o",[["k",…],…]]
-/
import Lean.Data.Json
import PjrpcModel.Msg
namespace Pjrpc.Driver
open Lean (Json)

abbrev J := Lean.Json
abbrev M := Except String

def fld (j : J) (k : String) : M J := j.getObjVal? k
def fldD (j : J) (k : String) : J := (j.getObjVal? k).toOption.getD .null
def str (j : J) : M String := j.getStr?
def bool (j : J) : M Bool := j.getBool?
def arr (j : J) : M (List J) := do return (← j.getArr?).toList
def isNull : J → Bool
  | .null => true
  | _ => false
def optional {α} (f : J → M α) (j : J) : M (Option α) := if isNull j then pure none else some <$> f j
def int (j : J) : M Int := do
  let s ← j.getStr?
  match s.toInt? with
  | some i => pure i
  | none => throw s!"bad int {s}"
def nat (j : J) : M Nat := do
  let i ← int j
  pure i.toNat
def listOf {α} (f : J → M α) (j : J) : M (List α) := do (← arr j).mapM f

partial def decJ (j : J) : M Pjrpc.Json := do
  let parts ← arr j
  match parts with
  | [t] => if (← str t) == "n" then pure .null else throw "bad tag"
  | [t, v] =>
    match (← str t) with
    | "b" => return .bool (← bool v)
    | "i" => return .int (← int v)
    | "f" => return .float (← str v)
    | "s" => return .str (← str v)
    | "a" => return .arr (← (← arr v).mapM decJ)
    | "o" =>
      let kvs ← (← arr v).mapM fun kv => do
        match (← arr kv) with
        | [k, x] => pure ((← str k), (← decJ x))
        | _ => throw "bad kv"
      return .obj kvs
    | t => throw s!"bad tag {t}"
  | _ => throw "bad tagged value"

partial def encJ : Pjrpc.Json → J
  | .null => .arr #[.str "n"]
  | .bool b => .arr #[.str "b", .bool b]
  | .int i => .arr #[.str "i", .str (toString i)]
  | .float t => .arr #[.str "f", .str t]
  | .str s => .arr #[.str "s", .str s]
  | .arr xs => .arr #[.str "a", .arr (xs.map encJ).toArray]
  | .obj kvs => .arr #[.str "o", .arr (kvs.map fun (k, v) => Lean.Json.arr #[Lean.Json.str k, encJ v]).toArray]

def obj (kvs : List (String × J)) : J := Lean.Json.mkObj kvs
def jstr (s : String) : J := .str s
def jint (i : Int) : J := .str (toString i)
def jlist {α} (f : α → J) (xs : List α) : J := .arr (xs.map f).toArray
def jopt {α} (f : α → J) : Option α → J
  | none => .null
  | some a => f a

def excName : Exc → String
  | .deserialization => "DeserializationError"
  | .identity => "IdentityError"
  | .baseError => "BaseError"
  | .assertion => "AssertionError"
  | .key => "KeyError"
  | .type_ => "TypeError"
  | .attribute => "AttributeError"
  | .value => "ValueError"
  | .jsonDecode => "JSONDecodeError"
  | .recursion => "RecursionError"
  | .validation => "ValidationError"
  | .connectionRefused => "ConnectionRefusedError"
  | .other t => t

def excOfName : String → Exc
  | "DeserializationError" => .deserialization
  | "IdentityError" => .identity
  | "BaseError" => .baseError
  | "AssertionError" => .assertion
  | "KeyError" => .key
  | "TypeError" => .type_
  | "AttributeError" => .attribute
  | "ValueError" => .value
  | "JSONDecodeError" => .jsonDecode
  | "RecursionError" => .recursion
  | "ValidationError" => .validation
  | "ConnectionRefusedError" => .connectionRefused
  | t => .other t

def encPy {α} (f : α → J) : Py α → J
  | .ok a => obj [("ok", f a)]
  | .raised e => obj [("raised", jstr (excName e))]

/-! message codecs -/

def decId (j : J) : M (Option ReqId) := do
  if isNull j then return none
  match (← decJ j) with
  | .int i => return some (.int i)
  | .str s => return some (.str s)
  | _ => throw "bad id"

def encId : Option ReqId → J
  | none => .null
  | some i => encJ i.toJson

def decParams (j : J) : M Params := do
  match (← str (← fld j "k")) with
  | "none" => return .none
  | "pos" =>
    match (← decJ (← fld j "v")) with
    | .arr xs => return .pos xs
    | _ => throw "bad pos params"
  | "named" =>
    match (← decJ (← fld j "v")) with
    | .obj kvs => return .named kvs
    | _ => throw "bad named params"
  | _ => throw "bad params kind"

def encParams : Params → J
  | .none => obj [("k", jstr "none")]
  | .pos xs => obj [("k", jstr "pos"), ("v", encJ (.arr xs))]
  | .named kvs => obj [("k", jstr "named"), ("v", encJ (.obj kvs))]

def decErrClass (j : J) : M ErrClass := do
  return ⟨← str (← fld j "name"), ← optional int (fldD j "code"), ← optional str (fldD j "message")⟩

def decReg (j : J) : M ErrRegistry := listOf decErrClass j

def decMaybe {α} (f : J → M α) (j : J) : M (MaybeSet α) := do
  if isNull j then return .unset else return .set (← f (← fld j "v"))

def encMaybe {α} (f : α → J) : MaybeSet α → J
  | .unset => .null
  | .set a => obj [("v", f a)]

def decRequest (j : J) : M Request := do
  return ⟨← str (← fld j "method"), ← decParams (← fld j "params"), ← decId (fldD j "id")⟩

def encRequest (r : Request) : J :=
  obj [("method", jstr r.method), ("params", encParams r.params), ("id", encId r.id)]

def decError (j : J) : M RpcError := do
  return ⟨← int (← fld j "code"), ← str (← fld j "message"), ← decMaybe decJ (fldD j "data"), ← str (← fld j "cls")⟩

def encError (e : RpcError) : J :=
  obj [("code", jint e.code), ("message", jstr e.message), ("data", encMaybe encJ e.data), ("cls", jstr e.cls)]

def decResponse (j : J) : M Response := do
  return ⟨← decId (fldD j "id"), ← decMaybe decJ (fldD j "result"), ← decMaybe decError (fldD j "error")⟩

def encResponse (r : Response) : J :=
  obj [("id", encId r.id), ("result", encMaybe encJ r.result), ("error", encMaybe encError r.error)]

end Pjrpc.Driver
