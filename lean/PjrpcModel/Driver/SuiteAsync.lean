/- Driver glue for suite `async` (C10, C11): drives Async.lean under a given schedule. -/
import PjrpcModel.Driver.SuiteDispatch
import PjrpcModel.Async
namespace Pjrpc.Driver

def encAEvent : AEvent → J
  | .ev i e => obj [("i", jint i), ("ev", encEvent e)]
  | .suspend i => obj [("i", jint i), ("suspend", .bool true)]

/-- suspension points: {"body": [["name", k]...], "mw0": k, "handler": k} -/
def decSusp (j : J) : M (Event → Nat) := do
  let body ← listOf (fun e => do
    match (← arr e) with
    | [n, k] => pure ((← str n), (← nat k))
    | _ => throw "bad susp entry") (← fld j "body")
  let mw0 ← nat (← fld j "mw0")
  let h ← nat (← fld j "handler")
  return fun e => match e with
    | .exec m _ => ((body.find? (fun p => p.1 == m)).map (·.2)).getD 0
    | .mwEnter 0 _ _ => mw0
    | .handler none _ _ => h          -- only the generic handlers suspend in the harness
    | _ => 0

def suiteAsync (c : J) : M J := do
  let cfg ← decConfig (← fld c "cfg")
  let lr ← decLoad (← fld c "load")
  let ctx ← if isNull (fldD c "ctx") then pure "CTX" else str (fldD c "ctx")
  let susp ← decSusp (← fld c "susp")
  let concurrent ← bool (← fld c "concurrent")
  let sched ← listOf nat (← fld c "schedule")
  match dispatchAsync cfg lr ctx susp concurrent sched with
  | .incomplete => return obj [("incomplete", .bool true)]
  | .result r log => return obj [("result", encDispatchResult r), ("log", jlist encAEvent log)]

end Pjrpc.Driver
