/- Driver glue for suite `msg` (C05, C06): drives Msg.lean. -/
import PjrpcModel.Driver.Codec
namespace Pjrpc.Driver

def encBatchRequest (b : BatchRequest) : J :=
  obj [("requests", jlist encRequest b.requests), ("ids", jlist (fun i => encJ i.toJson) b.ids)]

def encBatchResponse (b : BatchResponse) : J :=
  obj [("responses", jlist encResponse b.responses), ("ids", jlist (fun i => encJ i.toJson) b.ids),
       ("error", encMaybe encError b.error)]

/-- error spec: {"ecls":ErrClass,"code":int?,"message":str?,"data":maybe} -/
def buildError (j : J) : M (Py RpcError) := do
  let c ← decErrClass (← fld j "ecls")
  return RpcError.construct c (← optional int (fldD j "code")) (← optional str (fldD j "message"))
    (← decMaybe decJ (fldD j "data"))

def buildResponse (j : J) : M (Py Response) := do
  let id ← decId (fldD j "id")
  let result ← decMaybe decJ (fldD j "result")
  let ej := fldD j "error"
  if isNull ej then
    return Response.construct id result .unset
  else
    match (← buildError ej) with
    | .raised e => return .raised e
    | .ok e => return Response.construct id result (.set e)

def suiteMsg (c : J) : M J := do
  let op ← str (← fld c "op")
  let reg ← if isNull (fldD c "reg") then pure builtinRegistry else decReg (fldD c "reg")
  let cls ← if isNull (fldD c "cls") then pure ErrClass.jsonRpcError else decErrClass (fldD c "cls")
  match op with
  | "req_from_json" => return encPy encRequest (Request.fromJson (← decJ (← fld c "j")))
  | "resp_from_json" => return encPy encResponse (Response.fromJson reg cls (← decJ (← fld c "j")))
  | "err_from_json" => return encPy encError (RpcError.fromJson reg cls (← decJ (← fld c "j")))
  | "breq_from_json" => return encPy encBatchRequest (BatchRequest.fromJson (← decJ (← fld c "j")))
  | "bresp_from_json" => return encPy encBatchResponse (BatchResponse.fromJson reg cls (← decJ (← fld c "j")))
  | "req_build" =>
    let r ← decRequest (← fld c "req")
    let wire := r.toJson
    let back := Request.fromJson wire
    let wire2 := match back with
      | .ok r2 => encJ r2.toJson
      | .raised _ => .null
    return obj [("built", jstr "ok"), ("wire", encJ wire), ("back", encPy encRequest back), ("wire2", wire2)]
  | "err_build" =>
    match (← buildError (← fld c "err")) with
    | .raised e => return obj [("built", jstr (excName e))]
    | .ok e =>
      let wire := e.toJson
      let back := RpcError.fromJson reg cls wire
      let wire2 := match back with
        | .ok e2 => encJ e2.toJson
        | .raised _ => .null
      return obj [("built", jstr "ok"), ("self", encError e), ("wire", encJ wire), ("back", encPy encError back), ("wire2", wire2)]
  | "resp_build" =>
    match (← buildResponse (← fld c "resp")) with
    | .raised e => return obj [("built", jstr (excName e))]
    | .ok r =>
      let wire := r.toJson
      let back := Response.fromJson reg cls wire
      let wire2 := match back with
        | .ok r2 => encJ r2.toJson
        | .raised _ => .null
      return obj [("built", jstr "ok"), ("wire", encJ wire), ("back", encPy encResponse back), ("wire2", wire2)]
  | "breq_build" =>
    let rs ← listOf decRequest (← fld c "reqs")
    match BatchRequest.construct rs with
    | .raised e => return obj [("built", jstr (excName e))]
    | .ok b =>
      let wire := b.toJson
      let back := BatchRequest.fromJson wire
      let wire2 := match back with
        | .ok b2 => encJ b2.toJson
        | .raised _ => .null
      return obj [("built", jstr "ok"), ("wire", encJ wire), ("back", encPy encBatchRequest back), ("wire2", wire2),
                  ("is_notification", .bool b.isNotification)]
  | "bresp_build" =>
    let rsPy ← (← arr (← fld c "resps")).mapM buildResponse
    let errj := fldD c "error"
    let err : Py (MaybeSet RpcError) ←
      if isNull errj then pure (.ok .unset) else do
        match (← buildError errj) with
        | .raised e => pure (.raised e)
        | .ok e => pure (.ok (.set e))
    match mapPy id rsPy, err with
    | .raised e, _ => return obj [("built", jstr (excName e))]
    | _, .raised e => return obj [("built", jstr (excName e))]
    | .ok rs, .ok err =>
      match BatchResponse.construct rs err with
      | .raised e => return obj [("built", jstr (excName e))]
      | .ok b =>
        let wire := b.toJson
        let back := BatchResponse.fromJson reg cls wire
        let wire2 := match back with
          | .ok b2 => encJ b2.toJson
          | .raised _ => .null
        return obj [("built", jstr "ok"), ("wire", encJ wire), ("back", encPy encBatchResponse back), ("wire2", wire2)]
  | "breq_hist" =>
    let strict ← bool (← fld c "strict")
    let ops ← arr (← fld c "ops")
    let mut b := BatchRequest.empty strict
    let mut outs : List J := []
    for o in ops do
      let k ← str (← fld o "k")
      let res ← match k with
        | "append" => do pure (b.append (← decRequest (← fld o "r")))
        | "extend" => do pure (b.extend (← listOf decRequest (← fld o "rs")))
        | _ => throw "bad hist op"
      match res with
      | .ok b' => b := b'; outs := outs ++ [jstr "ok"]
      | .raised e => outs := outs ++ [jstr (excName e)]
    return obj [("outs", .arr outs.toArray), ("final", encBatchRequest b)]
  | "bresp_hist" =>
    let strict ← bool (← fld c "strict")
    let ops ← arr (← fld c "ops")
    let mut b : BatchResponse := ⟨[], [], .unset, strict⟩
    let mut outs : List J := []
    for o in ops do
      let k ← str (← fld o "k")
      let res ← match k with
        | "append" => do pure (b.append (← decResponse (← fld o "r")))
        | "extend" => do pure (b.extend (← listOf decResponse (← fld o "rs")))
        | _ => throw "bad hist op"
      match res with
      | .ok b' => b := b'; outs := outs ++ [jstr "ok"]
      | .raised e => outs := outs ++ [jstr (excName e)]
    return obj [("outs", .arr outs.toArray), ("final", encBatchResponse b)]
  | _ => throw s!"unknown msg op {op}"

end Pjrpc.Driver
