/- Driver glue for suites `specs` (C16) and `specbind` (C17): drives Spec.lean. -/
import PjrpcModel.Driver.SuiteDispatch
import PjrpcModel.Spec
namespace Pjrpc.Driver

def decSpecMethod (j : J) : M SpecMethod := do
  return {
    endpoint := ← str (← fld j "endpoint")
    name := ← str (← fld j "name")
    errorsCell := ← optional nat (fldD j "cell")
    extErrors := ← listOf int (← fld j "ext")
    prefixAnn := ← optional str (fldD j "prefix")
    tags := ← listOf str (← fld j "tags")
    comps := ← listOf str (← fld j "comps")
    refs := ← listOf str (← fld j "refs")
  }

def encEntry (e : OpEntry) : J :=
  obj [("key", jstr e.key), ("errors", jlist jint e.errors), ("tags", jlist jstr e.tags), ("refs", jlist jstr e.refs)]

def suiteSpecs (c : J) : M J := do
  match (← str (← fld c "op")) with
  | "specbind" =>
    let (_, m) ← decMethod (← fld c "method")
    let keysets ← listOf (listOf str) (← fld c "keysets")
    let accepts := keysets.map fun ks =>
      match sigBind (reduceSig m.sig m.exclusions) (.named (ks.map fun k => (k, Json.int 1))) with
      | .ok _ => true
      | .raised _ => false
    return obj [("documented", jlist jstr (documentedNames m)), ("required", jlist jstr (requiredNames m)),
                ("accepts", jlist (fun b => Lean.Json.bool b) accepts)]
  | "utils" =>
    let a ← str (← fld c "a")
    match (← str (← fld c "fn")) with
    | "join_path" => return obj [("v", jstr (joinPaths a (← listOf str (← fld c "parts"))))]
    | "remove_prefix" => return obj [("v", jstr (removePrefix a (← str (← fld c "b"))))]
    | "remove_suffix" => return obj [("v", jstr (removeSuffix a (← str (← fld c "b"))))]
    | f => throw s!"bad utils fn {f}"
  | op =>
    let heap ← listOf (listOf int) (← fld c "heap")
    let ms ← listOf decSpecMethod (← fld c "methods")
    let copy ← bool (← fld c "copy")
    let gens ← nat (← fld c "generations")
    let path ← if op == "openrpc" then pure "" else str (← fld c "path")
    let dp ← if op == "openrpc" then pure "" else str (← fld c "default_prefix")
    let mut h := heap
    let mut docs : List J := []
    for _ in [0:gens] do
      let st := if op == "openrpc" then genOpenRpc copy h ms
        else genOpenApi copy rstripSlash lstripSlash path dp h ms
      h := st.heap
      docs := docs ++ [obj [("paths", jlist encEntry st.doc.paths), ("components", jlist jstr st.doc.components)]]
    return obj [("docs", .arr docs.toArray), ("heap", jlist (jlist jint) h)]

end Pjrpc.Driver
