/- Driver glue for suite `client` (C07, C08, C09, C19, C11): drives Client / Retry / Tracer. -/
import PjrpcModel.Driver.SuiteDispatch
import PjrpcModel.ClientRun
namespace Pjrpc.Driver

instance : HPow Float Nat Float := ⟨fun x n => Float.pow x n.toFloat⟩
instance : NatCast Float := ⟨Nat.toFloat⟩

def decFloat (j : J) : M Float := do
  let s ← str j
  match s.toNat? with
  | some n => pure (Float.ofBits n.toUInt64)
  | none => throw s!"bad float bits {s}"

def encFloat (f : Float) : J := jstr (toString f.toBits.toNat)

def decWire (j : J) : M WireReply := do
  match (← str (← fld j "k")) with
  | "none" => pure .noBody
  | "empty" => pure .emptyText
  | "text" => return .text (← decLoad (← fld j "load"))
  | "exc" => return .raises (excOfName (← str (← fld j "name")))
  | k => throw s!"bad wire reply {k}"

def decAnyRequest (j : J) : M AnyRequest := do
  match (← str (← fld j "kind")) with
  | "single" => return .single (← decRequest (← fld j "req"))
  | "batch" => return .batch (← listOf decRequest (← fld j "reqs"))
  | k => throw s!"bad request kind {k}"

def decJitter (j : J) : M (Nat → Float) := do
  let xs ← listOf decFloat j
  return fun k => xs.getD k 0.0

def decBackoff (j : J) : M (List Float) := do
  let attempts ← nat (← fld j "attempts")
  let jitter ← decJitter (← fld j "jitter")
  match (← str (← fld j "k")) with
  | "periodic" => return periodicDelays attempts (← decFloat (← fld j "interval")) jitter
  | "exponential" =>
    return exponentialDelays attempts (← decFloat (← fld j "base")) (← decFloat (← fld j "factor"))
      (← optional decFloat (fldD j "max")) jitter
  | "fibonacci" =>
    return fibonacciDelays attempts (← decFloat (← fld j "multiplier")) (← optional decFloat (fldD j "max")) jitter
  | k => throw s!"bad backoff {k}"

def decStrategy (j : J) : M (RetryStrategy Float) := do
  return {
    delays := ← decBackoff (← fld j "backoff")
    codes := ← (if isNull (fldD j "codes") then pure [] else listOf int (fldD j "codes"))
    excs := ← (if isNull (fldD j "excs") then pure [] else listOf str (fldD j "excs"))
  }

def decClientCfg (j : J) : M ClientCfg := do
  return {
    strict := ← bool (← fld j "strict")
    errorCls := ← (if isNull (fldD j "error_cls") then pure ErrClass.jsonRpcError else decErrClass (fldD j "error_cls"))
    reg := ← (if isNull (fldD j "reg") then pure builtinRegistry else decReg (fldD j "reg"))
  }

def encClientExc : ClientExc → J
  | .exc e => obj [("exc", jstr (excName e))]
  | .rpc e => obj [("rpc", encError e)]

def encBatchResp (b : BatchResponse) : J :=
  obj [("responses", jlist encResponse b.responses), ("error", encMaybe encError b.error)]

def encAnyResponse : Option AnyResponse → J
  | none => .null
  | some (.single r) => obj [("single", encResponse r)]
  | some (.batch b) => obj [("batch", encBatchResp b)]

def encAttempt : Attempt (Option AnyResponse) ClientExc → J
  | .resp r => obj [("resp", encAnyResponse r)]
  | .exc e => obj [("raised", encClientExc e)]

def encTEvent : TEvent (Option AnyResponse) ClientExc → J
  | .begin t c => obj [("t", jint t), ("ctx", jint c), ("k", jstr "begin")]
  | .end_ t c r => obj [("t", jint t), ("ctx", jint c), ("k", jstr "end"), ("resp", encAnyResponse r)]
  | .error t c e => obj [("t", jint t), ("ctx", jint c), ("k", jstr "error"), ("exc", encClientExc e)]

def encCallValue : Outcome CallValue → J
  | .ok (.value v) => obj [("value", encJ v)]
  | .ok (.tuple vs) => obj [("tuple", jlist encJ vs)]
  | .ok .nothing => obj [("nothing", .bool true)]
  | .raised e => obj [("raised", encClientExc e)]

/-- which request each response of the final answer is related to (by id) -/
def relatedIds (req : AnyRequest) : Option AnyResponse → J
  | none => .null
  | some (.single _) => match req with
    | .single r => .arr #[encId r.id]
    | _ => .null
  | some (.batch b) => match req with
    | .batch rs =>
      if b.isError then .null
      else jlist (fun (r : Response) => match r.id with
        | some i => if (callIdsOf rs).contains i then encId (some i) else .null
        | none => .null) b.responses
    | _ => .null

def decCallSpec (j : J) : M CallSpec := do
  let args ← if isNull (fldD j "args") then pure [] else (do
    match (← decJ (fldD j "args")) with
    | .arr xs => pure xs
    | _ => throw "bad args")
  let kwargs ← if isNull (fldD j "kwargs") then pure [] else decObj (fldD j "kwargs")
  return ⟨← str (← fld j "method"), args, kwargs, ← (if isNull (fldD j "notify") then pure false else bool (fldD j "notify"))⟩

def decGen (j : J) : M (Nat → ReqId) := do
  match (← str (← fld j "k")) with
  | "sequential" => return sequentialGen (← int (← fld j "start")) (← int (← fld j "step"))
  | "fixed" =>
    let ids ← (← arr (← fld j "ids")).mapM decId
    return fun k => (ids.getD k none).getD (.int 0)
  | k => throw s!"bad id generator {k}"

def suiteClient (c : J) : M J := do
  let op ← str (← fld c "op")
  match op with
  | "build" =>
    let gen ← decGen (← fld c "idgen")
    let nota ← str (← fld c "notation")
    let items ← listOf decCallSpec (← fld c "items")
    let res : Py Json :=
      match nota with
      | "single" =>
        match items with
        | [it] => (buildCall (gen 0) it).bind (fun r => .ok r.toJson)
        | _ => .raised (.other "bad-case")
      | "getitem" =>
        (buildBatchGetitem gen (BatchRequest.empty true) (items.map (fun it => (it.method, it.args)))).bind
          (fun b => .ok b.toJson)
      | _ => (buildBatch gen 0 (BatchRequest.empty true) items).bind (fun b => .ok b.toJson)
    return encPy encJ res
  | "send" =>
    let cl ← fld c "client"
    let cfg ← decClientCfg cl
    let nTr ← nat (← fld cl "tracers")
    let callerCtx ← bool (← fld cl "caller_ctx")
    let mros ← listOf (fun e => do
      match (← arr e) with
      | [n, m] => pure ((← str n), (← listOf str m))
      | _ => throw "bad mro entry") (← fld cl "mros")
    let mroOf : String → List String := fun t => ((mros.find? (fun p => p.1 == t)).map (·.2)).getD [t]
    let clientStrategy ← optional decStrategy (fldD cl "retry")
    let perRequest : Option (Option (RetryStrategy Float)) ←
      match c.getObjVal? "req_retry" with
      | .ok v => do pure (some (← optional decStrategy v))
      | .error _ => pure none
    let req ← decAnyRequest (← fld c "request")
    let replies ← listOf decWire (← fld c "attempts")
    let replyAt : Nat → WireReply := fun k => replies.getD k (replies.getLast?.getD .noBody)
    let isCall ← bool (← fld c "call")
    let r := clientSend cfg mroOf nTr callerCtx clientStrategy perRequest req replyAt
    return obj [
      ("wire", encJ req.toJson),
      ("sends", jint r.run.sends),
      ("sleeps", jlist encFloat r.run.sleeps),
      ("final", encAttempt r.run.final),
      ("value", encCallValue (callValue isCall r.run.final)),
      ("related", match r.run.final with
        | .resp x => relatedIds req x
        | .exc _ => .null),
      ("trace", jlist encTEvent r.trace)]
  | "loopback" =>
    let cl ← fld c "client"
    let cfg ← decClientCfg cl
    let server ← decConfig (← fld c "server")
    let req ← decAnyRequest (← fld c "request")
    let isCall ← bool (← fld c "call")
    let (res, ev) := dispatch server (.ok req.toJson) "CTX"
    let reply : WireReply := match res with
      | .nothing => .noBody
      | .reply doc _ => .text (.ok doc)
      | .raised e => .raises e
    let out := sendAny cfg req reply
    return obj [
      ("wire", encJ req.toJson),
      ("value", encCallValue (callValue isCall out)),
      ("events", jlist encEvent ev)]
  | _ => throw s!"unknown client op {op}"

end Pjrpc.Driver
