/- Driver glue for suite `registry` (C15): drives Registry.lean. -/
import PjrpcModel.Driver.Codec
import PjrpcModel.Registry
namespace Pjrpc.Driver

def decAddItem (j : J) : M AddItem := do
  let f ← str (← fld j "fn")
  if isNull (fldD j "mname") then return .fn f else return .methodObj f (← str (fldD j "mname"))

def decMember (j : J) : M ViewMember := do
  return ⟨← str (← fld j "attr"), ← optional str (fldD j "target")⟩

partial def decRegExpr (classes : J) (j : J) : M RegExpr := do
  match (← str (← fld j "op")) with
  | "new" => return .new (← optional str (fldD j "prefix"))
  | "add" => return .add (← decRegExpr classes (← fld j "r")) (← str (← fld j "fn")) (← optional str (fldD j "name"))
  | "add_methods" => return .addMethods (← decRegExpr classes (← fld j "r")) (← listOf decAddItem (← fld j "items"))
  | "view" =>
    let cls ← str (← fld j "cls")
    let members ← listOf decMember (← fld classes cls)
    return .view (← decRegExpr classes (← fld j "r")) cls members (← optional str (fldD j "prefix"))
  | "merge" => return .merge (← decRegExpr classes (← fld j "r")) (← decRegExpr classes (← fld j "other"))
  | k => throw s!"bad registry op {k}"

def suiteRegistry (c : J) : M J := do
  let e ← decRegExpr (← fld c "classes") (← fld c "expr")
  let r := e.eval
  let probes ← listOf str (← fld c "probes")
  return obj [
    ("keys", jlist jstr (r.entries.map (·.name))),
    ("targets", jlist jstr (r.entries.map (·.target))),
    ("probes", jlist (fun p => obj [("name", jstr p), ("target", jopt jstr (r.get p))]) probes)]

end Pjrpc.Driver
