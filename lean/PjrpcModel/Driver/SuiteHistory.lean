/- Driver glue for suite `history` (C13): a sequence of dispatches on one dispatcher. -/
import PjrpcModel.Driver.SuiteDispatch
import PjrpcModel.Cache
namespace Pjrpc.Driver

/-- the method-layer calls a request text causes (in order) -/
def methodCallsOf (cfg : Config) (lr : LoadResult) : List (String × Params) :=
  match lr with
  | .ok j =>
    if j.isArr then
      match BatchRequest.fromJson j with
      | .ok b => if tooLarge cfg.maxBatchSize b.requests.length then [] else b.requests.map (fun r => (r.method, r.params))
      | .raised _ => []
    else
      match Request.fromJson j with
      | .ok r => [(r.method, r.params)]
      | .raised _ => []
  | _ => []

def suiteHistory (c : J) : M J := do
  let cfg ← decConfig (← fld c "cfg")
  let loads ← listOf decLoad (← fld c "loads")
  -- ids: position of the method in the registry (validator 0 = the default validator)
  let idOf : MethodDef → MethodIds := fun m =>
    ⟨0, (cfg.registry.findIdx? (fun kv => kv.2.name == m.name)).getD 0⟩
  let fullSig : MethodDef → Signature := fun m => if m.view then ⟨"self", .posOrKw, false⟩ :: m.sig else m.sig
  let sigs : Nat → Signature := fun f => match cfg.registry[f]? with
    | some kv => fullSig kv.2
    | none => []
  let pinned := (← str (← fld c "keying")) == "pinned"
  let key : Nat → MethodDef → SigKey := fun n m => if pinned then keyPinned m (idOf m) (1000 + n) else keyFixed m (idOf m)
  let calls := (loads.map (methodCallsOf cfg)).flatten
  let (_, memo) := runHistory cfg.registry fullSig key sigs 0 [] calls
  let outs := loads.map fun lr =>
    let (r, ev) := dispatch cfg lr "CTX"
    obj [("result", encDispatchResult r), ("events", jlist encEvent ev)]
  return obj [("outs", .arr outs.toArray), ("memo_size", jint memo.length), ("retained", jint (memoRetains memo).length)]

end Pjrpc.Driver
