/- Driver glue for suite `dispatch` (C01–C04, C11, C12, C14, C15 probes): drives Dispatch.lean. -/
import PjrpcModel.Driver.Codec
import PjrpcModel.Dispatch
namespace Pjrpc.Driver

def decKind : String → M ParamKind
  | "po" => pure .posOnly | "pk" => pure .posOrKw | "vp" => pure .varPos
  | "ko" => pure .kwOnly | "vk" => pure .varKw
  | k => throw s!"bad param kind {k}"

def decParam (j : J) : M Param := do
  return ⟨← str (← fld j "n"), ← decKind (← str (← fld j "k")), ← bool (← fld j "d")⟩

def decSig (j : J) : M Signature := listOf decParam j

def decObj (j : J) : M KwArgs := do
  match (← decJ j) with
  | .obj kvs => pure kvs
  | _ => throw "expected tagged object"

def decBody (j : J) : M (Json → MethodOutcome) := do
  match (← str (← fld j "k")) with
  | "echo" => pure fun recv => .ret recv
  | "const" => let v ← decJ (← fld j "v"); pure fun _ => .ret v
  | "rpc" => let e ← decError (← fld j "err"); pure fun _ => .rpc e
  | "exc" => let t ← str (← fld j "tag"); pure fun _ => .exc t
  | k => throw s!"bad body kind {k}"

def decPost (j : J) : M (KwArgs → Option KwArgs) := do
  if isNull j then return some
  match (← str (← fld j "k")) with
  | "accept" => pure some
  | "reject" => pure fun _ => none
  | "replace" => let a ← decObj (← fld j "args"); pure fun _ => some a
  | k => throw s!"bad post kind {k}"

def decMethod (j : J) : M (String × MethodDef) := do
  let name ← str (← fld j "name")
  let key ← if isNull (fldD j "key") then pure name else str (fldD j "key")
  let m : MethodDef := {
    name := name
    sig := ← decSig (← fld j "sig")
    ctx := ← optional str (fldD j "ctx")
    positional := ← (if isNull (fldD j "positional") then pure false else bool (fldD j "positional"))
    view := ← (if isNull (fldD j "view") then pure false else bool (fldD j "view"))
    excluded := ← (if isNull (fldD j "excluded") then pure [] else listOf str (fldD j "excluded"))
    initRaises := ← (if isNull (fldD j "initRaises") then pure false else bool (fldD j "initRaises"))
    post := ← decPost (fldD j "post")
    body := ← decBody (← fld j "body")
  }
  return (key, m)

def decMw (j : J) : M MwKind := do
  match (← str (← fld j "k")) with
  | "pass" => pure .pass
  | "short" => return .short (← decJ (← fld j "v"))
  | "shortFixed" => return .shortFixed (← decId (fldD j "id")) (← decJ (← fld j "v"))
  | "rename" => return .rename (← str (← fld j "to"))
  | "setParams" => return .setParams (← decParams (← fld j "p"))
  | "wrapResult" => pure .wrapResult
  | "appendParam" => return .appendParam (← decJ (← fld j "v"))
  | k => throw s!"bad middleware kind {k}"

def decHandlerKind (j : J) : M HandlerKind := do
  match (← str (← fld j "k")) with
  | "ident" => pure .ident
  | "recode" => return .recode (← int (← fld j "code"))
  | "setData" => return .setData (← decJ (← fld j "d"))
  | k => throw s!"bad handler kind {k}"

def decHandlers (j : J) : M HandlerTable :=
  listOf (fun e => do return (← optional int (fldD e "key"), ← listOf decHandlerKind (← fld e "hs"))) j

def decConfig (j : J) : M Config := do
  return {
    registry := ← listOf decMethod (← fld j "methods")
    middlewares := ← (if isNull (fldD j "middlewares") then pure [] else listOf decMw (fldD j "middlewares"))
    handlers := ← (if isNull (fldD j "handlers") then pure [] else decHandlers (fldD j "handlers"))
    maxBatchSize := ← optional int (fldD j "max_batch_size")
  }

def decLoad (j : J) : M LoadResult := do
  match (← str (← fld j "k")) with
  | "ok" => return .ok (← decJ (← fld j "j"))
  | "decodeError" => pure .decodeError
  | "valueError" => pure .valueError
  | "recursionError" => pure .recursionError
  | k => throw s!"bad load kind {k}"

def encEvent : Event → J
  | .exec m r => obj [("e", jstr "exec"), ("m", jstr m), ("recv", encJ r)]
  | .mwEnter i m c => obj [("e", jstr "enter"), ("i", jint i), ("m", jstr m), ("ctx", jstr c)]
  | .mwLeave i => obj [("e", jstr "leave"), ("i", jint i)]
  | .handler k i c => obj [("e", jstr "handler"), ("key", jopt jint k), ("i", jint i), ("code", jint c)]

def encDispatchResult : DispatchResult → J
  | .nothing => obj [("k", jstr "nothing")]
  | .reply doc codes => obj [("k", jstr "reply"), ("doc", encJ doc), ("codes", jlist jint codes)]
  | .raised e => obj [("k", jstr "raised"), ("exc", jstr (excName e))]

def suiteDispatch (c : J) : M J := do
  let cfg ← decConfig (← fld c "cfg")
  let lr ← decLoad (← fld c "load")
  let ctx ← if isNull (fldD c "ctx") then pure "CTX" else str (fldD c "ctx")
  let (r, ev) := dispatch cfg lr ctx
  return obj [("result", encDispatchResult r), ("events", jlist encEvent ev)]

end Pjrpc.Driver
