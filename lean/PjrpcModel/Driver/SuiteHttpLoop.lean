/- Driver glue for suite `httploop` (C18, C07, C08): drives Backend.lean (client HTTP backends, alone and
   composed with the server integrations). -/
import PjrpcModel.Driver.SuiteClient
import PjrpcModel.Driver.SuiteHttp
import PjrpcModel.Backend
namespace Pjrpc.Driver

def decHttpOutcome (j : J) : M HttpOutcome := do
  match (← str (← fld j "k")) with
  | "failed" => return .failed (excOfName (← str (← fld j "name")))
  | "response" =>
    let body ← match (← str (← fld (← fld j "body") "k")) with
      | "empty" => pure HttpBody.empty
      | "text" => do pure (HttpBody.text (← decLoad (← fld (← fld j "body") "load")))
      | k => throw s!"bad http body {k}"
    return .response (← int (← fld j "status")) (← optional str (fldD j "ct")) body
  | k => throw s!"bad http outcome {k}"

def encWire : WireReply → J
  | .noBody => obj [("k", jstr "none")]
  | .emptyText => obj [("k", jstr "empty")]
  | .text lr => obj [("k", jstr "text"), ("load", match lr with
      | .ok j => encJ j
      | .decodeError => jstr "decodeError"
      | .valueError => jstr "valueError"
      | .recursionError => jstr "recursionError")]
  | .raises e => obj [("k", jstr "exc"), ("name", jstr (excName e))]

def suiteHttpLoop (c : J) : M J := do
  let cfg ← decClientCfg (← fld c "client")
  let req ← decAnyRequest (← fld c "request")
  let rfs ← bool (← fld c "rfs")
  match (← str (← fld c "op")) with
  | "backend" =>
    let o ← decHttpOutcome (← fld c "http")
    let w := backendRequest rfs req.isNotification o
    return obj [("wire", encWire w), ("final", encAttempt (sendAny cfg req w))]
  | "exchange" =>
    let server ← decConfig (← fld c "server")
    let sbe ← decStatusFn (← fld c "status")
    let params ← optional str (fldD c "params")
    let outs ← (← listOf str (← fld c "integrations")).mapM fun name => do
      let i ← decIntegration name
      let (w, ev) := httpExchange i server sbe params rfs req "CTX"
      pure (name, obj [("wire", encWire w), ("final", encAttempt (sendAny cfg req w)), ("events", jlist encEvent ev)])
    return obj outs
  | op => throw s!"unknown httploop op {op}"

end Pjrpc.Driver
