/- Driver glue for suite `mocker` (C20): drives Mocker.lean. -/
import PjrpcModel.Driver.SuiteDispatch
import PjrpcModel.Mocker
namespace Pjrpc.Driver

def decPatch (j : J) : M Patch := do
  let pj ← fld j "payload"
  let payload ← match (← str (← fld pj "k")) with
    | "result" => do pure (PatchPayload.result (← decJ (← fld pj "v")))
    | "error" => do pure (PatchPayload.error (← decError (← fld pj "err")))
    | "callback" => do pure (PatchPayload.callback (← str (← fld pj "tag")))
    | "callback_raises" => pure PatchPayload.callbackRaises
    | "nothing" => pure PatchPayload.nothing
    | k => throw s!"bad payload {k}"
  return ⟨← bool (← fld j "once"), payload, ← decId (fldD j "id")⟩

def encMockReply : MockReply → J
  | .passthrough => obj [("k", jstr "passthrough")]
  | .refused => obj [("k", jstr "refused")]
  | .text d => obj [("k", jstr "text"), ("doc", encJ d)]
  | .raised e => obj [("k", jstr "raised"), ("exc", jstr (excName e))]

def encCalls (cs : Calls) : J :=
  jlist (fun (ep, ms) => obj [("ep", jstr ep), ("methods",
    jlist (fun (m, ps) => obj [("m", jstr m), ("calls", jlist encParams ps)]) ms)]) cs

def suiteMocker (c : J) : M J := do
  let mut s : MockState := { passthrough := ← bool (← fld c "passthrough") }
  let mut outs : List J := []
  for o in (← arr (← fld c "ops")) do
    match (← str (← fld o "op")) with
    | "add" => s := s.add (← str (← fld o "ep")) (← str (← fld o "m")) (← decPatch (← fld o "patch")); outs := outs ++ [jstr "ok"]
    | "replace" =>
      s := s.replace (← str (← fld o "ep")) (← str (← fld o "m")) (← nat (← fld o "idx")) (← decPatch (← fld o "patch"))
      outs := outs ++ [jstr "ok"]
    | "remove" => s := s.remove (← str (← fld o "ep")) (← optional str (fldD o "m")); outs := outs ++ [jstr "ok"]
    | "reset" => s := s.reset; outs := outs ++ [jstr "ok"]
    | "request" =>
      match (← decLoad (← fld o "load")) with
      | .ok doc =>
        let (s', r) := s.request (← str (← fld o "ep")) doc
        s := s'
        outs := outs ++ [encMockReply r]
      | _ => throw "mocker request must be JSON"
    | k => throw s!"bad mocker op {k}"
  return obj [("outs", .arr outs.toArray), ("calls", encCalls s.calls),
              ("queues", jlist (fun (ep, ms) => obj [("ep", jstr ep), ("methods",
                 jlist (fun (m, q) => obj [("m", jstr m), ("n", jint q.length)]) ms)]) s.patches)]

end Pjrpc.Driver
