/-
  pjrpc/client/backend/{requests,aiohttp,httpx}.py `_request`: the HTTP transports of the client,
  and their composition with the server-side HTTP integrations of Http.lean (a client of the library
  talking to a server of the library over HTTP).

  All four `_request` bodies are the same five statements (requests.py:39-53, aiohttp.py:38-53,
  httpx.py:33-47 and 97-116):

      headers['Content-Type'] = pjrpc.common.DEFAULT_CONTENT_TYPE
      resp = post(endpoint, request_text)              -- may raise (connection level)
      if raise_for_status: resp.raise_for_status()     -- 4xx / 5xx -> the HTTP library's status error
      if is_notification: return None
      content_type = resp.headers.get('Content-Type', '')
      if response_text and content_type.split(';')[0] not in RESPONSE_CONTENT_TYPES: raise DeserializationError
      return response_text

  (the aiohttp and the asynchronous httpx variant read the body before the notification test, which
  is not observable).  The HTTP library itself (connection handling, status parsing, decoding of the
  body) is an input of the model: `HttpOutcome`.
-/
import PjrpcModel.Http
import PjrpcModel.ClientRun
namespace Pjrpc

/-- `content_type.split(';')[0]`: the header value up to the first `;` — not trimmed, not case-folded -/
def splitSemiChars : List Char → List Char
  | [] => []
  | c :: cs => if c == ';' then [] else c :: splitSemiChars cs

def splitSemi (s : String) : String := String.ofList (splitSemiChars s.toList)

/-- the body of an HTTP reply as the client reads it (`resp.text`) -/
inductive HttpBody where
  | empty                          -- ''
  | text (lr : LoadResult)         -- non-empty; `lr` is what the client's JSON loader makes of it
  deriving Repr, DecidableEq, Inhabited

/-- what the HTTP library reports for one POST -/
inductive HttpOutcome where
  | failed (e : Exc)                                                     -- `post` raised
  | response (status : Int) (contentType : Option String) (body : HttpBody)   -- raw Content-Type header
  deriving Repr, DecidableEq, Inhabited

/-- the class the HTTP libraries raise from `raise_for_status()` (requests.HTTPError,
aiohttp.ClientResponseError, httpx.HTTPStatusError); the harness maps all three to this name -/
def httpStatusError : Exc := .other "HTTPStatusError"

/-- `raise_for_status()` raises for client and server error statuses -/
def statusRaises (status : Int) : Bool := decide (400 ≤ status)

/-- the content-type test of the backends -/
def responseTypeAccepted (contentType : Option String) : Bool :=
  Defaults.responseContentTypes.contains (splitSemi (contentType.getD ""))

/-- `_request(request_text, is_notification)` of the HTTP backends -/
def backendRequest (raiseForStatus : Bool) (isNotification : Bool) : HttpOutcome → WireReply
  | .failed e => .raises e
  | .response status ct body =>
    if raiseForStatus && statusRaises status then .raises httpStatusError
    else if isNotification then .noBody
    else
      match body with
      | .empty => .emptyText                                  -- `response_text and …` is falsy
      | .text lr => if responseTypeAccepted ct then .text lr else .raises .deserialization

/-- `request.is_notification` as `_send` passes it: for a batch, every element is a notification -/
def AnyRequest.isNotification : AnyRequest → Bool
  | .single r => r.isNotification
  | .batch rs => rs.all Request.isNotification

/-- the content type the frameworks put on the wire for a reply with the given media type: the
header may carry parameters (`application/json; charset=utf-8`); `params` is whatever the framework
appends (possibly nothing) -/
def headerOf (mediaType : String) (params : Option String) : String :=
  match params with
  | none => mediaType
  | some p => mediaType ++ ";" ++ p

/-- how a reply of the server-side integrations looks to the HTTP client.  A reply without a
document that is not the plain 200 (415, 400, 500) carries the framework's own error page: a
non-empty, non-JSON body under a non-JSON media type (`text/html`, `text/plain`). -/
def asSeenByClient (params : Option String) (r : HttpReply) : HttpOutcome :=
  match r.body with
  | some doc => .response r.status ((r.contentType.map (headerOf · params))) (.text (.ok doc))
  | none =>
    if r.status == 200 then .response 200 (r.contentType.map (headerOf · params)) .empty
    else .response r.status (some (headerOf "text/html" params)) (.text .decodeError)

/-- one exchange between a client backend and an integration serving `server`: the request text is
the client's serialisation of `req`, sent under the backends' content type. -/
def httpExchange (i : Integration) (server : Config) (statusByError : List Int → Int) (params : Option String)
    (raiseForStatus : Bool) (req : AnyRequest) (ctx : String) : WireReply × List Event :=
  let (r, ev) := rpcHandle i server statusByError Defaults.defaultContentType (.text (.ok req.toJson)) ctx
  (backendRequest raiseForStatus req.isNotification (asSeenByClient params r), ev)

end Pjrpc
