/-
  JSON values as Python sees them after `json.loads`, plus the Python semantics pjrpc leans on
  (truthiness, `isinstance` tests, `dict.get`).  No Mathlib, no imports: the driver links natively.
-/
namespace Pjrpc

/-- A JSON value as produced by `json.loads`.  Floats are opaque tokens (`repr`), never compared
numerically.  Objects are insertion-ordered association lists; lookup is first match (the harness
only produces duplicate-free objects, as `json.loads` does). -/
inductive Json where
  | null
  | bool (b : Bool)
  | int (i : Int)
  | float (tok : String)
  | str (s : String)
  | arr (xs : List Json)
  | obj (kvs : List (String × Json))
  deriving Repr, Inhabited

namespace Json

mutual
  def beq : Json → Json → Bool
    | .null, .null => true
    | .bool a, .bool b => a == b
    | .int a, .int b => a == b
    | .float a, .float b => a == b
    | .str a, .str b => a == b
    | .arr a, .arr b => beqList a b
    | .obj a, .obj b => beqObj a b
    | _, _ => false
  def beqList : List Json → List Json → Bool
    | [], [] => true
    | x :: xs, y :: ys => beq x y && beqList xs ys
    | _, _ => false
  def beqObj : List (String × Json) → List (String × Json) → Bool
    | [], [] => true
    | (k, x) :: xs, (l, y) :: ys => k == l && beq x y && beqObj xs ys
    | _, _ => false
end

mutual
  theorem beq_eq : ∀ (a b : Json), beq a b = true → a = b
    | .null, .null, _ => rfl
    | .bool a, .bool b, h => by simp [beq] at h; simp [h]
    | .int a, .int b, h => by simp [beq] at h; simp [h]
    | .float a, .float b, h => by simp [beq] at h; simp [h]
    | .str a, .str b, h => by simp [beq] at h; simp [h]
    | .arr a, .arr b, h => by simp [beq] at h; rw [beqList_eq a b h]
    | .obj a, .obj b, h => by simp [beq] at h; rw [beqObj_eq a b h]
    | .null, .bool _, h | .null, .int _, h | .null, .float _, h | .null, .str _, h
    | .null, .arr _, h | .null, .obj _, h => by simp [beq] at h
    | .bool _, .null, h | .bool _, .int _, h | .bool _, .float _, h | .bool _, .str _, h
    | .bool _, .arr _, h | .bool _, .obj _, h => by simp [beq] at h
    | .int _, .null, h | .int _, .bool _, h | .int _, .float _, h | .int _, .str _, h
    | .int _, .arr _, h | .int _, .obj _, h => by simp [beq] at h
    | .float _, .null, h | .float _, .bool _, h | .float _, .int _, h | .float _, .str _, h
    | .float _, .arr _, h | .float _, .obj _, h => by simp [beq] at h
    | .str _, .null, h | .str _, .bool _, h | .str _, .int _, h | .str _, .float _, h
    | .str _, .arr _, h | .str _, .obj _, h => by simp [beq] at h
    | .arr _, .null, h | .arr _, .bool _, h | .arr _, .int _, h | .arr _, .float _, h
    | .arr _, .str _, h | .arr _, .obj _, h => by simp [beq] at h
    | .obj _, .null, h | .obj _, .bool _, h | .obj _, .int _, h | .obj _, .float _, h
    | .obj _, .str _, h | .obj _, .arr _, h => by simp [beq] at h
  theorem beqList_eq : ∀ (a b : List Json), beqList a b = true → a = b
    | [], [], _ => rfl
    | x :: xs, y :: ys, h => by
        simp [beqList] at h; rw [beq_eq x y h.1, beqList_eq xs ys h.2]
    | [], _ :: _, h | _ :: _, [], h => by simp [beqList] at h
  theorem beqObj_eq : ∀ (a b : List (String × Json)), beqObj a b = true → a = b
    | [], [], _ => rfl
    | (k, x) :: xs, (l, y) :: ys, h => by
        simp [beqObj] at h; rw [h.1.1, beq_eq x y h.1.2, beqObj_eq xs ys h.2]
    | [], _ :: _, h | _ :: _, [], h => by simp [beqObj] at h
end

mutual
  theorem beq_refl : ∀ (a : Json), beq a a = true
    | .null => rfl
    | .bool _ | .int _ | .float _ | .str _ => by simp [beq]
    | .arr a => by simp [beq, beqList_refl a]
    | .obj a => by simp [beq, beqObj_refl a]
  theorem beqList_refl : ∀ (a : List Json), beqList a a = true
    | [] => rfl
    | x :: xs => by simp [beqList, beq_refl x, beqList_refl xs]
  theorem beqObj_refl : ∀ (a : List (String × Json)), beqObj a a = true
    | [] => rfl
    | (k, x) :: xs => by simp [beqObj, beq_refl x, beqObj_refl xs]
end

instance : DecidableEq Json := fun a b =>
  if h : beq a b = true then isTrue (beq_eq a b h)
  else isFalse (fun e => h (e ▸ beq_refl a))

/-- Python truthiness (`bool(x)`) of a decoded JSON value.  Float tokens: only the zero tokens
`0.0` / `-0.0` are falsy (`nan` is truthy). -/
def truthy : Json → Bool
  | .null => false
  | .bool b => b
  | .int i => i != 0
  | .float t => !(t == "0.0" || t == "-0.0")
  | .str s => s != ""
  | .arr xs => !xs.isEmpty
  | .obj kvs => !kvs.isEmpty

/-- `dict.get(key)` on an insertion-ordered association list. -/
def lookup (k : String) : List (String × Json) → Option Json
  | [] => none
  | (k', v) :: rest => if k' == k then some v else lookup k rest

/-- `json_data.get(k)` when `json_data` is known to be a dict; `none` for non-objects. -/
def get? (j : Json) (k : String) : Option Json :=
  match j with
  | .obj kvs => lookup k kvs
  | _ => none

def isObj : Json → Bool
  | .obj _ => true
  | _ => false

def isArr : Json → Bool
  | .arr _ => true
  | _ => false

/-- Does the string `s` occur anywhere inside the document (as a key, a string value or a float
token)?  Used to state "nothing about the exception appears in the response". -/
def strOccurs (p : String → Bool) : Json → Bool
  | .null | .bool _ | .int _ => false
  | .float t => p t
  | .str s => p s
  | .arr xs => occursList p xs
  | .obj kvs => occursObj p kvs
where
  occursList (p : String → Bool) : List Json → Bool
    | [] => false
    | x :: xs => strOccurs p x || occursList p xs
  occursObj (p : String → Bool) : List (String × Json) → Bool
    | [] => false
    | (k, v) :: rest => p k || strOccurs p v || occursObj p rest

end Json

/-- pjrpc's `UNSET` sentinel: "member absent", distinct from `None`. -/
inductive MaybeSet (α : Type) where
  | unset
  | set (a : α)
  deriving Repr, DecidableEq, Inhabited

namespace MaybeSet
def isSet {α} : MaybeSet α → Bool
  | .unset => false
  | .set _ => true
def toOption {α} : MaybeSet α → Option α
  | .unset => none
  | .set a => some a
end MaybeSet

/-- Exception classes the model distinguishes.  `other` carries a class tag for arbitrary user
exceptions (never compared beyond equality). -/
inductive Exc where
  | deserialization     -- pjrpc.exceptions.DeserializationError
  | identity            -- pjrpc.exceptions.IdentityError
  | baseError           -- pjrpc.exceptions.BaseError("unexpected response")
  | assertion           -- AssertionError
  | key                 -- KeyError
  | type_               -- TypeError
  | attribute           -- AttributeError
  | value               -- ValueError (not JSONDecodeError)
  | jsonDecode          -- json.JSONDecodeError
  | recursion           -- RecursionError
  | validation          -- pjrpc.server.validators.ValidationError
  | connectionRefused   -- ConnectionRefusedError
  | other (tag : String)
  deriving Repr, DecidableEq, Inhabited

/-- Outcome of a Python call: a value or a raised exception. -/
inductive Py (α : Type) where
  | ok (a : α)
  | raised (e : Exc)
  deriving Repr, DecidableEq, Inhabited

namespace Py
@[inline] def bind {α β} (x : Py α) (f : α → Py β) : Py β :=
  match x with
  | .ok a => f a
  | .raised e => .raised e
instance : Monad Py where
  pure := .ok
  bind := Py.bind
def isOk {α} : Py α → Bool
  | .ok _ => true
  | .raised _ => false
end Py

end Pjrpc
