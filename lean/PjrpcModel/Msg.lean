/-
  pjrpc/common/v20.py + pjrpc/common/exceptions.py: message classes, their constructors
  (assertions are explicit `raised .assertion` outcomes), `to_json` / `from_json`.
  Transcribed from the tree *after* the repairs D3 (bool ids/codes), D4 (code 0 / empty message),
  D5 (`is not UNSET`).  Line references are to the repaired files.
-/
import PjrpcModel.Json
namespace Pjrpc

/-- A JSON-RPC id other than null.  pjrpc admits integers and strings only. -/
inductive ReqId where
  | int (i : Int)
  | str (s : String)
  deriving Repr, DecidableEq, Inhabited

def ReqId.toJson : ReqId → Json
  | .int i => .int i
  | .str s => .str s

def optIdToJson : Option ReqId → Json
  | none => .null
  | some i => i.toJson

/-- Request parameters as the constructor receives them: `None`, a list/tuple, or a dict. -/
inductive Params where
  | none
  | pos (xs : List Json)
  | named (kvs : List (String × Json))
  deriving Repr, DecidableEq, Inhabited

/-- Python truthiness of the params object (`if self.params:` in `Request.to_json`). -/
def Params.truthy : Params → Bool
  | .none => false
  | .pos xs => !xs.isEmpty
  | .named kvs => !kvs.isEmpty

def Params.toJson : Params → Json
  | .none => .null
  | .pos xs => .arr xs
  | .named kvs => .obj kvs

/-- An error class: its name and the class-level `code` / `message` attributes (None on the base
classes `JsonRpcError`, `ClientError`). -/
structure ErrClass where
  name : String
  code : Option Int
  message : Option String
  deriving Repr, DecidableEq, Inhabited

/-- exceptions.py:141-200 — the classes the library itself defines (checked against the source by
`Props/Constants.lean`). -/
def ErrClass.jsonRpcError : ErrClass := ⟨"JsonRpcError", none, none⟩
def ErrClass.clientError : ErrClass := ⟨"ClientError", none, none⟩
def ErrClass.parseError : ErrClass := ⟨"ParseError", some (-32700), some "Parse error"⟩
def ErrClass.invalidRequest : ErrClass := ⟨"InvalidRequestError", some (-32600), some "Invalid Request"⟩
def ErrClass.methodNotFound : ErrClass := ⟨"MethodNotFoundError", some (-32601), some "Method not found"⟩
def ErrClass.invalidParams : ErrClass := ⟨"InvalidParamsError", some (-32602), some "Invalid params"⟩
def ErrClass.internalError : ErrClass := ⟨"InternalError", some (-32603), some "Internal error"⟩
def ErrClass.serverError : ErrClass := ⟨"ServerError", some (-32000), some "Server error"⟩

def builtinClasses : List ErrClass :=
  [.jsonRpcError, .clientError, .parseError, .invalidRequest, .methodNotFound, .invalidParams,
   .internalError, .serverError]

/-- `JsonRpcErrorMeta.__errors_mapping__` (exceptions.py:39-46): code ↦ class, last definition
wins.  The registry is an association list, most recent registration first. -/
abbrev ErrRegistry := List ErrClass

def builtinRegistry : ErrRegistry := builtinClasses

/-- exceptions.py:96-98 `get_error_cls(code, default)`. -/
def ErrRegistry.getCls (reg : ErrRegistry) (code : Int) (default : ErrClass) : ErrClass :=
  match reg.find? (fun c => c.code == some code) with
  | some c => c
  | none => default

/-- A `JsonRpcError` instance. -/
structure RpcError where
  code : Int
  message : String
  data : MaybeSet Json
  cls : String
  deriving Repr, DecidableEq, Inhabited

/-- exceptions.py:100-108 `JsonRpcError.__init__` (after D4: `is not None` tests). -/
def RpcError.construct (c : ErrClass) (code : Option Int) (message : Option String)
    (data : MaybeSet Json) : Py RpcError :=
  match (code.orElse fun _ => c.code), (message.orElse fun _ => c.message) with
  | some cd, some msg => .ok ⟨cd, msg, data, c.name⟩
  | _, _ => .raised .assertion

/-- exceptions.py:124-138 `to_json`. -/
def RpcError.toJson (e : RpcError) : Json :=
  .obj ([("code", .int e.code), ("message", .str e.message)] ++
    (match e.data with
     | .unset => []
     | .set d => [("data", d)]))

/-- exceptions.py:67-94 `from_json` (after D3: booleans are not codes). -/
def RpcError.fromJson (reg : ErrRegistry) (cls : ErrClass) (j : Json) : Py RpcError :=
  match j with
  | .obj kvs =>
    match Json.lookup "code" kvs with                 -- json_data['code'] : KeyError → Deser
    | some (.int code) =>
      match Json.lookup "message" kvs with            -- json_data['message']
      | some (.str message) =>
        let errorClass := reg.getCls code cls
        let data := match Json.lookup "data" kvs with -- json_data.get('data', UNSET)
          | none => MaybeSet.unset
          | some d => .set d
        -- error_class(code, message, data): both given, the assertions cannot fire
        RpcError.construct errorClass (some code) (some message) data
      | _ => .raised .deserialization
    | _ => .raised .deserialization
  | _ => .raised .deserialization

/-- v20.py `Request`. -/
structure Request where
  method : String
  params : Params
  id : Option ReqId
  deriving Repr, DecidableEq, Inhabited

def Request.isNotification (r : Request) : Bool := r.id.isNone

/-- v20.py:375-391 `Request.to_json`. -/
def Request.toJson (r : Request) : Json :=
  .obj ([("jsonrpc", .str "2.0"), ("method", .str r.method)] ++
    (match r.id with
     | none => []
     | some i => [("id", i.toJson)]) ++
    (if r.params.truthy then [("params", r.params.toJson)] else []))

/-- The `id` member check shared by request and response (v20.py:139-141, 304-306, after D3). -/
def parseId (kvs : List (String × Json)) : Py (Option ReqId) :=
  match Json.lookup "id" kvs with                     -- json_data.get('id')
  | none => .ok none
  | some .null => .ok none
  | some (.int i) => .ok (some (.int i))
  | some (.str s) => .ok (some (.str s))
  | some _ => .raised .deserialization                -- bool, float, list, dict

/-- v20.py:286-318 `Request.from_json`. -/
def Request.fromJson (j : Json) : Py Request :=
  match j with
  | .obj kvs =>
    match Json.lookup "jsonrpc" kvs with              -- json_data['jsonrpc']
    | none => .raised .deserialization
    | some v =>
      if v = .str "2.0" then
        match parseId kvs with
        | .raised e => .raised e
        | .ok id =>
          match Json.lookup "method" kvs with         -- json_data['method']
          | some (.str m) =>
            match Json.lookup "params" kvs with       -- json_data.get('params', [])
            | none => .ok ⟨m, .pos [], id⟩
            | some (.arr xs) => .ok ⟨m, .pos xs, id⟩
            | some (.obj ps) => .ok ⟨m, .named ps, id⟩
            | some _ => .raised .deserialization
          | _ => .raised .deserialization
      else .raised .deserialization
  | _ => .raised .deserialization

/-- v20.py `Response`. -/
structure Response where
  id : Option ReqId
  result : MaybeSet Json
  error : MaybeSet RpcError
  deriving Repr, DecidableEq, Inhabited

/-- v20.py:157-169 `Response.__init__` with its two assertions. -/
def Response.construct (id : Option ReqId) (result : MaybeSet Json) (error : MaybeSet RpcError) :
    Py Response :=
  match result, error with
  | .unset, .unset => .raised .assertion
  | .set _, .set _ => .raised .assertion
  | _, _ => .ok ⟨id, result, error⟩

def Response.isError (r : Response) : Bool := r.error.isSet

/-- A response the library can construct: exactly one of result / error. -/
def Response.WF (r : Response) : Prop := r.result.isSet ≠ r.error.isSet

/-- v20.py:256-272 `Response.to_json`. -/
def Response.toJson (r : Response) : Json :=
  .obj ([("jsonrpc", .str "2.0"), ("id", optIdToJson r.id)] ++
    (match r.result with
     | .unset => []
     | .set v => [("result", v)]) ++
    (match r.error with
     | .unset => []
     | .set e => [("error", e.toJson)]))

/-- v20.py:120-155 `Response.from_json` (after D3, D5). -/
def Response.fromJson (reg : ErrRegistry) (errorCls : ErrClass) (j : Json) : Py Response :=
  match j with
  | .obj kvs =>
    match Json.lookup "jsonrpc" kvs with
    | none => .raised .deserialization
    | some v =>
      if v = .str "2.0" then
        match parseId kvs with
        | .raised e => .raised e
        | .ok id =>
          let error : Py (MaybeSet RpcError) :=
            match Json.lookup "error" kvs with        -- json_data.get('error', UNSET)
            | none => .ok .unset
            | some ej =>
              match RpcError.fromJson reg errorCls ej with
              | .ok e => .ok (.set e)
              | .raised x => .raised x
          match error with
          | .raised x => .raised x
          | .ok error =>
            let result : MaybeSet Json :=
              match Json.lookup "result" kvs with     -- json_data.get('result', UNSET)
              | none => .unset
              | some r => .set r
            match result, error with
            | .unset, .unset => .raised .deserialization
            | .set _, .set _ => .raised .deserialization
            | _, _ => Response.construct id result error
      else .raised .deserialization
  | _ => .raised .deserialization

/-- v20.py:587-599 / 701-713 `_add_ids`: the id set is copied, extended, and committed only when no
duplicate was met.  The set is represented as a list (membership only). -/
def addIds (strict : Bool) (ids : List ReqId) : List (Option ReqId) → Py (List ReqId)
  | [] => .ok ids
  | none :: rest => addIds strict ids rest
  | some i :: rest =>
    if strict then
      if ids.contains i then .raised .identity else addIds strict (i :: ids) rest
    else addIds strict ids rest

/-- v20.py `BatchRequest`. -/
structure BatchRequest where
  requests : List Request
  ids : List ReqId
  strict : Bool := true
  deriving Repr, DecidableEq, Inhabited

def BatchRequest.empty (strict : Bool := true) : BatchRequest := ⟨[], [], strict⟩

/-- v20.py:676-682 `extend` (and `append` = extend with one element, 668-674). -/
def BatchRequest.extend (b : BatchRequest) (rs : List Request) : Py BatchRequest :=
  match addIds b.strict b.ids (rs.map (·.id)) with
  | .raised e => .raised e
  | .ok ids => .ok { b with requests := b.requests ++ rs, ids := ids }

def BatchRequest.append (b : BatchRequest) (r : Request) : Py BatchRequest := b.extend [r]

/-- v20.py:629-634 `BatchRequest.__init__`. -/
def BatchRequest.construct (rs : List Request) (strict : Bool := true) : Py BatchRequest :=
  (BatchRequest.empty strict).extend rs

def BatchRequest.toJson (b : BatchRequest) : Json := .arr (b.requests.map Request.toJson)

def BatchRequest.isNotification (b : BatchRequest) : Bool := b.requests.all Request.isNotification

/-- Evaluate `f` over a list left to right, stopping at the first raised exception (a generator
expression consumed by `*args`). -/
def mapPy {α β} (f : α → Py β) : List α → Py (List β)
  | [] => .ok []
  | x :: xs =>
    match f x with
    | .raised e => .raised e
    | .ok y =>
      match mapPy f xs with
      | .raised e => .raised e
      | .ok ys => .ok (y :: ys)

/-- v20.py:612-627 `BatchRequest.from_json`. -/
def BatchRequest.fromJson (j : Json) : Py BatchRequest :=
  match j with
  | .arr [] => .raised .deserialization               -- "request list is empty"
  | .arr xs =>
    match mapPy Request.fromJson xs with
    | .raised e => .raised e
    | .ok rs => BatchRequest.construct rs
  | _ => .raised .deserialization

/-- v20.py `BatchResponse`. -/
structure BatchResponse where
  responses : List Response
  ids : List ReqId
  error : MaybeSet RpcError := .unset
  strict : Bool := true
  deriving Repr, DecidableEq, Inhabited

def BatchResponse.extend (b : BatchResponse) (rs : List Response) : Py BatchResponse :=
  match addIds b.strict b.ids (rs.map (·.id)) with
  | .raised e => .raised e
  | .ok ids => .ok { b with responses := b.responses ++ rs, ids := ids }

def BatchResponse.append (b : BatchResponse) (r : Response) : Py BatchResponse := b.extend [r]

/-- v20.py:440-447 `BatchResponse.__init__`. -/
def BatchResponse.construct (rs : List Response) (error : MaybeSet RpcError := .unset)
    (strict : Bool := true) : Py BatchResponse :=
  (⟨[], [], error, strict⟩ : BatchResponse).extend rs

def BatchResponse.isError (b : BatchResponse) : Bool := b.error.isSet

/-- v20.py:575-585 `BatchResponse.to_json`. -/
def BatchResponse.toJson (b : BatchResponse) : Json :=
  match b.error with
  | .set e => (⟨none, .unset, .set e⟩ : Response).toJson
  | .unset => .arr (b.responses.map Response.toJson)

/-- v20.py:412-438 `BatchResponse.from_json` (after the repair D25: the elements are deserialised
with the supplied `error_cls` too). -/
def BatchResponse.fromJson (reg : ErrRegistry) (errorCls : ErrClass) (j : Json) : Py BatchResponse :=
  match j with
  | .obj kvs =>
    match Json.lookup "jsonrpc" kvs with
    | none => .raised .deserialization
    | some v =>
      if v = .str "2.0" then
        -- `id is None and error is not UNSET`
        match (match Json.lookup "id" kvs with | none | some .null => Json.lookup "error" kvs | _ => none) with
        | some ej =>
          match RpcError.fromJson reg errorCls ej with
          | .raised x => .raised x
          | .ok e => BatchResponse.construct [] (.set e)
        | none => .raised .deserialization            -- a dict is not a list
      else .raised .deserialization
  | .arr xs =>
    match mapPy (Response.fromJson reg errorCls) xs with
    | .raised e => .raised e
    | .ok rs => BatchResponse.construct rs
  | _ => .raised .deserialization

end Pjrpc
