/-
  The dispatcher's long-lived state: registry, middleware chain and handler table are immutable under
  `dispatch`; what remains are the validators' memo tables — `BaseValidator.signature`
  (pjrpc/server/validators/base.py:82-110, an unbounded lru_cache) and pydantic's
  `build_validation_schema` (keyed by the signature *value*).  Objects carry ids; every dispatch
  allocates fresh ids for the context object, the view instance and its bound method.
-/
import PjrpcModel.Dispatch
namespace Pjrpc

/-! ### a memo table over a pure function -/

def memoGet {κ ν : Type} [DecidableEq κ] (memo : List (κ × ν)) (k : κ) : Option ν :=
  match memo.find? (fun kv => kv.1 = k) with
  | some kv => some kv.2
  | none => none

/-- `lru_cache(None)`-wrapped call: a hit returns the stored value, a miss computes and stores -/
def cachedCall {κ ν : Type} [DecidableEq κ] (f : κ → ν) (memo : List (κ × ν)) (k : κ) : ν × List (κ × ν) :=
  match memoGet memo k with
  | some v => (v, memo)
  | none => (f k, (k, f k) :: memo)

/-- every stored value is the function's value: "a memo table never changes an answer" -/
def MemoOk {κ ν : Type} (f : κ → ν) (memo : List (κ × ν)) : Prop := ∀ kv ∈ memo, kv.2 = f kv.1

/-! ### the signature cache -/

/-- how the cache key refers to the method object -/
inductive MethodRef where
  | func (f : Nat) (bound : Bool)            -- after D11: the underlying function + whether it was bound
  | boundMethod (instance_ : Nat) (f : Nat)   -- the pinned code: the per-request bound method itself
  deriving Repr, DecidableEq, Inhabited

structure SigKey where
  validator : Nat
  method : MethodRef
  exclude : List String
  deriving Repr, DecidableEq, Inhabited

/-- the object ids a key keeps alive beyond the static ones (validators and functions live as long
as the registry) -/
def SigKey.retains : SigKey → List Nat
  | ⟨_, .boundMethod inst _, _⟩ => [inst]
  | _ => []

/-- `inspect.signature(method)` minus the excluded names: a pure function of the key, given the
functions' signatures (`sigs f` includes `self` for a method defined in a class) -/
def sigOfKey (sigs : Nat → Signature) (k : SigKey) : Signature :=
  match k.method with
  | .func f bound => reduceSig (if bound then (sigs f).tail else sigs f) k.exclude
  | .boundMethod _ f => reduceSig (sigs f).tail k.exclude

/-- static description of a registered method for the cache: ids of its validator and function -/
structure MethodIds where
  validator : Nat
  func : Nat
  deriving Repr, DecidableEq, Inhabited

/-- the key `validate_method` uses for a request (after D11) -/
def keyFixed (m : MethodDef) (ids : MethodIds) : SigKey :=
  ⟨ids.validator, .func ids.func m.view, m.exclusions⟩

/-- the key the pinned code used: for a view, the bound method of the view instance created for
this request (`inst` is a fresh object id; the instance holds the request context) -/
def keyPinned (m : MethodDef) (ids : MethodIds) (inst : Nat) : SigKey :=
  if m.view then ⟨ids.validator, .boundMethod inst ids.func, m.exclusions⟩
  else ⟨ids.validator, .func ids.func false, m.exclusions⟩

abbrev SigMemo := List (SigKey × Signature)

/-- the per-request objects the memo table keeps alive -/
def memoRetains (memo : SigMemo) : List Nat := (memo.map (fun kv => kv.1.retains)).flatten

/-- `Method.bind` with the signature taken through the cache -/
def MethodDef.bindWith (m : MethodDef) (sig : Signature) (params : Params) : Py (List Json × KwArgs) :=
  match sigBind sig params with
  | .raised _ => .raised .validation
  | .ok args =>
    match m.post args with
    | none => .raised .validation
    | some args' => .ok (m.attachCtx args')

/-- `_handle_rpc_method` threading the signature memo.  `fullSig` gives the function's full signature
(with `self` for view methods), `key` chooses the cache key for this request. -/
def handleRpcMethodCached (reg : Registry) (_fullSig : MethodDef → Signature) (key : MethodDef → SigKey)
    (sigs : Nat → Signature) (memo : SigMemo) (name : String) (params : Params) :
    (MethodResult × List Event) × SigMemo :=
  match reg.get name with
  | none => ((.rpcError (methodNotFoundWith (.set freeText)), []), memo)
  | some m =>
    if m.view && m.initRaises then ((.crashed, []), memo)
    else
      let (sig, memo') := cachedCall (sigOfKey sigs) memo (key m)
      match m.bindWith sig params with
      | .raised _ => ((.rpcError (invalidParamsWith (.set (.arr [freeText]))), []), memo')
      | .ok (lead, kw) =>
        match callKw m.sig lead kw with
        | .raised _ => ((.rpcError serverError, []), memo')
        | .ok received => (runBody m (Json.obj (received ++ m.viewCtx)), memo')

/-- a history of method-layer calls on one dispatcher -/
def runHistory (reg : Registry) (fullSig : MethodDef → Signature) (key : Nat → MethodDef → SigKey)
    (sigs : Nat → Signature) : Nat → SigMemo → List (String × Params) → List (MethodResult × List Event) × SigMemo
  | _, memo, [] => ([], memo)
  | n, memo, (name, params) :: rest =>
    let (r, memo') := handleRpcMethodCached reg fullSig (key n) sigs memo name params
    let (rs, memo'') := runHistory reg fullSig key sigs (n + 1) memo' rest
    (r :: rs, memo'')

/-! ### threads: interleaved lookups and inserts -/

inductive MemoStep (κ : Type) where
  | lookup (thread : Nat) (k : κ)
  | insert (thread : Nat) (k : κ)             -- after a miss: store the computed value

/-- run an interleaving; returns what each lookup saw and the final table -/
def runSteps {κ ν : Type} [DecidableEq κ] (f : κ → ν) : List (κ × ν) → List (MemoStep κ) → List (Nat × κ × Option ν) × List (κ × ν)
  | memo, [] => ([], memo)
  | memo, .lookup t k :: rest =>
    let (obs, m) := runSteps f memo rest
    ((t, k, memoGet memo k) :: obs, m)
  | memo, .insert _ k :: rest => runSteps f ((k, f k) :: memo) rest

end Pjrpc
