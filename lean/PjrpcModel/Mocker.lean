/-
  pjrpc/client/integrations/pytest.py `PjRpcMocker` as a state machine: add / replace / remove /
  reset / request.  `matches` and `calls` are (default)dicts, modelled as insertion-ordered
  association lists; the protocol version is always "2.0".  After the repair D19 (`id if id is not
  None else configured id`).
-/
import PjrpcModel.Msg
namespace Pjrpc

inductive PatchPayload where
  | result (v : Json)
  | error (e : RpcError)
  | callback (tag : String)        -- the callback returns ["callback", tag, params]
  | callbackRaises                 -- the callback raises: the exception reaches the caller of the transport
  | nothing                        -- neither result nor error configured: Response() asserts
  deriving Repr, DecidableEq, Inhabited

structure Patch where
  once : Bool
  payload : PatchPayload
  cfgId : Option ReqId := none     -- the `id=` argument of add / replace
  deriving Repr, DecidableEq, Inhabited

abbrev Queue := List Patch
/-- endpoint ↦ method ↦ rotating queue of patches -/
abbrev Matches := List (String × List (String × Queue))
/-- endpoint ↦ method ↦ recorded calls -/
abbrev Calls := List (String × List (String × List Params))

structure MockState where
  patches : Matches := []
  calls : Calls := []
  passthrough : Bool := false
  deriving Repr, DecidableEq, Inhabited

def alGet {β} (k : String) : List (String × β) → Option β
  | [] => none
  | (k', v) :: rest => if k' == k then some v else alGet k rest

def alSet {β} (k : String) (v : β) : List (String × β) → List (String × β)
  | [] => [(k, v)]
  | (k', v') :: rest => if k' == k then (k, v) :: rest else (k', v') :: alSet k v rest

/-- `del d[k]` / `d.pop(k)` (keys are unique in a dict) -/
def alErase {β} (k : String) (l : List (String × β)) : List (String × β) := l.filter (fun kv => kv.1 != k)

/-- `if not matches and method_name: self._matches[endpoint].pop((version, method_name), None)` -/
def dropEmptyQueue (m : Option String) (epd : List (String × Queue)) : List (String × Queue) :=
  match m with
  | some name =>
    (match alGet name epd with
     | some [] => alErase name epd
     | _ => epd)
  | none => epd

/-- pytest.py:200-212 `_cleanup_matches(endpoint, version, method)`: an empty queue is dropped, an
endpoint without queues is dropped. -/
def cleanup (ep : String) (m : Option String) (ms : Matches) : Matches :=
  if (dropEmptyQueue m ((alGet ep ms).getD [])).isEmpty then alErase ep ms
  else alSet ep (dropEmptyQueue m ((alGet ep ms).getD [])) ms

/-- pytest.py:71-100 `add`: append at the tail of the current queue. -/
def MockState.add (s : MockState) (ep m : String) (p : Patch) : MockState :=
  let epd := (alGet ep s.patches).getD []
  let q := (alGet m epd).getD []
  { s with patches := alSet ep (alSet m (q ++ [p]) epd) s.patches }

/-- pytest.py:102-131 `replace(..., idx)`: substitute at the current position `idx` (well-formed
histories address an existing patch). -/
def MockState.replace (s : MockState) (ep m : String) (idx : Nat) (p : Patch) : MockState :=
  let epd := (alGet ep s.patches).getD []
  let q := (alGet m epd).getD []
  { s with patches := alSet ep (alSet m (q.set idx p) epd) s.patches }

/-- pytest.py:133-155 `remove(endpoint, method=None)` -/
def MockState.remove (s : MockState) (ep : String) (m : Option String) : MockState :=
  match m with
  | none => { s with patches := alErase ep s.patches }
  | some name =>
    let epd := (alGet ep s.patches).getD []
    { s with patches := cleanup ep (some name) (alSet ep (alErase name epd) s.patches) }

/-- pytest.py:157-167 `reset` -/
def MockState.reset (s : MockState) : MockState := { s with patches := [], calls := [] }

def recordCall (ep m : String) (params : Params) (cs : Calls) : Calls :=
  let epd := (alGet ep cs).getD []
  alSet ep (alSet m ((alGet m epd).getD [] ++ [params]) epd) cs

def callbackValue (tag : String) (params : Params) : Json := .arr [.str "callback", .str tag, params.toJson]

/-- the reply a patch produces for a request (pytest.py:286-301) -/
def patchReply (p : Patch) (params : Params) (id : Option ReqId) : Py Response :=
  match p.payload with
  | .callback tag => Response.construct id (.set (callbackValue tag params)) .unset
  | .callbackRaises => .raised (.other "CallbackError")
  | .result v => Response.construct (id.orElse fun _ => p.cfgId) (.set v) .unset
  | .error e => Response.construct (id.orElse fun _ => p.cfgId) .unset (.set e)
  | .nothing => Response.construct (id.orElse fun _ => p.cfgId) .unset .unset

/-- pytest.py:252-301 `_match_request`: pop the head patch, re-append it unless `once`, clean up,
record the call, build the reply. -/
def matchRequest (s : MockState) (ep : String) (req : Request) : MockState × Py Response :=
  let epd := (alGet ep s.patches).getD []
  match alGet req.method epd with
  | none => (s, .ok ⟨req.id, .unset, .set ⟨-32601, "Method not found", .set (.str req.method), "MethodNotFoundError"⟩⟩)
  | some [] => (s, .raised (.other "IndexError"))                  -- pop(0) from an empty queue
  | some (p :: rest) =>
    let q' := if p.once then rest else rest ++ [p]
    let ms := cleanup ep (some req.method) (alSet ep (alSet req.method q' epd) s.patches)
    let s' := { s with patches := ms, calls := recordCall ep req.method req.params s.calls }
    (s', patchReply p req.params req.id)

inductive MockReply where
  | passthrough                    -- handed to the original transport method
  | refused                        -- ConnectionRefusedError
  | text (doc : Json)
  | raised (e : Exc)
  deriving Repr, DecidableEq, Inhabited

/-- answer the elements of a batch one after the other, threading the state -/
def matchAll (s : MockState) (ep : String) : List Request → MockState × Py (List Response)
  | [] => (s, .ok [])
  | r :: rs =>
    match matchRequest s ep r with
    | (s1, .raised e) => (s1, .raised e)
    | (s1, .ok resp) =>
      match matchAll s1 ep rs with
      | (s2, .raised e) => (s2, .raised e)
      | (s2, .ok resps) => (s2, .ok (resp :: resps))

/-- pytest.py:214-250 `_on_request` -/
def MockState.request (s : MockState) (ep : String) (doc : Json) : MockState × MockReply :=
  match alGet ep s.patches with
  | none => (s, if s.passthrough then .passthrough else .refused)
  | some _ =>
    if doc.isArr then
      match BatchRequest.fromJson doc with
      | .raised e => (s, .raised e)
      | .ok b =>
        match matchAll s ep b.requests with
        | (s', .raised e) => (s', .raised e)
        | (s', .ok resps) =>
          -- `response.append(...)` one by one on a non-strict BatchResponse (after the repair D30: replies
          -- configured with the same id do not make the mocker raise IdentityError)
          match BatchResponse.construct resps .unset false with
          | .raised e => (s', .raised e)
          | .ok br => (s', .text br.toJson)
    else
      match Request.fromJson doc with
      | .raised e => (s, .raised e)
      | .ok req =>
        match matchRequest s ep req with
        | (s', .raised e) => (s', .raised e)
        | (s', .ok resp) => (s', .text resp.toJson)

end Pjrpc
