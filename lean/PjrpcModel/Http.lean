/-
  pjrpc/server/integration/{aiohttp,flask,werkzeug}.py `_rpc_handle`: the media-type gate and the
  mapping of the dispatcher's verdict to an HTTP reply (after the repairs D17, D18, D23).  The frameworks'
  own header parsing is an input (the parsed media type: lower-cased, parameters stripped, "" when
  the header is missing or empty).
-/
import PjrpcModel.Dispatch
import PjrpcModel.Defaults
namespace Pjrpc

inductive Integration where
  | aiohttp | flask | werkzeug
  deriving Repr, DecidableEq, Inhabited

/-- `mimetype in pjrpc.common.REQUEST_CONTENT_TYPES` -/
def gateAccepts (mime : String) : Bool := Defaults.requestContentTypes.contains mime

/-- how the request body reached `dispatch` -/
inductive BodyText where
  | text (lr : LoadResult)         -- decoded as UTF-8; `lr` is what the JSON loader makes of it
  | undecodable                    -- not valid UTF-8
  deriving Repr, DecidableEq, Inhabited

structure HttpReply where
  status : Int
  contentType : Option String      -- media type of the reply; none: the framework's default for an empty reply
  body : Option Json               -- none: empty body
  deriving Repr, DecidableEq, Inhabited

/-- `status_by_error`: a function of the error codes tuple (aiohttp, flask); the werkzeug integration
has no such option and always answers 200. -/
def statusOf (i : Integration) (statusByError : List Int → Int) (codes : List Int) : Int :=
  match i with
  | .werkzeug => Defaults.httpDefaultStatus
  | _ => statusByError codes

/-- the three `_rpc_handle` functions. Returns the reply and the dispatcher's log (empty when the
dispatcher was not called). -/
def rpcHandle (i : Integration) (cfg : Config) (statusByError : List Int → Int) (mime : String) (body : BodyText)
    (ctx : String) : HttpReply × List Event :=
  if !gateAccepts mime then (⟨415, none, none⟩, [])                -- HTTPUnsupportedMediaType
  else
    match body with
    | .undecodable => (⟨400, none, none⟩, [])                       -- UnicodeDecodeError → 400 Bad Request (after D23)
    | .text lr =>
      let (r, ev) := dispatch cfg lr ctx
      match r with
      | .nothing => (⟨200, none, none⟩, ev)
      | .reply doc codes => (⟨statusOf i statusByError codes, some Defaults.defaultContentType, some doc⟩, ev)
      | .raised _ => (⟨500, none, none⟩, ev)

end Pjrpc
