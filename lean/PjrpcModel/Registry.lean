/-
  pjrpc/server/dispatcher.py:138-276 `MethodRegistry` (add / add_methods / view / merge /
  _add_method) and 338-379 the dispatcher's add / add_methods / view, as functions on an
  insertion-ordered association list name ↦ target.  `target` identifies the underlying callable
  (a function's own name, or "View.attr" for a view method).
-/
import PjrpcModel.Json
namespace Pjrpc

structure RegEntry where
  name : String
  target : String
  deriving Repr, DecidableEq, Inhabited

structure Reg where
  pfx : Option String := none
  entries : List RegEntry := []
  deriving Repr, DecidableEq, Inhabited

/-- `self._registry[name] = method`: replace in place (dict keeps the position) or append. -/
def putEntry (name target : String) : List RegEntry → List RegEntry
  | [] => [⟨name, target⟩]
  | e :: es => if e.name == name then ⟨name, target⟩ :: es else e :: putEntry name target es

def Reg.put (r : Reg) (name target : String) : Reg := { r with entries := putEntry name target r.entries }

def Reg.get (r : Reg) (name : String) : Option String :=
  (r.entries.find? (fun e => e.name == name)).map (·.target)

/-- `filter(None, parts)`: `None` and the empty string are dropped. -/
def truthyParts (parts : List (Option String)) : List String :=
  parts.filterMap (fun p => match p with
    | some s => if s == "" then none else some s
    | none => none)

/-- `'.'.join(parts)` -/
def joinDots : List String → String
  | [] => ""
  | [a] => a
  | a :: b :: rest => a ++ "." ++ joinDots (b :: rest)

/-- dispatcher.py:186-212 `add(method, name)`: `name or method.__name__` under the registry's prefix. -/
def baseName (fname : String) (name : Option String) : String :=
  match name with
  | some s => if s == "" then fname else s            -- `name or method.__name__`
  | none => fname

def Reg.add (r : Reg) (fname : String) (name : Option String) : Reg :=
  r.put (joinDots (truthyParts [r.pfx, some (baseName fname name)])) fname

/-- One argument of `add_methods`: a plain callable, or a `Method` object carrying its own name. -/
inductive AddItem where
  | fn (fname : String)
  | methodObj (fname : String) (mname : String)
  deriving Repr, DecidableEq, Inhabited

/-- dispatcher.py:214-226 `add_methods`: a `Method` instance goes straight to `_add_method` under
its own name (no prefix), a plain callable goes through `add`. -/
def Reg.addMethods (r : Reg) : List AddItem → Reg
  | [] => r
  | .fn f :: rest => (r.add f none).addMethods rest
  | .methodObj f n :: rest => (r.put n f).addMethods rest

/-- A class attribute as `dir(cls)` lists it: its attribute name and, when callable, the callable's
`__name__` (which differs from the attribute name for an alias). -/
structure ViewMember where
  attr : String
  target : Option String           -- none: not callable
  deriving Repr, DecidableEq, Inhabited

/-- `name.startswith('_')` -/
def isPrivateName (s : String) : Bool := s.toList.head? == some '_'

/-- dispatcher.py:130-135 `ViewMixin.__methods__`: public attribute names, callables only. -/
def publicCallables (members : List ViewMember) : List String :=
  members.filterMap (fun m => if isPrivateName m.attr then none else m.target)

/-- dispatcher.py:228-257 `view(cls, prefix=…)`: every public callable is registered under
prefix . view-prefix . `method.__name__` and resolved again by that `__name__`. -/
def Reg.view (r : Reg) (cls : String) (members : List ViewMember) (vpfx : Option String) : Reg :=
  (publicCallables members).foldl
    (fun r t => r.put (joinDots (truthyParts [r.pfx, vpfx, some t])) (cls ++ "." ++ t)) r

/-- dispatcher.py:259-270 `merge(other)`: every method of `other` is copied under
`f'{prefix}.{name}'` when the receiving prefix is truthy. -/
def Reg.merge (r other : Reg) : Reg :=
  other.entries.foldl
    (fun r e => r.put (match r.pfx with
      | some p => if p == "" then e.name else p ++ "." ++ e.name
      | none => e.name) e.target) r

/-- Registration histories: a tree, because `merge` takes another registry with its own history. -/
inductive RegExpr where
  | new (pfx : Option String)
  | add (r : RegExpr) (fname : String) (name : Option String)
  | addMethods (r : RegExpr) (items : List AddItem)
  | view (r : RegExpr) (cls : String) (members : List ViewMember) (vpfx : Option String)
  | merge (r other : RegExpr)
  deriving Repr, Inhabited

def RegExpr.eval : RegExpr → Reg
  | .new p => { pfx := p }
  | .add r f n => r.eval.add f n
  | .addMethods r items => r.eval.addMethods items
  | .view r cls ms vp => r.eval.view cls ms vp
  | .merge r o => r.eval.merge o.eval

end Pjrpc
