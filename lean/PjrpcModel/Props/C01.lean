/-
  C01 — every request text gets nothing or a well-formed JSON-RPC 2.0 response document plus
  agreeing error codes; the dispatcher never raises (registered methods return JSON values, user
  middlewares are of the id-preserving kinds, handlers return errors).
-/
import PjrpcModel.Props.C02
namespace Pjrpc
open Json

/-! ### The JSON-RPC 2.0 response document, written from the specification text -/

/-- error object: integer `code`, string `message`, optional `data`, nothing else -/
def WFError (e : Json) : Prop :=
  ∃ kvs, e = .obj kvs ∧ (∃ c, lookup "code" kvs = some (.int c)) ∧ (∃ m, lookup "message" kvs = some (.str m))
    ∧ ∀ k ∈ kvs.map (·.1), k = "code" ∨ k = "message" ∨ k = "data"

/-- response object: `jsonrpc` exactly "2.0"; `id` a string, a number or null; exactly one of
`result` / `error`; no other members -/
def WFResp (j : Json) : Prop :=
  ∃ kvs, j = .obj kvs ∧ lookup "jsonrpc" kvs = some (.str "2.0")
    ∧ (∃ v, lookup "id" kvs = some v ∧ (v = .null ∨ (∃ i, v = .int i) ∨ ∃ s, v = .str s))
    ∧ ((lookup "result" kvs ≠ none ∧ lookup "error" kvs = none)
        ∨ (lookup "result" kvs = none ∧ ∃ e, lookup "error" kvs = some e ∧ WFError e))
    ∧ ∀ k ∈ kvs.map (·.1), k = "jsonrpc" ∨ k = "id" ∨ k = "result" ∨ k = "error"

/-- a response document: one response object, or a NON-EMPTY array of them -/
def WFDoc (j : Json) : Prop :=
  WFResp j ∨ ∃ xs, j = .arr xs ∧ xs ≠ [] ∧ ∀ x ∈ xs, WFResp x

/-- the code a response object carries: its error code, or 0 for a success -/
def respCode (j : Json) : Int :=
  match j.get? "error" with
  | some e => match e.get? "code" with
    | some (.int c) => c
    | _ => 0
  | none => 0

/-- "one per response object, the error code or 0 for a success" -/
def docCodes : Json → List Int
  | .arr xs => xs.map respCode
  | j => [respCode j]

theorem RpcError.toJson_wf (e : RpcError) : WFError e.toJson := by
  obtain ⟨c, m, d, k⟩ := e
  cases d <;> exact ⟨_, rfl, ⟨c, by simp [lookup]⟩, ⟨m, by simp [lookup]⟩, by simp⟩

theorem Response.toJson_wf (r : Response) (h : r.WF) : WFResp r.toJson := by
  obtain ⟨id, res, err⟩ := r
  have hid : ∃ v, optIdToJson id = v ∧ (v = .null ∨ (∃ i, v = .int i) ∨ ∃ s, v = .str s) := by
    cases id with
    | none => exact ⟨_, rfl, Or.inl rfl⟩
    | some i => cases i <;> simp [optIdToJson, ReqId.toJson]
  obtain ⟨v, hv, hvs⟩ := hid
  cases res with
  | unset =>
    cases err with
    | unset => simp [Response.WF, MaybeSet.isSet] at h
    | set e =>
      refine ⟨_, rfl, by simp [lookup], ⟨v, by simp [lookup, hv], hvs⟩, Or.inr ⟨by simp [lookup], e.toJson, by simp [lookup], e.toJson_wf⟩, by simp⟩
  | set x =>
    cases err with
    | set e => simp [Response.WF, MaybeSet.isSet] at h
    | unset =>
      refine ⟨_, rfl, by simp [lookup], ⟨v, by simp [lookup, hv], hvs⟩, Or.inl ⟨by simp [lookup], by simp [lookup]⟩, by simp⟩

theorem Response.respCode_toJson (r : Response) : respCode r.toJson = r.code := by
  obtain ⟨id, res, err⟩ := r
  cases res <;> cases err <;>
    simp [respCode, Response.toJson, Response.code, Json.get?, lookup, RpcError.toJson]
  all_goals (rename_i e; cases e.data <;> simp [lookup])

theorem replySingle_wf (r : Response) (h : r.WF) :
    ∃ doc codes, replySingle r = .reply doc codes ∧ WFDoc doc ∧ codes = docCodes doc := by
  refine ⟨_, _, rfl, Or.inl (r.toJson_wf h), ?_⟩
  have : docCodes r.toJson = [respCode r.toJson] := by
    unfold Response.toJson; rfl
  rw [this, r.respCode_toJson]

/-- The goal of C01 as a predicate on a dispatch result. -/
def GoodResult (res : DispatchResult) : Prop :=
  res = .nothing ∨ ∃ doc codes, res = .reply doc codes ∧ WFDoc doc ∧ codes = docCodes doc

theorem errorResponse_wf (e : RpcError) : GoodResult (replySingle ⟨none, .unset, .set e⟩) :=
  Or.inr (replySingle_wf _ (by simp [Response.WF, MaybeSet.isSet]))

/-- **C01.**  For every configuration with id-preserving middlewares, every outcome of the JSON
loader other than a recursion error (nesting beyond the interpreter's limit lies outside the
property's quantifier: ≤ 64 levels), every context: `dispatch` returns nothing, or a response text
with codes — it never raises — and the text is a JSON-RPC 2.0 response document (an object, or a
non-empty array of objects, each with jsonrpc "2.0", an id that is a string / number / null and
exactly one of result / error) whose error codes agree with the codes returned alongside. -/
theorem C01_total_wellformed (cfg : Config) (hwb : cfg.WellBehaved) (lr : LoadResult)
    (hlr : lr ≠ .recursionError) (ctx : String) : GoodResult (dispatch cfg lr ctx).1 := by
  cases lr with
  | decodeError => exact errorResponse_wf _
  | valueError => exact errorResponse_wf _
  | recursionError => exact absurd rfl hlr
  | ok j =>
    have hA := cfg.handler_answers hwb
    cases hj : j.isArr with
    | false =>
      cases hr : Request.fromJson j with
      | raised e =>
        have : (dispatch cfg (.ok j) ctx).1 = replySingle ⟨none, .unset, .set (invalidRequestWith (.set freeText))⟩ := by
          simp [dispatch, hj, hr]
        rw [this]; exact errorResponse_wf _
      | ok req =>
        rw [C12_chain_result_is_sent cfg j req ctx hj hr]
        cases hid : req.id with
        | none => left; simp [(hA req ctx).1 hid]
        | some i =>
          obtain ⟨r, hr', _, hwf⟩ := (hA req ctx).2 i hid
          right; simp only [hr']; exact replySingle_wf r hwf
    | true =>
      cases j with
      | arr xs =>
        cases hb : BatchRequest.fromJson (.arr xs) with
        | raised e =>
          obtain ⟨d, hd⟩ := C02_rejected_batch_executes_nothing cfg xs ctx (Or.inl (by rw [hb]; simp))
          rw [hd]; exact errorResponse_wf _
        | ok b =>
          cases hs : tooLarge cfg.maxBatchSize b.requests.length with
          | true =>
            obtain ⟨d, hd⟩ := C02_rejected_batch_executes_nothing cfg xs ctx (Or.inr ⟨b, hb, hs⟩)
            rw [hd]; exact errorResponse_wf _
          | false =>
            obtain ⟨_, hnd⟩ := batch_requests_of_fromJson xs b hb
            obtain ⟨bb, hbb, hjson⟩ := batch_ids_unique_no_raise cfg.handler hA ctx b.requests hnd
            have hwf := (keepSet_ids cfg.handler hA ctx b.requests).2
            simp only [dispatch, Json.isArr, ↓reduceIte, hb, hs, Bool.false_eq_true, runBatch_eq, assembleBatch]
            cases hk : keepSet (b.requests.map (fun r => (cfg.handler r ctx).1)) with
            | nil => left; rfl
            | cons r rs =>
              rw [hk] at hbb hjson hwf
              right
              simp only [hbb, hjson]
              refine ⟨_, _, rfl, Or.inr ⟨_, rfl, by simp, ?_⟩, ?_⟩
              · intro x hx
                simp only [List.mem_map] at hx
                obtain ⟨r', hr', rfl⟩ := hx
                exact r'.toJson_wf (hwf r' hr')
              · simp [docCodes, Response.respCode_toJson]
      | _ => simp [Json.isArr] at hj

/-- Corollaries in the form the property lists them. -/
theorem C01_never_raises (cfg : Config) (hwb : cfg.WellBehaved) (lr : LoadResult)
    (hlr : lr ≠ .recursionError) (ctx : String) : ∀ e, (dispatch cfg lr ctx).1 ≠ .raised e := by
  intro e h
  rcases C01_total_wellformed cfg hwb lr hlr ctx with h' | ⟨_, _, h', _⟩ <;> rw [h] at h' <;> cases h'

theorem C01_codes_agree (cfg : Config) (hwb : cfg.WellBehaved) (lr : LoadResult)
    (hlr : lr ≠ .recursionError) (ctx : String) (doc : Json) (codes : List Int)
    (h : (dispatch cfg lr ctx).1 = .reply doc codes) : WFDoc doc ∧ codes = docCodes doc := by
  rcases C01_total_wellformed cfg hwb lr hlr ctx with h' | ⟨d, c, h', hw, hc⟩
  · rw [h] at h'; cases h'
  · rw [h] at h'; cases h'; exact ⟨hw, hc⟩

/-- The empty array is not a response document (so "[]" can never be produced). -/
theorem C01_empty_array_not_wf : ¬ WFDoc (.arr []) := by
  rintro (⟨kvs, h, _⟩ | ⟨xs, h, hne, _⟩)
  · cases h
  · cases h; exact hne rfl

/-- The premise on middlewares is needed: an id-fabricating short circuit breaks the strict response
batch (`IdentityError` out of `dispatch`) — the concrete witness. -/
theorem C01_illbehaved_counterexample :
    (dispatch ⟨[], [.shortFixed (some (.int 9)) .null], [], none⟩
      (.ok (.arr [.obj [("jsonrpc", .str "2.0"), ("method", .str "m"), ("id", .int 1)],
                  .obj [("jsonrpc", .str "2.0"), ("method", .str "m"), ("id", .int 2)]])) "CTX").1
      = .raised .identity := by decide

/-! ### Non-vacuity: a configuration with three methods, a middleware and a handler -/

example : (⟨[("a", ⟨"a", [], none, false, false, [], false, some, fun _ => .ret (.int 1)⟩),
             ("b", ⟨"b", [⟨"x", .posOrKw, false⟩], none, false, false, [], false, some, fun r => .ret r⟩),
             ("c", ⟨"c", [], none, false, false, [], false, some, fun _ => .exc "ValueError:m"⟩)],
            [.pass], [(none, [.ident])], some 2⟩ : Config).WellBehaved := by
  intro k hk; simp at hk; subst hk; rfl

end Pjrpc
