/-
  C16 — generated OpenAPI / OpenRPC documents are complete, closed and pure (the plumbing part;
  meta-schema validity and the content of pydantic-generated schemas are checked by the oracle only).
-/
import PjrpcModel.Spec
namespace Pjrpc

/-- the errors the repaired generator documents for a method, read from the (unchanged) heap -/
def errorsOf (heap : Heap) (m : SpecMethod) : List Int := (methodErrors true heap m).1

theorem methodErrors_copy_heap (heap : Heap) (m : SpecMethod) : (methodErrors true heap m).2 = heap := by
  unfold methodErrors
  cases m.errorsCell <;> rfl

/-- the entry of a method under the repaired generator: a function of that method alone -/
def apiEntry (rstrip lstrip : String → String) (path defaultPrefix : String) (heap : Heap) (m : SpecMethod) : OpEntry :=
  entryOf rstrip lstrip path defaultPrefix (errorsOf heap m) m

def apiComps (defaultPrefix : String) (m : SpecMethod) : List String := m.comps.map (prefixOf defaultPrefix m ++ ·)

theorem genOpenApi_fold (rstrip lstrip : String → String) (path dp : String) (heap : Heap) (ms : List SpecMethod) (st : GenState)
    (hst : st.heap = heap) :
    let r := ms.foldl (fun st m =>
      let (errs, heap') := methodErrors true st.heap m
      let e := entryOf rstrip lstrip path dp errs m
      ({ doc := { paths := putPath e st.doc.paths,
                  components := (m.comps.map (prefixOf dp m ++ ·)).foldl (fun cs c => putComp c cs) st.doc.components },
         heap := heap' } : GenState)) st
    r.heap = heap
    ∧ r.doc.paths = ms.foldl (fun ps m => putPath (apiEntry rstrip lstrip path dp heap m) ps) st.doc.paths
    ∧ r.doc.components = ms.foldl (fun cs m => (apiComps dp m).foldl (fun cs c => putComp c cs) cs) st.doc.components := by
  induction ms generalizing st with
  | nil => exact ⟨hst, rfl, rfl⟩
  | cons m ms ih =>
    simp only [List.foldl_cons]
    have hh : (methodErrors true st.heap m).2 = heap := by rw [methodErrors_copy_heap, hst]
    have := ih ⟨⟨putPath (entryOf rstrip lstrip path dp (methodErrors true st.heap m).1 m) st.doc.paths,
      (m.comps.map (prefixOf dp m ++ ·)).foldl (fun cs c => putComp c cs) st.doc.components⟩, (methodErrors true st.heap m).2⟩ hh
    simp only at this
    refine ⟨this.1, ?_, ?_⟩
    · rw [this.2.1]; simp only [apiEntry, errorsOf, hst]
    · rw [this.2.2]; rfl

/-- **Pure.**  Generation leaves the annotation heap — every list a user passed in — unchanged. -/
theorem C16_pure_heap (rstrip lstrip : String → String) (path dp : String) (heap : Heap) (ms : List SpecMethod) :
    (genOpenApi true rstrip lstrip path dp heap ms).heap = heap :=
  (genOpenApi_fold rstrip lstrip path dp heap ms ⟨{}, heap⟩ rfl).1

/-- **Deterministic.**  Repeating the generation (on the heap the first generation left) yields the
identical document. -/
theorem C16_deterministic (rstrip lstrip : String → String) (path dp : String) (heap : Heap) (ms : List SpecMethod) :
    (genOpenApi true rstrip lstrip path dp (genOpenApi true rstrip lstrip path dp heap ms).heap ms).doc
      = (genOpenApi true rstrip lstrip path dp heap ms).doc := by
  rw [C16_pure_heap]

theorem putPath_fresh (e : OpEntry) (ps : List OpEntry) (h : e.key ∉ ps.map (·.key)) : putPath e ps = ps ++ [e] := by
  induction ps with
  | nil => rfl
  | cons x xs ih =>
    simp only [List.map_cons, List.mem_cons, not_or] at h
    have : (x.key == e.key) = false := by simp [Ne.symm h.1]
    simp [putPath, this, ih h.2]

theorem foldl_putPath_distinct (f : SpecMethod → OpEntry) (ms : List SpecMethod) (acc : List OpEntry)
    (hnd : (acc.map (·.key) ++ ms.map (fun m => (f m).key)).Nodup) :
    ms.foldl (fun ps m => putPath (f m) ps) acc = acc ++ ms.map f := by
  induction ms generalizing acc with
  | nil => simp
  | cons m ms ih =>
    simp only [List.foldl_cons, List.map_cons]
    have hfresh : (f m).key ∉ acc.map (·.key) := by
      intro h
      have := List.nodup_append.mp hnd
      exact this.2.2 _ h _ (by simp) rfl
    rw [putPath_fresh _ _ hfresh, ih]
    · simp
    · simp only [List.map_append, List.map_cons, List.map_nil, List.append_assoc, List.singleton_append]
      simpa using hnd

/-- **Complete, exactly once, no leak.**  When the methods' `(endpoint, name)` keys are distinct, the
document has exactly one entry per registered method, in registration order, under
`join_path(path, endpoint)#name`, and each entry is a function of its own method alone — what is
documented for one method (errors, tags, component prefix, references) never shows up in another
method's entry. -/
theorem C16_complete (rstrip lstrip : String → String) (path dp : String) (heap : Heap) (ms : List SpecMethod)
    (hnd : (ms.map (fun m => (apiEntry rstrip lstrip path dp heap m).key)).Nodup) :
    (genOpenApi true rstrip lstrip path dp heap ms).doc.paths = ms.map (apiEntry rstrip lstrip path dp heap) := by
  have h := (genOpenApi_fold rstrip lstrip path dp heap ms ⟨{}, heap⟩ rfl).2.1
  unfold genOpenApi
  rw [h]
  have := foldl_putPath_distinct (apiEntry rstrip lstrip path dp heap) ms [] (by simpa using hnd)
  simpa using this

/-! ### the path keys are distinct when the (URL path, method name) pairs are -/

theorem split_first {α} [DecidableEq α] (c : α) (x x' y y' : List α) (hx : c ∉ x) (hx' : c ∉ x')
    (h : x ++ c :: y = x' ++ c :: y') : x = x' ∧ y = y' := by
  induction x generalizing x' with
  | nil =>
    cases x' with
    | nil => simpa using h
    | cons a as =>
      simp only [List.nil_append, List.cons_append, List.cons.injEq] at h
      exact absurd (h.1 ▸ List.mem_cons_self) hx'
  | cons a as ih =>
    cases x' with
    | nil =>
      simp only [List.nil_append, List.cons_append, List.cons.injEq] at h
      exact absurd (h.1 ▸ List.mem_cons_self) hx
    | cons b bs =>
      simp only [List.cons_append, List.cons.injEq] at h
      have := ih bs (fun hm => hx (List.mem_cons_of_mem _ hm)) (fun hm => hx' (List.mem_cons_of_mem _ hm)) h.2
      exact ⟨by rw [h.1, this.1], this.2⟩

/-- the key `path#name` determines the URL path and the method name (URL paths contain no `#`) -/
theorem pathKey_injective (p p' n n' : String) (hp : '#' ∉ p.toList) (hp' : '#' ∉ p'.toList)
    (h : p ++ "#" ++ n = p' ++ "#" ++ n') : p = p' ∧ n = n' := by
  have h2 := congrArg String.toList h
  simp only [String.toList_append] at h2
  have hs : ("#" : String).toList = ['#'] := by decide
  rw [hs] at h2
  simp only [List.append_assoc, List.singleton_append] at h2
  have := split_first '#' _ _ _ _ hp hp' h2
  exact ⟨String.toList_inj.mp this.1, String.toList_inj.mp this.2⟩

theorem nodup_map_of_imp {α β γ} (f : α → β) (g : α → γ) (l : List α)
    (h : ∀ a ∈ l, ∀ b ∈ l, f a = f b → g a = g b) (hg : (l.map g).Nodup) : (l.map f).Nodup := by
  induction l with
  | nil => simp
  | cons x xs ih =>
    simp only [List.map_cons, List.nodup_cons, List.mem_map] at hg ⊢
    refine ⟨?_, ih (fun a ha b hb => h a (List.mem_cons_of_mem _ ha) b (List.mem_cons_of_mem _ hb)) hg.2⟩
    rintro ⟨y, hy, hfy⟩
    exact hg.1 ⟨y, hy, h y (List.mem_cons_of_mem _ hy) x List.mem_cons_self hfy⟩

/-- **Complete, stated on what the user sees.**  If the registered methods' (endpoint URL path, exposed
name) pairs are pairwise distinct - and URL paths contain no `#` - the document has exactly one entry
per registered method, in registration order, each a function of its own method alone.  (The premise of
`C16_complete` - distinct keys - is derived, not assumed.) -/
theorem C16_complete_distinct_paths (rstrip lstrip : String → String) (path dp : String) (heap : Heap) (ms : List SpecMethod)
    (hhash : ∀ m ∈ ms, '#' ∉ (joinPath rstrip lstrip path m.endpoint).toList)
    (hnd : (ms.map (fun m => (joinPath rstrip lstrip path m.endpoint, m.name))).Nodup) :
    (genOpenApi true rstrip lstrip path dp heap ms).doc.paths = ms.map (apiEntry rstrip lstrip path dp heap) := by
  apply C16_complete
  apply nodup_map_of_imp _ (fun m => (joinPath rstrip lstrip path m.endpoint, m.name)) ms _ hnd
  intro a ha b hb hk
  simp only [apiEntry, entryOf] at hk
  have := pathKey_injective _ _ _ _ (hhash a ha) (hhash b hb) hk
  rw [this.1, this.2]

/-- the `#` premise is needed: a `#` in an endpoint path lets two different (path, name) pairs share a key -/
theorem C16_hash_in_path_collides :
    ("/a#b" ++ "#" ++ "c" : String) = "/a" ++ "#" ++ "b#c" ∧ (("/a#b" : String), ("c" : String)) ≠ ("/a", "b#c") := by decide

/-! ### `join_path` with the real strip functions -/

theorem not_mem_dropWhile {α} (p : α → Bool) (c : α) (l : List α) (h : c ∉ l) : c ∉ l.dropWhile p :=
  fun hm => h ((List.dropWhile_sublist p).subset hm)

/-- `join_path` introduces no `#`: if neither the document path nor the endpoint prefix contains one,
the joined URL path contains none -/
theorem joinPathC_no_hash (path ep : String) (hp : '#' ∉ path.toList) (he : '#' ∉ ep.toList) :
    '#' ∉ (joinPathC path ep).toList := by
  unfold joinPathC joinPath
  split
  · exact hp
  · simp only [String.toList_append, rstripSlash, lstripSlash, String.toList_ofList, List.mem_append, not_or]
    refine ⟨⟨?_, by decide⟩, not_mem_dropWhile _ _ _ he⟩
    intro hm
    have := not_mem_dropWhile (· == '/') '#' path.toList.reverse (by simpa using hp)
    exact this (by simpa using hm)

/-- `C16_complete_distinct_paths` with the premise on what the user writes: a document path and endpoint
prefixes without `#` -/
theorem C16_complete_user_paths (path dp : String) (heap : Heap) (ms : List SpecMethod)
    (hp : '#' ∉ path.toList) (he : ∀ m ∈ ms, '#' ∉ m.endpoint.toList)
    (hnd : (ms.map (fun m => (joinPathC path m.endpoint, m.name))).Nodup) :
    (genOpenApi true rstripSlash lstripSlash path dp heap ms).doc.paths = ms.map (apiEntry rstripSlash lstripSlash path dp heap) :=
  C16_complete_distinct_paths rstripSlash lstripSlash path dp heap ms (fun m hm => joinPathC_no_hash path m.endpoint hp (he m hm)) hnd

example : joinPathC "/api/" "/v1" = "/api/v1" ∧ joinPathC "/api" "" = "/api" ∧ joinPathC "" "v1/" = "/v1/" := by decide

/-! ### `remove_prefix` / `remove_suffix` (the served document's endpoint path, the `$ref` prefix of OpenRPC) -/

theorem stripPrefixChars_append (p s : List Char) : stripPrefixChars p (p ++ s) = some s := by
  induction p with
  | nil => rfl
  | cons c cs ih => simp [stripPrefixChars, ih]

/-- removing a prefix that was put in front gives the rest back -/
theorem removePrefix_append (p s : String) : removePrefix (p ++ s) p = s := by
  simp [removePrefix, String.toList_append, stripPrefixChars_append]

/-- removing a non-empty suffix that was appended gives the front back (an empty suffix removes nothing) -/
theorem removeSuffix_append (p s : String) : removeSuffix (p ++ s) s = p := by
  unfold removeSuffix
  split
  · rename_i h
    have : s = "" := by simpa using h
    simp [this]
  · simp [String.toList_append, List.reverse_append, stripPrefixChars_append]

example : removeSuffix "/api/v1/openapi.json" "/openapi.json" = "/api/v1" ∧ removeSuffix "/api" "" = "/api"
    ∧ removePrefix "#/components/schemas/User" "#/components/schemas/" = "User" ∧ removePrefix "abc" "x" = "abc" := by decide

theorem putComp_mem (c x : String) (cs : List String) : x ∈ putComp c cs ↔ x = c ∨ x ∈ cs := by
  unfold putComp
  split
  · rename_i h
    have hc : c ∈ cs := by simpa using h
    constructor
    · intro hx; exact Or.inr hx
    · rintro (rfl | hx)
      · exact hc
      · exact hx
  · simp [or_comm]

theorem foldl_putComp_mem (xs cs : List String) (x : String) :
    x ∈ xs.foldl (fun cs c => putComp c cs) cs ↔ x ∈ xs ∨ x ∈ cs := by
  induction xs generalizing cs with
  | nil => simp
  | cons c xs ih =>
    simp only [List.foldl_cons, ih, putComp_mem, List.mem_cons]
    constructor
    · rintro (h | h | h)
      · exact Or.inl (Or.inr h)
      · exact Or.inl (Or.inl h)
      · exact Or.inr h
    · rintro ((h | h) | h)
      · exact Or.inr (Or.inl h)
      · exact Or.inl h
      · exact Or.inr (Or.inr h)

theorem components_mem (dp : String) (ms : List SpecMethod) (cs : List String) (x : String) :
    x ∈ ms.foldl (fun cs m => (apiComps dp m).foldl (fun cs c => putComp c cs) cs) cs ↔
      (∃ m ∈ ms, x ∈ apiComps dp m) ∨ x ∈ cs := by
  induction ms generalizing cs with
  | nil => simp
  | cons m ms ih =>
    simp only [List.foldl_cons, ih, foldl_putComp_mem, List.mem_cons, exists_eq_or_imp]
    constructor
    · rintro (h | h | h)
      · exact Or.inl (Or.inr h)
      · exact Or.inl (Or.inl h)
      · exact Or.inr h
    · rintro ((h | h) | h)
      · exact Or.inr (Or.inl h)
      · exact Or.inl h
      · exact Or.inr (Or.inr h)

/-- **Closed.**  If every extractor returns the components its schemas reference, every `$ref` in the
document resolves in `components.schemas`. -/
theorem C16_closed (rstrip lstrip : String → String) (path dp : String) (heap : Heap) (ms : List SpecMethod)
    (hnd : (ms.map (fun m => (apiEntry rstrip lstrip path dp heap m).key)).Nodup)
    (hrefs : ∀ m ∈ ms, ∀ r ∈ m.refs, r ∈ m.comps) :
    ∀ e ∈ (genOpenApi true rstrip lstrip path dp heap ms).doc.paths, ∀ r ∈ e.refs,
      r ∈ (genOpenApi true rstrip lstrip path dp heap ms).doc.components := by
  intro e he r hr
  rw [C16_complete rstrip lstrip path dp heap ms hnd] at he
  obtain ⟨m, hm, rfl⟩ := List.mem_map.mp he
  have hc := (genOpenApi_fold rstrip lstrip path dp heap ms ⟨{}, heap⟩ rfl).2.2
  unfold genOpenApi
  rw [hc, components_mem]
  left
  refine ⟨m, hm, ?_⟩
  simp only [apiEntry, entryOf, List.mem_map] at hr
  obtain ⟨r0, hr0, rfl⟩ := hr
  exact List.mem_map.mpr ⟨r0, hrefs m hm r0 hr0, rfl⟩

/-! ### OpenRPC -/

theorem genOpenRpc_fold (heap : Heap) (ms : List SpecMethod) (st : GenState) (hst : st.heap = heap) :
    let r := ms.foldl (fun st m =>
      let (errs, heap') := methodErrors true st.heap m
      ({ doc := { paths := st.doc.paths ++ [⟨m.name, errs, m.tags, m.refs⟩],
                  components := m.comps.foldl (fun cs c => putComp c cs) st.doc.components },
         heap := heap' } : GenState)) st
    r.heap = heap ∧ r.doc.paths = st.doc.paths ++ ms.map (fun m => ⟨m.name, errorsOf heap m, m.tags, m.refs⟩) := by
  induction ms generalizing st with
  | nil => exact ⟨hst, by simp⟩
  | cons m ms ih =>
    simp only [List.foldl_cons]
    have hh : (methodErrors true st.heap m).2 = heap := by rw [methodErrors_copy_heap, hst]
    have := ih ⟨⟨st.doc.paths ++ [⟨m.name, (methodErrors true st.heap m).1, m.tags, m.refs⟩],
      m.comps.foldl (fun cs c => putComp c cs) st.doc.components⟩, (methodErrors true st.heap m).2⟩ hh
    simp only at this
    refine ⟨this.1, ?_⟩
    rw [this.2]
    simp [errorsOf, hst]

/-- OpenRPC: exactly one method record per method of the root endpoint, in order, each a function of
its own method; the heap is unchanged. -/
theorem C16_openrpc_complete_pure (heap : Heap) (ms : List SpecMethod) :
    (genOpenRpc true heap ms).heap = heap
    ∧ (genOpenRpc true heap ms).doc.paths
        = (ms.filter (·.endpoint == "")).map (fun m => ⟨m.name, errorsOf heap m, m.tags, m.refs⟩) := by
  have := genOpenRpc_fold heap (ms.filter (·.endpoint == "")) ⟨{}, heap⟩ rfl
  exact ⟨this.1, by simpa [genOpenRpc] using this.2⟩

/-! ### the pinned behaviour (D13, D14), refuted -/

/-- two methods sharing one `errors=[…]` list: the pinned generator extended the list in place, so the
second method documented the first one's docstring errors and the user's list changed -/
theorem C16_shared_list_counterexample :
    let ms : List SpecMethod := [⟨"", "a", some 0, [7], none, [], [], []⟩, ⟨"", "b", some 0, [], none, [], [], []⟩]
    (genOpenApi false id id "/" "" [[1]] ms).heap = [[1, 7]]
    ∧ ((genOpenApi false id id "/" "" [[1]] ms).doc.paths.map (·.errors)) = [[1, 7], [1, 7]]
    ∧ ((genOpenApi true id id "/" "" [[1]] ms).doc.paths.map (·.errors)) = [[1, 7], [1]] := by decide

example : (genOpenApi true id id "/api" "" [] [⟨"v1", "m", none, [2, 2, 3], some "P", ["t"], ["Req"], ["Req"]⟩]).doc
    = ⟨[⟨"/api/v1#m", [2, 3], ["t"], ["PReq"]⟩], ["PReq"]⟩ := by decide

end Pjrpc
