/-
  C19 — tracers see every attempt begin and complete exactly once.
-/
import PjrpcModel.ClientRun
import PjrpcModel.Props.C09
namespace Pjrpc

variable {ρ ε : Type}

def TEvent.isBegin (t : Nat) : TEvent ρ ε → Bool
  | .begin t' _ => t' == t
  | _ => false

def TEvent.isCompletion (t : Nat) : TEvent ρ ε → Bool
  | .end_ t' _ _ => t' == t
  | .error t' _ _ => t' == t
  | _ => false

/-- the completion event of an attempt for tracer `t` -/
def completion (t ctx : Nat) : Attempt ρ ε → TEvent ρ ε
  | .resp r => .end_ t ctx r
  | .exc e => .error t ctx e

/-- One attempt: `begin` for every tracer in configuration order, then exactly one completion event
per tracer in the same order — `end` with the response (nothing for a notification) iff the attempt
returned, `error` with the raised exception iff it raised — all with the same trace context. -/
theorem C19_attempt_shape (n ctx : Nat) (out : Attempt ρ ε) :
    tracedAttempt n ctx out =
      (List.range n).map (fun t => TEvent.begin t ctx) ++ (List.range n).map (fun t => completion t ctx out) := by
  cases out <;> rfl

/-- The log of a call is the concatenation of the attempt shapes of attempts 0 … sends−1. -/
theorem C19_all_attempts (n : Nat) (callerCtx : Bool) (outs : Nat → Attempt ρ ε) (sends : Nat) :
    tracedRun n callerCtx outs (sends + 1)
      = tracedRun n callerCtx outs sends ++ tracedAttempt n (traceCtx callerCtx sends) (outs sends) := by
  simp [tracedRun, List.range_succ]

theorem count_begin_attempt (n ctx t : Nat) (out : Attempt ρ ε) (ht : t < n) :
    ((tracedAttempt n ctx out).filter (TEvent.isBegin t)).length = 1
    ∧ ((tracedAttempt n ctx out).filter (TEvent.isCompletion t)).length = 1 := by
  rw [C19_attempt_shape]
  have hb : ∀ (m : Nat), (((List.range m).map (fun t' => (TEvent.begin t' ctx : TEvent ρ ε))).filter (TEvent.isBegin t)).length
      = if t < m then 1 else 0 := by
    intro m
    induction m with
    | zero => simp
    | succ m ih =>
      simp only [List.range_succ, List.map_append, List.map_cons, List.map_nil, List.filter_append, List.length_append, ih]
      by_cases h1 : t < m
      · have : ¬ (m = t) := by omega
        simp [h1, TEvent.isBegin, this, show t < m + 1 by omega]
      · by_cases h2 : t = m
        · subst h2; simp [TEvent.isBegin]
        · have : ¬ (m = t) := fun e => h2 e.symm
          simp [h1, TEvent.isBegin, this, show ¬ t < m + 1 by omega]
  have hc : ∀ (m : Nat), (((List.range m).map (fun t' => completion t' ctx out)).filter (TEvent.isCompletion t)).length
      = if t < m then 1 else 0 := by
    intro m
    induction m with
    | zero => simp
    | succ m ih =>
      simp only [List.range_succ, List.map_append, List.map_cons, List.map_nil, List.filter_append, List.length_append, ih]
      by_cases h1 : t < m
      · have : ¬ (m = t) := by omega
        cases out <;> simp [h1, completion, TEvent.isCompletion, this, show t < m + 1 by omega]
      · by_cases h2 : t = m
        · subst h2; cases out <;> simp [completion, TEvent.isCompletion]
        · have : ¬ (m = t) := fun e => h2 e.symm
          cases out <;> simp [h1, completion, TEvent.isCompletion, this, show ¬ t < m + 1 by omega]
  have hbc : ∀ (m : Nat), ((List.range m).map (fun t' => completion t' ctx out)).filter (TEvent.isBegin t) = [] := by
    intro m
    rw [List.filter_eq_nil_iff]
    intro x hx
    obtain ⟨t', _, rfl⟩ := List.mem_map.mp hx
    cases out <;> simp [completion, TEvent.isBegin]
  have hcb : ∀ (m : Nat), ((List.range m).map (fun t' => (TEvent.begin t' ctx : TEvent ρ ε))).filter (TEvent.isCompletion t) = [] := by
    intro m
    rw [List.filter_eq_nil_iff]
    intro x hx
    obtain ⟨t', _, rfl⟩ := List.mem_map.mp hx
    simp [TEvent.isCompletion]
  simp only [List.filter_append, List.length_append, hb, hc, hbc, hcb, ht, ↓reduceIte, List.length_nil]
  exact ⟨trivial, trivial⟩

/-- Begin and completion counts are equal, per tracer, whenever a call has returned or raised: each
is the number of attempts. -/
theorem C19_counts_balance (n : Nat) (callerCtx : Bool) (outs : Nat → Attempt ρ ε) (sends t : Nat) (ht : t < n) :
    ((tracedRun n callerCtx outs sends).filter (TEvent.isBegin t)).length = sends
    ∧ ((tracedRun n callerCtx outs sends).filter (TEvent.isCompletion t)).length = sends := by
  induction sends with
  | zero => simp [tracedRun]
  | succ s ih =>
    rw [C19_all_attempts]
    have := count_begin_attempt n (traceCtx callerCtx s) t (outs s) ht
    simp only [List.filter_append, List.length_append, ih.1, ih.2, this.1, this.2]
    exact ⟨trivial, trivial⟩

/-- With the caller's trace context every event of every attempt carries it; with the default, the
two halves of one attempt share one context and different attempts get different ones. -/
theorem C19_context (callerCtx : Bool) (k k' : Nat) :
    (callerCtx = true → traceCtx callerCtx k = 0)
    ∧ (callerCtx = false → (traceCtx callerCtx k = traceCtx callerCtx k' ↔ k = k')) := by
  constructor
  · intro h; simp [traceCtx, h]
  · intro h; simp [traceCtx, h]

/-- The exception (or response) the tracers saw last is the one that reaches the caller, unchanged:
the caller gets the outcome of attempt `sends−1`, and the last attempt shape in the log carries
exactly that outcome. -/
theorem C19_exception_unchanged {α : Type} (cfg : ClientCfg) (mroOf : String → List String) (n : Nat) (callerCtx : Bool)
    (strategy : RetryStrategy α) (req : AnyRequest) (replies : Nat → WireReply) :
    let r := clientSend cfg mroOf n callerCtx (some strategy) none req replies
    r.run.final = sendAny cfg req (replies (r.run.sends - 1))
    ∧ r.trace = tracedRun n callerCtx (fun k => sendAny cfg req (replies k)) r.run.sends := by
  simp only [clientSend, retried, chooseStrategy]
  refine ⟨?_, trivial⟩
  have := C09_last_outcome_returned (policyOf mroOf strategy) (fun k => sendAny cfg req (replies k)) strategy.delays 0
  simpa using this

/-- … and every attempt the retry loop makes is traced: the number of traced attempts is the number
of sends. -/
theorem C19_every_attempt_traced {α : Type} (cfg : ClientCfg) (mroOf : String → List String) (n : Nat) (callerCtx : Bool)
    (cs : Option (RetryStrategy α)) (pr : Option (Option (RetryStrategy α))) (req : AnyRequest) (replies : Nat → WireReply)
    (t : Nat) (ht : t < n) :
    let r := clientSend cfg mroOf n callerCtx cs pr req replies
    (r.trace.filter (TEvent.isBegin t)).length = r.run.sends
    ∧ (r.trace.filter (TEvent.isCompletion t)).length = r.run.sends := by
  simp only [clientSend]
  exact C19_counts_balance n callerCtx _ _ t ht

example : tracedAttempt 2 5 (.exc "boom" : Attempt Nat String)
    = [.begin 0 5, .begin 1 5, .error 0 5 "boom", .error 1 5 "boom"] := by decide

end Pjrpc
