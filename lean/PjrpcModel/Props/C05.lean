/-
  C05 — messages survive the wire: serialise → (JSON text) → deserialise is lossless, the wire form
  is exact, errors come back as the class registered for their code.
  The text layer (`json.dumps` / `json.loads`, `JSONEncoder.default` delegating to `to_json`) is the
  assumed codec law of DESIGN §2; the harness exercises it on every generated message.
-/
import PjrpcModel.Msg
namespace Pjrpc
open Json

/-- What the wire cannot distinguish: falsy params (`None`, `()`, `[]`, `{}`) all become "member
absent", which deserialises to `[]`. -/
def Params.norm (p : Params) : Params := if p.truthy then p else .pos []

def Request.norm (r : Request) : Request := { r with params := r.params.norm }

theorem C05_Request_roundtrip (r : Request) : Request.fromJson r.toJson = .ok r.norm := by
  obtain ⟨m, p, id⟩ := r
  cases id with
  | none =>
    cases p with
    | none => simp [Request.toJson, Request.fromJson, Request.norm, Params.norm, Params.truthy, lookup, parseId]
    | pos xs => cases xs <;>
        simp [Request.toJson, Request.fromJson, Request.norm, Params.norm, Params.truthy, Params.toJson, lookup, parseId]
    | named kvs => cases kvs <;>
        simp [Request.toJson, Request.fromJson, Request.norm, Params.norm, Params.truthy, Params.toJson, lookup, parseId]
  | some i =>
    cases i <;> cases p with
    | none => simp [Request.toJson, Request.fromJson, Request.norm, Params.norm, Params.truthy, lookup, parseId, ReqId.toJson]
    | pos xs => cases xs <;>
        simp [Request.toJson, Request.fromJson, Request.norm, Params.norm, Params.truthy, Params.toJson, lookup, parseId, ReqId.toJson]
    | named kvs => cases kvs <;>
        simp [Request.toJson, Request.fromJson, Request.norm, Params.norm, Params.truthy, Params.toJson, lookup, parseId, ReqId.toJson]

theorem Params.norm_truthy (p : Params) : p.norm.truthy = p.truthy := by
  unfold Params.norm; split <;> simp_all [Params.truthy]

/-- Serialising again gives the identical wire form. -/
theorem C05_Request_fixpoint (r : Request) : r.norm.toJson = r.toJson := by
  unfold Request.norm Request.toJson
  simp only [Params.norm_truthy]
  cases hp : r.params.truthy <;> simp [Params.norm, hp]

/-- Wire exactness of a request: `jsonrpc` is "2.0", `method` is the method, an `id` member iff not a
notification, a `params` member iff the request has (truthy) parameters — and nothing else. -/
theorem C05_wire_exact_request (r : Request) :
    ∃ kvs, r.toJson = .obj kvs
      ∧ lookup "jsonrpc" kvs = some (.str "2.0")
      ∧ lookup "method" kvs = some (.str r.method)
      ∧ lookup "id" kvs = r.id.map ReqId.toJson
      ∧ lookup "params" kvs = (if r.params.truthy then some r.params.toJson else none)
      ∧ kvs.map (·.1) = ["jsonrpc", "method"] ++ (if r.id.isSome then ["id"] else [])
                          ++ (if r.params.truthy then ["params"] else []) := by
  refine ⟨_, rfl, ?_⟩
  obtain ⟨m, p, id⟩ := r
  cases id <;> cases hp : p.truthy <;> simp [lookup]

/-- An error deserialises to the same code / message / data; its class is the one registered for
the code, else the supplied base class. -/
theorem C05_Error_roundtrip (reg : ErrRegistry) (cls : ErrClass) (e : RpcError) :
    RpcError.fromJson reg cls e.toJson = .ok { e with cls := (reg.getCls e.code cls).name } := by
  obtain ⟨c, m, d, k⟩ := e
  cases d <;> simp [RpcError.toJson, RpcError.fromJson, RpcError.construct, lookup, Option.orElse]

theorem C05_Error_fixpoint (reg : ErrRegistry) (cls : ErrClass) (e : RpcError) :
    ({ e with cls := (reg.getCls e.code cls).name } : RpcError).toJson = e.toJson := rfl

/-- `error_class_by_code`: the class is a pure function of the registry and the code. -/
theorem C05_error_class_by_code (reg : ErrRegistry) (cls : ErrClass) (e e' : RpcError)
    (h : RpcError.fromJson reg cls e.toJson = .ok e') :
    e'.cls = (match reg.find? (fun c => c.code == some e.code) with
              | some c => c.name
              | none => cls.name) := by
  rw [C05_Error_roundtrip] at h
  cases h
  simp only [ErrRegistry.getCls]
  cases reg.find? (fun c => c.code == some e.code) <;> rfl

/-- absent data stays absent, null data stays null. -/
theorem C05_error_data_null_vs_absent :
    (⟨1, "m", .unset, "X"⟩ : RpcError).toJson ≠ (⟨1, "m", .set .null, "X"⟩ : RpcError).toJson := by
  decide


theorem Response.construct_ok_iff (id : Option ReqId) (res : MaybeSet Json) (err : MaybeSet RpcError) :
    (∃ r, Response.construct id res err = .ok r) ↔ (⟨id, res, err⟩ : Response).WF := by
  cases res <;> cases err <;> simp [Response.construct, Response.WF, MaybeSet.isSet]

def Response.reclass (reg : ErrRegistry) (cls : ErrClass) (r : Response) : Response :=
  { r with error := match r.error with
      | .unset => .unset
      | .set e => .set { e with cls := (reg.getCls e.code cls).name } }

theorem C05_Response_roundtrip (reg : ErrRegistry) (cls : ErrClass) (r : Response) (h : r.WF) :
    Response.fromJson reg cls r.toJson = .ok (r.reclass reg cls) := by
  obtain ⟨id, res, err⟩ := r
  cases res with
  | unset =>
    cases err with
    | unset => simp [Response.WF, MaybeSet.isSet] at h
    | set e =>
      have he := C05_Error_roundtrip reg cls e
      cases id with
      | none => simp [Response.toJson, Response.fromJson, Response.reclass, lookup, parseId, optIdToJson, he, Response.construct]
      | some i => cases i <;>
          simp [Response.toJson, Response.fromJson, Response.reclass, lookup, parseId, optIdToJson, ReqId.toJson, he, Response.construct]
  | set v =>
    cases err with
    | set e => simp [Response.WF, MaybeSet.isSet] at h
    | unset =>
      cases id with
      | none => simp [Response.toJson, Response.fromJson, Response.reclass, lookup, parseId, optIdToJson, Response.construct]
      | some i => cases i <;>
          simp [Response.toJson, Response.fromJson, Response.reclass, lookup, parseId, optIdToJson, ReqId.toJson, Response.construct]

theorem C05_Response_fixpoint (reg : ErrRegistry) (cls : ErrClass) (r : Response) :
    (r.reclass reg cls).toJson = r.toJson := by
  obtain ⟨id, res, err⟩ := r
  cases err <;> rfl

/-- Wire exactness of a response: exactly one of result / error; a null result is present as
`null`, not dropped; `id` is always present (null when None). -/
theorem C05_wire_exact_response (r : Response) (h : r.WF) :
    ∃ kvs, r.toJson = .obj kvs
      ∧ lookup "jsonrpc" kvs = some (.str "2.0")
      ∧ lookup "id" kvs = some (optIdToJson r.id)
      ∧ lookup "result" kvs = r.result.toOption
      ∧ lookup "error" kvs = r.error.toOption.map RpcError.toJson
      ∧ ((lookup "result" kvs).isSome ≠ (lookup "error" kvs).isSome)
      ∧ kvs.map (·.1) = ["jsonrpc", "id"] ++ (if r.result.isSet then ["result"] else ["error"]) := by
  refine ⟨_, rfl, ?_⟩
  obtain ⟨id, res, err⟩ := r
  cases res <;> cases err <;> simp_all [lookup, Response.WF, MaybeSet.isSet, MaybeSet.toOption]

theorem C05_result_null_vs_missing :
    lookup "result" (match (⟨none, .set .null, .unset⟩ : Response).toJson with | .obj k => k | _ => [])
      = some .null := by decide

/-! ### Batches -/

theorem mapPy_map_ok {α β γ} (g : α → γ) (f : γ → Py β) (h : α → β) (hf : ∀ x, f (g x) = .ok (h x)) (xs : List α) :
    mapPy f (xs.map g) = .ok (xs.map h) := by
  induction xs with
  | nil => rfl
  | cons x xs ih => simp [mapPy, hf, ih]

/-- Batch request: element order is preserved, every element round-trips; the id bookkeeping is
rebuilt identically (same id sequence).  The empty batch is excluded (C06: `[]` is rejected). -/
theorem C05_BatchRequest_roundtrip (rs : List Request) (b : BatchRequest) (hne : rs ≠ [])
    (h : BatchRequest.construct rs = .ok b) :
    BatchRequest.fromJson b.toJson = .ok { b with requests := rs.map Request.norm } := by
  have hb : b.requests = rs ∧ b.strict = true ∧ addIds true [] (rs.map (·.id)) = .ok b.ids := by
    unfold BatchRequest.construct BatchRequest.extend BatchRequest.empty at h
    simp only at h
    split at h
    · cases h
    · rename_i ids hids; cases h; simp [hids]
  obtain ⟨hreq, hstrict, hids⟩ := hb
  unfold BatchRequest.toJson BatchRequest.fromJson
  rw [hreq]
  cases rs with
  | nil => exact absurd rfl hne
  | cons r rs' =>
    simp only [List.map_cons]
    have := mapPy_map_ok Request.toJson Request.fromJson Request.norm C05_Request_roundtrip (r :: rs')
    simp only [List.map_cons] at this
    rw [this]
    simp only [BatchRequest.construct, BatchRequest.extend, BatchRequest.empty]
    have hid : (r.norm :: rs'.map Request.norm).map (·.id) = (r :: rs').map (·.id) := by
      simp [Request.norm]
    rw [hid, hids]
    obtain ⟨q, i, s⟩ := b
    simp_all

theorem C05_batch_order_preserved (b : BatchRequest) :
    b.toJson = .arr (b.requests.map Request.toJson) := rfl

theorem C05_BatchResponse_roundtrip (reg : ErrRegistry) (cls : ErrClass) (rs : List Response) (b : BatchResponse)
    (hwf : ∀ r ∈ rs, r.WF) (h : BatchResponse.construct rs = .ok b) :
    BatchResponse.fromJson reg cls b.toJson
      = .ok { b with responses := rs.map (Response.reclass reg cls) } := by
  have hb : b.responses = rs ∧ b.strict = true ∧ b.error = .unset ∧ addIds true [] (rs.map (·.id)) = .ok b.ids := by
    unfold BatchResponse.construct BatchResponse.extend at h
    simp only at h
    split at h
    · cases h
    · rename_i ids hids; cases h; simp [hids]
  obtain ⟨hreq, hstrict, herr, hids⟩ := hb
  unfold BatchResponse.toJson BatchResponse.fromJson
  rw [herr, hreq]
  simp only
  have : mapPy (Response.fromJson reg cls) (rs.map Response.toJson)
      = .ok (rs.map (Response.reclass reg cls)) := by
    clear h hreq hids
    induction rs with
    | nil => rfl
    | cons r rs ih =>
      have h1 := C05_Response_roundtrip reg cls r (hwf r (by simp))
      have h2 := ih (fun x hx => hwf x (by simp [hx]))
      simp [mapPy, h1, h2]
  rw [this]
  simp only [BatchResponse.construct, BatchResponse.extend]
  have hid : (rs.map (Response.reclass reg cls)).map (·.id) = rs.map (·.id) := by
    simp [Response.reclass]
  rw [hid, hids]
  obtain ⟨q, i, e, s⟩ := b
  simp_all

/-- A batch-level error object round-trips to a batch response carrying that error. -/
theorem C05_batch_level_error_roundtrip (reg : ErrRegistry) (cls : ErrClass) (e : RpcError) (b : BatchResponse)
    (h : BatchResponse.construct [] (.set e) = .ok b) :
    BatchResponse.fromJson reg cls b.toJson
      = .ok { b with error := .set { e with cls := (reg.getCls e.code cls).name } } := by
  have hb : b = ⟨[], [], .set e, true⟩ := by
    simp [BatchResponse.construct, BatchResponse.extend, addIds] at h; exact h.symm
  subst hb
  have he := C05_Error_roundtrip reg cls e
  simp [BatchResponse.toJson, Response.toJson, BatchResponse.fromJson, lookup, optIdToJson, he,
    BatchResponse.construct, BatchResponse.extend, addIds]

/-- The wire form follows the elements: a batch that has been serialised, then grown by `append` / `extend`,
serialises to the array of the wire forms of its current elements, in order (the serialisation is a function of the
current contents - nothing of an earlier serialisation can survive in it). -/
theorem C05_wire_follows_elements (b b' : BatchRequest) (rs : List Request) (h : b.extend rs = .ok b') :
    b'.toJson = .arr ((b.requests ++ rs).map Request.toJson) := by
  unfold BatchRequest.extend at h
  split at h
  · cases h
  · cases h; rfl

theorem C05_response_wire_follows_elements (b b' : BatchResponse) (rs : List Response) (he : b.error = .unset)
    (h : b.extend rs = .ok b') :
    b'.toJson = .arr ((b.responses ++ rs).map Response.toJson) := by
  unfold BatchResponse.extend at h
  split at h
  · cases h
  · cases h; simp [BatchResponse.toJson, he]

/-! ### Non-vacuity -/

example : (⟨some (.int 0), .set .null, .unset⟩ : Response).WF := by simp [Response.WF, MaybeSet.isSet]
example : ∃ b, BatchRequest.construct [⟨"m", .pos [.int 1], some (.int 1)⟩, ⟨"n", .none, none⟩] = .ok b := ⟨_, rfl⟩

end Pjrpc
