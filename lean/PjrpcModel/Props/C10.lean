/-
  C10 — concurrent batches cannot mix up responses; sequential mode is sequential.
  General part: schedule independence of non-interfering processes (any number of processes, any
  number of segments, any schedule, including indices of finished or non-existent processes).
  Specific part: the dispatcher's element handlers are such processes; corollaries for the batch.
-/
import PjrpcModel.Async
import PjrpcModel.Props.C02
namespace Pjrpc

/-! ### schedule independence -/

theorem soloLoc_congr {σ lam} (s0 s1 : σ) (l : lam) (gs : List (Seg σ lam))
    (h : ∀ g ∈ gs, Seg.NonInterfering g) : soloLoc s0 l gs = soloLoc s1 l gs := by
  induction gs generalizing l with
  | nil => rfl
  | cons g gs ih =>
    simp only [soloLoc]
    rw [h g (by simp) s0 s1 l]
    exact ih _ (fun g' hg' => h g' (by simp [hg']))

theorem final_stepAt {σ lam} (s0 : σ) (ps : List (Proc σ lam)) (h : ∀ p ∈ ps, p.NonInterfering) (i : Nat) (s : σ) :
    (stepAt ps i s).2.map (Proc.final s0) = ps.map (Proc.final s0)
      ∧ (∀ p ∈ (stepAt ps i s).2, p.NonInterfering) := by
  induction ps generalizing i s with
  | nil => simp [stepAt]
  | cons p ps ih =>
    cases i with
    | zero =>
      simp only [stepAt]
      cases htodo : p.todo with
      | nil => exact ⟨rfl, h⟩
      | cons g gs =>
        simp only [List.map_cons, List.cons.injEq, and_true, List.mem_cons, forall_eq_or_imp]
        have hp := h p (by simp)
        have hg : Seg.NonInterfering g := hp g (by simp [htodo])
        refine ⟨?_, ?_, fun q hq => h q (by simp [hq])⟩
        · simp only [Proc.final, htodo, soloLoc]
          rw [hg s s0 p.loc]
        · intro g' hg'
          exact hp g' (by simp [htodo, hg'])
    | succ i =>
      simp only [stepAt, List.map_cons, List.mem_cons, forall_eq_or_imp]
      have := ih (fun q hq => h q (by simp [hq])) i s
      exact ⟨by rw [this.1], h p (by simp), this.2⟩

/-- After *every* schedule prefix the vector "what each process will finally hold" is unchanged. -/
theorem schedule_independence {σ lam} (s0 : σ) (ps : List (Proc σ lam)) (h : ∀ p ∈ ps, p.NonInterfering)
    (sched : List Nat) (s : σ) :
    (runSched ps s sched).2.map (Proc.final s0) = ps.map (Proc.final s0) := by
  induction sched generalizing ps s with
  | nil => rfl
  | cons i is ih =>
    simp only [runSched]
    have hstep := final_stepAt s0 ps h i s
    rw [ih _ hstep.2, hstep.1]

/-- For every complete schedule the gathered results equal the vector of solo runs, in index order. -/
theorem complete_schedule_results {σ lam} (s0 : σ) (ps : List (Proc σ lam)) (h : ∀ p ∈ ps, p.NonInterfering)
    (sched : List Nat) (s : σ) (hdone : (runSched ps s sched).2.all Proc.done = true) :
    gatherResults (runSched ps s sched).2 = ps.map (Proc.final s0) := by
  rw [← schedule_independence s0 ps h sched s]
  unfold gatherResults
  apply List.map_congr_left
  intro p hp
  have : p.todo = [] := by
    have := List.all_eq_true.mp hdone p hp
    simpa [Proc.done] using this
  simp [Proc.final, this, soloLoc]

/-! ### the dispatcher's element handlers -/

theorem mkSeg_noninterfering (i : Nat) (c : List Event) (last : Option MaybeResp) : Seg.NonInterfering (mkSeg i c last) := by
  intro s s' l
  cases last <;> rfl

theorem mkSegs_noninterfering (i : Nat) (resp : MaybeResp) (cs : List (List Event)) :
    ∀ g ∈ mkSegs i resp cs, Seg.NonInterfering g := by
  induction cs with
  | nil => intro g hg; cases hg
  | cons c cs ih =>
    cases cs with
    | nil =>
      intro g hg
      simp only [mkSegs, List.mem_singleton] at hg
      subst hg; exact mkSeg_noninterfering _ _ _
    | cons c' cs' =>
      intro g hg
      simp only [mkSegs, List.mem_cons] at hg
      rcases hg with rfl | hg
      · exact mkSeg_noninterfering _ _ _
      · exact ih g (by simpa [mkSegs] using hg)

/-- The per-element handler chain holds no shared mutable state: its segments only append to the log. -/
theorem handler_segments_noninterfering (h : Handler) (ctx : String) (susp : Event → Nat) (reqs : List Request) :
    ∀ p ∈ batchProcs h ctx susp reqs, p.NonInterfering := by
  intro p hp
  simp only [batchProcs, List.mem_map] at hp
  obtain ⟨⟨r, i⟩, _, rfl⟩ := hp
  exact mkSegs_noninterfering _ _ _

theorem chunks_ne_nil (susp : Event → Nat) (evs : List Event) : chunks susp evs ≠ [] := by
  induction evs with
  | nil => simp [chunks]
  | cons e es ih =>
    unfold chunks
    split
    · simp
    · split <;> simp

theorem soloLoc_mkSegs (s0 : List AEvent) (i : Nat) (resp : MaybeResp) (cs : List (List Event)) (hne : cs ≠ []) (l : ElemLocal) :
    soloLoc s0 l (mkSegs i resp cs) = some resp := by
  induction cs generalizing l with
  | nil => exact absurd rfl hne
  | cons c cs ih =>
    cases cs with
    | nil => simp [mkSegs, soloLoc, mkSeg]
    | cons c' cs' =>
      simp only [mkSegs, soloLoc]
      exact ih (by simp) _

theorem elemProc_final (s0 : List AEvent) (h : Handler) (ctx : String) (susp : Event → Nat) (i : Nat) (req : Request) :
    (elemProc h ctx susp i req).final s0 = some (h req ctx).1 :=
  soloLoc_mkSegs s0 i _ _ (chunks_ne_nil _ _) none

theorem batchProcs_final (s0 : List AEvent) (h : Handler) (ctx : String) (susp : Event → Nat) (reqs : List Request) :
    (batchProcs h ctx susp reqs).map (Proc.final s0) = reqs.map (fun r => some (h r ctx).1) := by
  simp only [batchProcs, List.map_map]
  have : ∀ (k : Nat), (reqs.zipIdx k).map (Proc.final s0 ∘ fun x => elemProc h ctx susp x.2 x.1)
      = reqs.map (fun r => some (h r ctx).1) := by
    induction reqs with
    | nil => intro k; rfl
    | cons r rs ih =>
      intro k
      simp only [List.zipIdx_cons, List.map_cons, Function.comp, elemProc_final, List.cons.injEq, true_and]
      exact ih (k + 1)
  exact this 0

theorem collectLocals_some (xs : List MaybeResp) : collectLocals (xs.map some) = keepSet xs := by
  induction xs with
  | nil => rfl
  | cons x xs ih => cases x <;> simp [collectLocals, keepSet, ih]

/-- **Order and identity.**  Under *every* complete interleaving of the element handlers — methods,
middlewares and error handlers suspending, resuming and finishing in any order — the gathered
results are the responses the elements get alone, in request order, each with its own id and its
own result or error (notifications dropped). -/
theorem C10_order_and_identity (cfg : Config) (ctx : String) (susp : Event → Nat) (reqs : List Request)
    (sched : List Nat)
    (hdone : (runSched (batchProcs cfg.handler ctx susp reqs) [] sched).2.all Proc.done = true) :
    collectLocals (gatherResults (runSched (batchProcs cfg.handler ctx susp reqs) [] sched).2)
      = keepSet (reqs.map (fun r => (cfg.handler r ctx).1)) := by
  rw [complete_schedule_results [] _ (handler_segments_noninterfering _ _ _ _) sched [] hdone,
    batchProcs_final]
  have : reqs.map (fun r => some (cfg.handler r ctx).1) = (reqs.map (fun r => (cfg.handler r ctx).1)).map some := by
    simp
  rw [this, collectLocals_some]

/-- The batch branch of the synchronous dispatcher, as a function of the parsed requests. -/
def syncBatchResult (cfg : Config) (ctx : String) (reqs : List Request) : DispatchResult :=
  assembleBatch (keepSet (reqs.map (fun r => (cfg.handler r ctx).1)))

/-- Hence the asynchronous dispatcher answers a batch exactly as the synchronous one does, for every
complete schedule (concurrent mode). -/
theorem C10_async_batch_equals_sync (cfg : Config) (ctx : String) (susp : Event → Nat) (reqs : List Request)
    (sched : List Nat)
    (hdone : (runSched (batchProcs cfg.handler ctx susp reqs) [] sched).2.all Proc.done = true) :
    ∃ log, dispatchAsyncBatch cfg ctx susp true reqs sched = .result (syncBatchResult cfg ctx reqs) log := by
  unfold dispatchAsyncBatch
  simp only [↓reduceIte]
  cases hr : runSched (batchProcs cfg.handler ctx susp reqs) [] sched with
  | mk log final =>
    rw [hr] at hdone
    simp only at hdone
    have hcol := C10_order_and_identity cfg ctx susp reqs sched (by rw [hr]; exact hdone)
    rw [hr] at hcol
    simp only at hcol
    exact ⟨log, by simp only [hdone, ↓reduceIte, hcol, syncBatchResult]⟩

end Pjrpc

namespace Pjrpc

/-! ### exactly-once and sequential mode: a concrete view of the element processes -/

/-- the state of an element handler as data: remaining chunks, the response it will produce -/
structure CProc where
  idx : Nat
  chunks : List (List Event)
  resp : MaybeResp
  loc : ElemLocal

def CProc.toProc (c : CProc) : Proc (List AEvent) ElemLocal := ⟨c.loc, mkSegs c.idx c.resp c.chunks⟩

/-- what one resumption of the handler appends to the log -/
def emit (i : Nat) (chunk : List Event) (more : Bool) : List AEvent :=
  chunk.map (AEvent.ev i) ++ (if more then [AEvent.suspend i] else [])

def CProc.step (c : CProc) : List AEvent × CProc :=
  match c.chunks with
  | [] => ([], c)
  | [ch] => (emit c.idx ch false, { c with chunks := [], loc := some c.resp })
  | ch :: ch' :: rest => (emit c.idx ch true, { c with chunks := ch' :: rest })

def cstepAt : List CProc → Nat → List AEvent → List AEvent × List CProc
  | [], _, s => (s, [])
  | c :: cs, 0, s => (s ++ c.step.1, c.step.2 :: cs)
  | c :: cs, i + 1, s => ((cstepAt cs i s).1, c :: (cstepAt cs i s).2)

def crun (cs : List CProc) (s : List AEvent) : List Nat → List AEvent × List CProc
  | [] => (s, cs)
  | i :: is => crun (cstepAt cs i s).2 (cstepAt cs i s).1 is

theorem stepAt_toProc (cs : List CProc) (i : Nat) (s : List AEvent) :
    stepAt (cs.map CProc.toProc) i s = ((cstepAt cs i s).1, (cstepAt cs i s).2.map CProc.toProc) := by
  induction cs generalizing i with
  | nil => rfl
  | cons c cs ih =>
    cases i with
    | zero =>
      simp only [List.map_cons, stepAt, cstepAt, CProc.toProc]
      obtain ⟨idx, chunks, resp, loc⟩ := c
      cases chunks with
      | nil => simp [mkSegs, CProc.step, CProc.toProc]
      | cons ch rest =>
        cases rest with
        | nil => simp [mkSegs, CProc.step, CProc.toProc, mkSeg, emit]
        | cons ch' rest' => simp [mkSegs, CProc.step, CProc.toProc, mkSeg, emit]
    | succ i =>
      simp only [List.map_cons, stepAt, cstepAt, ih]

theorem runSched_toProc (cs : List CProc) (s : List AEvent) (sched : List Nat) :
    runSched (cs.map CProc.toProc) s sched = ((crun cs s sched).1, (crun cs s sched).2.map CProc.toProc) := by
  induction sched generalizing cs s with
  | nil => rfl
  | cons i is ih => simp only [runSched, crun, stepAt_toProc, ih]

/-- the events of element `i` in the log, in order -/
def projLog (i : Nat) : List AEvent → List Event
  | [] => []
  | .ev j e :: rest => if j = i then e :: projLog i rest else projLog i rest
  | .suspend _ :: rest => projLog i rest

theorem projLog_append (i : Nat) (a b : List AEvent) : projLog i (a ++ b) = projLog i a ++ projLog i b := by
  induction a with
  | nil => rfl
  | cons x xs ih =>
    cases x with
    | ev j e => simp only [List.cons_append, projLog]; split <;> simp [ih]
    | suspend j => simp only [List.cons_append, projLog, ih]

theorem projLog_emit (i j : Nat) (ch : List Event) (more : Bool) :
    projLog i (emit j ch more) = if j = i then ch else [] := by
  unfold emit
  rw [projLog_append]
  have h1 : projLog i (ch.map (AEvent.ev j)) = if j = i then ch else [] := by
    induction ch with
    | nil => simp [projLog]
    | cons e es ih => simp only [List.map_cons, projLog, ih]; split <;> simp_all
  have h2 : projLog i (if more then [AEvent.suspend j] else []) = [] := by cases more <;> rfl
  rw [h1, h2, List.append_nil]

/-- Invariant: what element `c.idx` has logged so far, followed by what it still has to log, is its
complete event list — every event exactly once, in order. -/
def CInv (evsOf : Nat → List Event) (cs : List CProc) (log : List AEvent) : Prop :=
  ∀ c ∈ cs, projLog c.idx log ++ c.chunks.flatten = evsOf c.idx

theorem CProc.step_spec (c : CProc) :
    c.step.2.idx = c.idx ∧ (∀ i, projLog i c.step.1 ++ (if c.idx = i then c.step.2.chunks.flatten else [])
      = if c.idx = i then c.chunks.flatten else []) := by
  obtain ⟨idx, chunks, resp, loc⟩ := c
  cases chunks with
  | nil => simp [CProc.step, projLog]
  | cons ch rest =>
    cases rest with
    | nil =>
      refine ⟨rfl, fun i => ?_⟩
      simp only [CProc.step, projLog_emit]
      split <;> simp
    | cons ch' rest' =>
      refine ⟨rfl, fun i => ?_⟩
      simp only [CProc.step, projLog_emit]
      split <;> simp

theorem cstepAt_idx (cs : List CProc) (i : Nat) (s : List AEvent) :
    (cstepAt cs i s).2.map (·.idx) = cs.map (·.idx) := by
  induction cs generalizing i with
  | nil => rfl
  | cons c cs ih =>
    cases i with
    | zero => simp [cstepAt, c.step_spec.1]
    | succ i => simp [cstepAt, ih]

theorem cstepAt_inv (evsOf : Nat → List Event) (cs : List CProc) (hnd : (cs.map (·.idx)).Nodup)
    (i : Nat) (s : List AEvent) (h : CInv evsOf cs s) : CInv evsOf (cstepAt cs i s).2 (cstepAt cs i s).1 := by
  -- the log only grows by the stepped process's emission
  have key : ∀ (cs : List CProc) (i : Nat) (s : List AEvent), (cs.map (·.idx)).Nodup →
      ∃ em, (cstepAt cs i s).1 = s ++ em ∧
        ∀ c' ∈ (cstepAt cs i s).2, ∃ c ∈ cs, c'.idx = c.idx ∧
          projLog c.idx em ++ c'.chunks.flatten = c.chunks.flatten := by
    intro cs
    induction cs with
    | nil => intro i s _; exact ⟨[], by simp [cstepAt], by simp [cstepAt]⟩
    | cons c cs ih =>
      intro i s hnd
      have hnd' := List.nodup_cons.mp hnd
      cases i with
      | zero =>
        refine ⟨c.step.1, rfl, ?_⟩
        intro c' hc'
        simp only [cstepAt, List.mem_cons] at hc'
        rcases hc' with rfl | hc'
        · refine ⟨c, by simp, c.step_spec.1, ?_⟩
          have := c.step_spec.2 c.idx
          simpa using this
        · refine ⟨c', by simp [hc'], rfl, ?_⟩
          have hne : c.idx ≠ c'.idx := by
            intro e
            apply hnd'.1
            show c.idx ∈ List.map (·.idx) cs
            rw [e]; exact List.mem_map_of_mem (f := (·.idx)) hc'
          have := c.step_spec.2 c'.idx
          simp only [hne, ↓reduceIte, List.append_nil] at this
          rw [this]; rfl
      | succ i =>
        obtain ⟨em, hem, hrest⟩ := ih i s hnd'.2
        refine ⟨em, by simp [cstepAt, hem], ?_⟩
        intro c' hc'
        simp only [cstepAt, List.mem_cons] at hc'
        rcases hc' with rfl | hc'
        · refine ⟨c', by simp, rfl, ?_⟩
          -- c' is untouched; the emission belongs to another process
          have hidx := cstepAt_idx cs i s
          have : projLog c'.idx em = [] := by
            -- every stepped-or-not process in the tail has an index different from c'.idx
            have hall : ∀ c'' ∈ (cstepAt cs i s).2, ∃ c0 ∈ cs, c''.idx = c0.idx ∧
                projLog c0.idx em ++ c''.chunks.flatten = c0.chunks.flatten := hrest
            clear hall
            -- em is the emission of a single process of the tail, or empty
            have hem' : ∀ (cs : List CProc) (i : Nat) (s : List AEvent),
                ∃ em, (cstepAt cs i s).1 = s ++ em ∧ ∀ j, (∀ c ∈ cs, c.idx ≠ j) → projLog j em = [] := by
              intro cs
              induction cs with
              | nil => intro i s; exact ⟨[], by simp [cstepAt], fun _ _ => rfl⟩
              | cons d ds ihd =>
                intro i s
                cases i with
                | zero =>
                  refine ⟨d.step.1, rfl, fun j hj => ?_⟩
                  have := d.step_spec.2 j
                  have hne : d.idx ≠ j := hj d (by simp)
                  simpa [hne] using this
                | succ i =>
                  obtain ⟨em, hem, hp⟩ := ihd i s
                  exact ⟨em, by simp [cstepAt, hem], fun j hj => hp j (fun c hc => hj c (by simp [hc]))⟩
            obtain ⟨em2, hem2, hp⟩ := hem' cs i s
            have : em2 = em := by
              have := hem.symm.trans hem2
              exact (List.append_cancel_left this).symm
            subst this
            apply hp
            intro c hc e
            apply hnd'.1
            show c'.idx ∈ List.map (·.idx) cs
            rw [← e]; exact List.mem_map_of_mem (f := (·.idx)) hc
          rw [this]; rfl
        · obtain ⟨c0, hc0, h1, h2⟩ := hrest c' hc'
          exact ⟨c0, by simp [hc0], h1, h2⟩
  obtain ⟨em, hem, hrest⟩ := key cs i s hnd
  intro c' hc'
  obtain ⟨c, hc, hidx, hsplit⟩ := hrest c' hc'
  rw [hem, projLog_append, hidx, List.append_assoc, hsplit]
  exact h c hc

theorem crun_inv (evsOf : Nat → List Event) (cs : List CProc) (hnd : (cs.map (·.idx)).Nodup)
    (sched : List Nat) (s : List AEvent) (h : CInv evsOf cs s) :
    CInv evsOf (crun cs s sched).2 (crun cs s sched).1 ∧ (crun cs s sched).2.map (·.idx) = cs.map (·.idx) := by
  induction sched generalizing cs s with
  | nil => exact ⟨h, rfl⟩
  | cons i is ih =>
    simp only [crun]
    have hidx := cstepAt_idx cs i s
    have := ih (cstepAt cs i s).2 (hidx ▸ hnd) (cstepAt cs i s).1 (cstepAt_inv evsOf cs hnd i s h)
    exact ⟨this.1, this.2.trans hidx⟩

end Pjrpc

namespace Pjrpc

theorem chunks_flatten (susp : Event → Nat) (evs : List Event) : (chunks susp evs).flatten = evs := by
  induction evs with
  | nil => rfl
  | cons e es ih =>
    unfold chunks
    cases hc : chunks susp es with
    | nil => exact absurd hc (chunks_ne_nil _ _)
    | cons c cs =>
      rw [hc] at ih
      simp only
      split
      · simpa using ih
      · simp only [List.flatten_cons, List.flatten_append, List.singleton_append]
        have : (List.replicate (susp e - 1) ([] : List Event)).flatten = [] := by
          induction (susp e - 1) with
          | zero => rfl
          | succ n ihn => simpa [List.replicate_succ] using ihn
        rw [this]; simpa using ih

/-- the concrete processes of a batch -/
def batchCProcs (h : Handler) (ctx : String) (susp : Event → Nat) (k : Nat) (reqs : List Request) : List CProc :=
  (reqs.zipIdx k).map (fun (r, i) => ⟨i, chunks susp (h r ctx).2, (h r ctx).1, none⟩)

theorem batchProcs_eq (h : Handler) (ctx : String) (susp : Event → Nat) (reqs : List Request) :
    batchProcs h ctx susp reqs = (batchCProcs h ctx susp 0 reqs).map CProc.toProc := by
  simp [batchProcs, batchCProcs, CProc.toProc, elemProc, Function.comp_def]

theorem batchCProcs_idx (h : Handler) (ctx : String) (susp : Event → Nat) (k : Nat) (reqs : List Request) :
    (batchCProcs h ctx susp k reqs).map (·.idx) = List.range' k reqs.length := by
  induction reqs generalizing k with
  | nil => rfl
  | cons r rs ih =>
    simp only [batchCProcs, List.zipIdx_cons, List.map_cons, List.length_cons, List.range'_succ, List.cons.injEq, true_and]
    exact ih (k + 1)

/-- the events element `i` of the batch produces when it is handled alone -/
def elemEvents (h : Handler) (ctx : String) (reqs : List Request) (i : Nat) : List Event :=
  match reqs[i]? with
  | some r => (h r ctx).2
  | none => []

theorem batchCProcs_inv (h : Handler) (ctx : String) (susp : Event → Nat) (reqs : List Request) :
    CInv (elemEvents h ctx reqs) (batchCProcs h ctx susp 0 reqs) [] := by
  intro c hc
  simp only [batchCProcs, List.mem_map] at hc
  obtain ⟨⟨r, i⟩, hmem, rfl⟩ := hc
  have := List.mem_zipIdx hmem
  simp only [projLog, List.nil_append, chunks_flatten, elemEvents]
  have hi : reqs[i]? = some r := by
    have h2 := this.2.2
    simp only [Nat.sub_zero] at h2
    rw [List.getElem?_eq_getElem (by omega)]
    simp [h2]
  rw [hi]

/-- **Exactly once.**  Under every complete schedule, what the log holds for batch element `i` is
exactly the event list of that element handled alone: every middleware entered and left once, the
method executed once (if at all), every handler run once — in the element's own order. -/
theorem C10_exactly_once (cfg : Config) (ctx : String) (susp : Event → Nat) (reqs : List Request) (sched : List Nat)
    (hdone : (runSched (batchProcs cfg.handler ctx susp reqs) [] sched).2.all Proc.done = true)
    (i : Nat) (hi : i < reqs.length) :
    projLog i (runSched (batchProcs cfg.handler ctx susp reqs) [] sched).1 = elemEvents cfg.handler ctx reqs i := by
  rw [batchProcs_eq, runSched_toProc] at hdone ⊢
  simp only at hdone ⊢
  have hidx := batchCProcs_idx cfg.handler ctx susp 0 reqs
  have hnd : ((batchCProcs cfg.handler ctx susp 0 reqs).map (·.idx)).Nodup := by
    rw [hidx]; exact List.nodup_range'
  have hinv := crun_inv (elemEvents cfg.handler ctx reqs) _ hnd sched [] (batchCProcs_inv cfg.handler ctx susp reqs)
  -- the process with index i
  have hmem : i ∈ ((crun (batchCProcs cfg.handler ctx susp 0 reqs) [] sched).2.map (·.idx)) := by
    rw [hinv.2, hidx]; simp [List.mem_range']; omega
  obtain ⟨c, hc, hci⟩ := List.mem_map.mp hmem
  have hdone_c : c.chunks = [] := by
    have := List.all_eq_true.mp hdone (c.toProc) (List.mem_map_of_mem hc)
    simp only [Proc.done, CProc.toProc, List.isEmpty_iff] at this
    obtain ⟨idx, chunks, resp, loc⟩ := c
    cases chunks with
    | nil => rfl
    | cons ch rest => cases rest <;> simp [mkSegs] at this
  have := hinv.1 c hc
  rw [hdone_c, hci] at this
  simpa using this

/-! ### sequential mode -/

/-- everything an element handler appends to the log when it runs from start to end -/
def fullEmit (i : Nat) : List (List Event) → List AEvent
  | [] => []
  | [ch] => emit i ch false
  | ch :: ch' :: rest => emit i ch true ++ fullEmit i (ch' :: rest)

theorem mkSegs_length (i : Nat) (resp : MaybeResp) (cs : List (List Event)) : (mkSegs i resp cs).length = cs.length := by
  induction cs with
  | nil => rfl
  | cons c cs ih => cases cs <;> simp_all [mkSegs]

theorem crun_head (c : CProc) (cs : List CProc) (s : List AEvent) :
    crun (c :: cs) s (List.replicate c.chunks.length 0)
      = (s ++ fullEmit c.idx c.chunks, { c with chunks := [], loc := if c.chunks = [] then c.loc else some c.resp } :: cs) := by
  obtain ⟨idx, chunks, resp, loc⟩ := c
  induction chunks generalizing s loc with
  | nil => simp [crun, fullEmit]
  | cons ch rest ih =>
    cases rest with
    | nil => simp [crun, cstepAt, CProc.step, fullEmit]
    | cons ch' rest' =>
      have hstep : crun (⟨idx, ch :: ch' :: rest', resp, loc⟩ :: cs) s (List.replicate (ch :: ch' :: rest').length 0)
          = crun (⟨idx, ch' :: rest', resp, loc⟩ :: cs) (s ++ emit idx ch true) (List.replicate (ch' :: rest').length 0) := rfl
      rw [hstep, ih (s ++ emit idx ch true) loc]
      simp [fullEmit, List.append_assoc]

theorem crun_shift (c : CProc) (cs : List CProc) (s : List AEvent) (sched : List Nat) :
    crun (c :: cs) s (sched.map (· + 1)) = ((crun cs s sched).1, c :: (crun cs s sched).2) := by
  induction sched generalizing cs s with
  | nil => rfl
  | cons i is ih => simp only [List.map_cons, crun, cstepAt, ih]

theorem crun_append (cs : List CProc) (s : List AEvent) (a b : List Nat) :
    crun cs s (a ++ b) = crun (crun cs s a).2 (crun cs s a).1 b := by
  induction a generalizing cs s with
  | nil => rfl
  | cons i is ih => simp only [List.cons_append, crun, ih]

/-- the sequential schedule of a list of concrete processes, positions counted from 0 -/
def cseqSchedule : List CProc → List Nat
  | [] => []
  | c :: cs => List.replicate c.chunks.length 0 ++ (cseqSchedule cs).map (· + 1)

theorem seqSchedule_toProc (cs : List CProc) : seqSchedule (cs.map CProc.toProc) = cseqSchedule cs := by
  have : ∀ (k : Nat), (((cs.map CProc.toProc).zipIdx k).map (fun (p, i) => List.replicate p.todo.length i)).flatten
      = (cseqSchedule cs).map (· + k) := by
    induction cs with
    | nil => intro k; rfl
    | cons c cs ih =>
      intro k
      simp only [List.map_cons, List.zipIdx_cons, List.flatten_cons, cseqSchedule, List.map_append, List.map_map]
      rw [ih (k + 1)]
      congr 1
      · simp [CProc.toProc, mkSegs_length]
      · apply List.map_congr_left; intro x _; simp; omega
  have h0 := this 0
  simpa [seqSchedule] using h0

/-- In sequential mode every element handler runs to its end before the next one starts: the log is
the concatenation, in request order, of the complete emissions of the elements, and every handler
has finished. -/
theorem crun_seq (cs : List CProc) (s : List AEvent) :
    (crun cs s (cseqSchedule cs)).1 = s ++ (cs.map (fun c => fullEmit c.idx c.chunks)).flatten
      ∧ ∀ c ∈ (crun cs s (cseqSchedule cs)).2, c.chunks = [] := by
  induction cs generalizing s with
  | nil => simp [crun, cseqSchedule]
  | cons c cs ih =>
    simp only [cseqSchedule, crun_append, crun_head, crun_shift]
    have := ih (s ++ fullEmit c.idx c.chunks)
    refine ⟨by simp [this.1, List.append_assoc], ?_⟩
    intro c' hc'
    simp only [List.mem_cons] at hc'
    rcases hc' with rfl | hc'
    · rfl
    · exact this.2 c' hc'

theorem C10_sequential_no_overlap (cfg : Config) (ctx : String) (susp : Event → Nat) (reqs : List Request) (sched : List Nat) :
    ∃ r, dispatchAsyncBatch cfg ctx susp false reqs sched
      = .result r ((reqs.zipIdx.map (fun (r, i) => fullEmit i (chunks susp (cfg.handler r ctx).2))).flatten)
      ∧ r = syncBatchResult cfg ctx reqs := by
  unfold dispatchAsyncBatch
  simp only [Bool.false_eq_true, ↓reduceIte]
  rw [batchProcs_eq, seqSchedule_toProc, runSched_toProc]
  have hseq := crun_seq (batchCProcs cfg.handler ctx susp 0 reqs) []
  have hdone : ((crun (batchCProcs cfg.handler ctx susp 0 reqs) [] (cseqSchedule (batchCProcs cfg.handler ctx susp 0 reqs))).2.map CProc.toProc).all Proc.done = true := by
    simp only [List.all_eq_true, List.mem_map]
    rintro p ⟨c, hc, rfl⟩
    simp [Proc.done, CProc.toProc, hseq.2 c hc, mkSegs]
  simp only [hdone, ↓reduceIte]
  have hlog : (crun (batchCProcs cfg.handler ctx susp 0 reqs) [] (cseqSchedule (batchCProcs cfg.handler ctx susp 0 reqs))).1
      = (reqs.zipIdx.map (fun (r, i) => fullEmit i (chunks susp (cfg.handler r ctx).2))).flatten := by
    rw [hseq.1]
    simp [batchCProcs, Function.comp_def]
  refine ⟨_, by rw [hlog], ?_⟩
  -- results: the sequential schedule is a complete schedule of the same processes
  have hdone' : (runSched (batchProcs cfg.handler ctx susp reqs) [] (cseqSchedule (batchCProcs cfg.handler ctx susp 0 reqs))).2.all Proc.done = true := by
    rw [batchProcs_eq, runSched_toProc]; exact hdone
  have := C10_order_and_identity cfg ctx susp reqs _ hdone'
  rw [batchProcs_eq, runSched_toProc] at this
  simp only at this
  simp only [syncBatchResult, this]

/-! ### Non-vacuity: a complete, genuinely interleaved schedule exists -/

example :
    let h : Handler := fun r _ => (.set ⟨r.id, .set (.str r.method), .unset⟩, [.exec r.method .null, .mwLeave 0])
    let susp : Event → Nat := fun e => match e with | .exec .. => 1 | _ => 0
    let reqs : List Request := [⟨"a", .none, some (.int 1)⟩, ⟨"b", .none, some (.int 2)⟩]
    (runSched (batchProcs h "CTX" susp reqs) [] [0, 1, 1, 0]).1
      = [.ev 0 (.exec "a" .null), .suspend 0, .ev 1 (.exec "b" .null), .suspend 1, .ev 1 (.mwLeave 0), .ev 0 (.mwLeave 0)]
    ∧ (runSched (batchProcs h "CTX" susp reqs) [] [0, 1, 1, 0]).2.all Proc.done = true := by
  decide

end Pjrpc
