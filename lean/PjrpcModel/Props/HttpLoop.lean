/-
  C18 / C07 / C08 over HTTP — the client's HTTP backends (Backend.lean) composed with the server's HTTP
  integrations (Http.lean): a pjrpc client talking to a pjrpc server through requests / aiohttp /
  httpx on one side and aiohttp / flask / werkzeug on the other behaves like the loop-back transport
  of C07, so C07's and C08's theorems carry over to the HTTP transports.
-/
import PjrpcModel.Backend
import PjrpcModel.Props.C07
import PjrpcModel.Props.C18
namespace Pjrpc

/-! ### `content_type.split(';')[0]` -/

theorem splitSemiChars_append (a b : List Char) (h : ';' ∉ a) : splitSemiChars (a ++ ';' :: b) = a := by
  induction a with
  | nil => simp [splitSemiChars]
  | cons c cs ih =>
    simp only [List.mem_cons, not_or] at h
    have hc : (c == ';') = false := by
      rcases h with ⟨h1, _⟩
      simp; exact fun e => h1 e.symm
    simp [splitSemiChars, hc, ih h.2]

theorem splitSemiChars_none (a : List Char) (h : ';' ∉ a) : splitSemiChars a = a := by
  induction a with
  | nil => simp [splitSemiChars]
  | cons c cs ih =>
    simp only [List.mem_cons, not_or] at h
    have hc : (c == ';') = false := by
      rcases h with ⟨h1, _⟩
      simp; exact fun e => h1 e.symm
    simp [splitSemiChars, hc, ih h.2]

/-- whatever parameters a framework appends after the media type (charset, boundary, …), the
backends' `split(';')[0]` recovers the media type itself -/
theorem splitSemi_header (mt : String) (params : Option String) (h : ';' ∉ mt.toList) :
    splitSemi (headerOf mt params) = mt := by
  cases params with
  | none => simp [splitSemi, headerOf, splitSemiChars_none _ h]
  | some p => simp [splitSemi, headerOf, String.toList_append, splitSemiChars_append _ _ h]

/-! ### the two content-type handshakes -/

/-- the content type every client backend sends passes the gate of every server integration -/
theorem C18_backend_request_type_passes_gate : gateAccepts Defaults.defaultContentType = true := by decide

/-- the content type every integration answers with — followed by any parameters — passes the
content-type test of every client backend -/
theorem C18_reply_type_accepted_by_backends (params : Option String) :
    responseTypeAccepted (some (headerOf Defaults.defaultContentType params)) = true := by
  have h : ';' ∉ Defaults.defaultContentType.toList := by decide
  simp only [responseTypeAccepted, Option.getD_some, splitSemi_header _ params h]
  decide

/-- every media type the backends accept is one the specification lists for responses, and the
backends accept each of them with or without parameters -/
theorem C18_backends_accept_documented (mt : String) (hmt : mt ∈ Defaults.responseContentTypes) (params : Option String) :
    responseTypeAccepted (some (headerOf mt params)) = true := by
  have h : ';' ∉ mt.toList := by
    simp only [Defaults.responseContentTypes, List.mem_cons, List.not_mem_nil, or_false] at hmt
    rcases hmt with rfl | rfl <;> decide
  simp [responseTypeAccepted, splitSemi_header _ params h, hmt]

/-! ### the backends' `_request` -/

/-- a notification never yields a text: the strict client's "unexpected response" test cannot fire
over the HTTP backends, whatever the server sends back -/
theorem backendRequest_notification (rfs : Bool) (o : HttpOutcome) :
    backendRequest rfs true o = .noBody ∨ ∃ e, backendRequest rfs true o = .raises e := by
  cases o with
  | failed e => exact Or.inr ⟨e, rfl⟩
  | response status ct body =>
    simp only [backendRequest]
    split
    · exact Or.inr ⟨_, rfl⟩
    · exact Or.inl (by simp)

/-- C08 at the transport: a non-empty reply under a media type that is not a JSON-RPC response
content type is refused with the library's deserialisation error, whatever its body is -/
theorem C08_foreign_content_type_refused (cfg : ClientCfg) (r : Request) (i : ReqId) (hid : r.id = some i)
    (rfs : Bool) (status : Int) (ct : Option String) (lr : LoadResult)
    (hst : (rfs && statusRaises status) = false) (hct : responseTypeAccepted ct = false) :
    sendSingle cfg r (backendRequest rfs false (.response status ct (.text lr))) = .raised (.exc .deserialization) := by
  have hn : r.isNotification = false := by simp [Request.isNotification, hid]
  simp [backendRequest, hst, hct, sendSingle, hn, loadReply]

/-- with `raise_for_status` (the default) an error status is raised as the HTTP library's status
error before the body is looked at -/
theorem backendRequest_status_error (isN : Bool) (status : Int) (ct : Option String) (body : HttpBody)
    (h : statusRaises status = true) :
    backendRequest true isN (.response status ct body) = .raises httpStatusError := by
  simp [backendRequest, h]

/-! ### composition: client backend ∘ server integration = loop-back -/

/-- **HTTP is transparent.**  For every integration, every backend configuration and whatever
parameters the framework appends to the content type: if the status function keeps the reply below
400 (the default 200 does) or the client does not raise for status, a client request served over HTTP
yields exactly what the loop-back transport of C07 yields — the dispatcher's document, or nothing for
a notification — and the server runs exactly what `dispatch` runs. -/
theorem C18_http_transparent (i : Integration) (server : Config) (sbe : List Int → Int) (params : Option String)
    (rfs : Bool) (req : AnyRequest) (ctx : String)
    (hstatus : ∀ doc codes, (dispatch server (.ok req.toJson) ctx).1 = .reply doc codes →
        (rfs && statusRaises (statusOf i sbe codes)) = false)
    (hanswer : (dispatch server (.ok req.toJson) ctx).1 = .nothing ↔ req.isNotification = true)
    (hnoraise : ∀ e, (dispatch server (.ok req.toJson) ctx).1 ≠ .raised e) :
    httpExchange i server sbe params rfs req ctx
      = (loopbackReply server req.toJson ctx, (dispatch server (.ok req.toJson) ctx).2) := by
  have hg := C18_backend_request_type_passes_gate
  simp only [httpExchange, rpcHandle, hg, Bool.not_true, Bool.false_eq_true, ↓reduceIte, loopbackReply]
  cases hd : (dispatch server (.ok req.toJson) ctx).1 with
  | nothing =>
    have hn := hanswer.mp hd
    simp [asSeenByClient, backendRequest, statusRaises, hn]
  | reply doc codes =>
    have hn : req.isNotification = false := by
      cases h : req.isNotification with
      | false => rfl
      | true => rw [hanswer.mpr h] at hd; cases hd
    have hs := hstatus doc codes hd
    have hct := C18_reply_type_accepted_by_backends params
    simp [asSeenByClient, backendRequest, hs, hn, hct]
  | raised e => exact absurd hd (hnoraise e)

/-- for a single call answered by the handler chain the three premises of `C18_http_transparent`
hold under the default status function -/
theorem http_single_call (i : Integration) (server : Config) (params : Option String) (rfs : Bool)
    (r : Request) (id : ReqId) (ctx : String) (resp : Response)
    (hid : r.id = some id) (hh : (server.handler r.norm ctx).1 = .set resp) :
    (httpExchange i server (fun _ => Defaults.httpDefaultStatus) params rfs (.single r) ctx).1
      = loopbackReply server r.toJson ctx := by
  have hnot : r.toJson.isArr = false := by simp [Request.toJson, Json.isArr]
  have hd := C12_chain_result_is_sent server r.toJson r.norm ctx hnot (C05_Request_roundtrip r)
  have hdisp : (dispatch server (.ok r.toJson) ctx).1 = replySingle resp := by rw [hd, hh]
  have hn : r.isNotification = false := by simp [Request.isNotification, hid]
  have := C18_http_transparent i server (fun _ => Defaults.httpDefaultStatus) params rfs (.single r) ctx
    (by intro doc codes _; cases i <;> simp [statusOf, statusRaises, Defaults.httpDefaultStatus])
    (by simp [AnyRequest.toJson, AnyRequest.isNotification, hdisp, replySingle, hn])
    (by intro e; simp [AnyRequest.toJson, hdisp, replySingle])
  simpa [AnyRequest.toJson] using congrArg Prod.fst this

/-- **C07 over HTTP, value.**  Through any client backend and any server integration the caller
obtains the value the registered function returns. -/
theorem C07_value_over_http (i : Integration) (server : Config) (cfg : ClientCfg) (params : Option String) (rfs : Bool)
    (r : Request) (id : ReqId) (ctx : String) (v : Json)
    (hid : r.id = some id) (hh : (server.handler r.norm ctx).1 = .set ⟨some id, .set v, .unset⟩) :
    callResult cfg r (httpExchange i server (fun _ => Defaults.httpDefaultStatus) params rfs (.single r) ctx).1 = .ok v := by
  rw [http_single_call i server params rfs r id ctx _ hid hh]
  exact C07_loopback_value server cfg r id ctx v hid hh

/-- **C07 over HTTP, error.**  … or an exception of the class registered for the code with the
function's code, message and data. -/
theorem C07_error_over_http (i : Integration) (server : Config) (cfg : ClientCfg) (params : Option String) (rfs : Bool)
    (r : Request) (id : ReqId) (ctx : String) (e : RpcError)
    (hid : r.id = some id) (hh : (server.handler r.norm ctx).1 = .set ⟨some id, .unset, .set e⟩) :
    callResult cfg r (httpExchange i server (fun _ => Defaults.httpDefaultStatus) params rfs (.single r) ctx).1
      = .raised (.rpc (classOf cfg e)) := by
  rw [http_single_call i server params rfs r id ctx _ hid hh]
  exact C07_loopback_error server cfg r id ctx e hid hh

/-- **C07 over HTTP, notification.**  A notification returns nothing and raises nothing through every
backend / integration pair, whatever the status function says below 400. -/
theorem C07_notification_over_http (i : Integration) (server : Config) (hwb : server.WellBehaved) (cfg : ClientCfg)
    (params : Option String) (rfs : Bool) (r : Request) (ctx : String) (hid : r.id = none) :
    sendSingle cfg r (httpExchange i server (fun _ => Defaults.httpDefaultStatus) params rfs (.single r) ctx).1 = .ok none := by
  have hnot : r.toJson.isArr = false := by simp [Request.toJson, Json.isArr]
  have hd := C02_notification_silent server hwb r.toJson r.norm ctx hnot (C05_Request_roundtrip r) (by simp [Request.norm, hid])
  have hn : r.isNotification = true := by simp [Request.isNotification, hid]
  have := C18_http_transparent i server (fun _ => Defaults.httpDefaultStatus) params rfs (.single r) ctx
    (by intro doc codes _; cases i <;> simp [statusOf, statusRaises, Defaults.httpDefaultStatus])
    (by simp [AnyRequest.toJson, AnyRequest.isNotification, hd, hn])
    (by intro e; simp [AnyRequest.toJson, hd])
  have h1 : (httpExchange i server (fun _ => Defaults.httpDefaultStatus) params rfs (.single r) ctx).1
      = loopbackReply server r.toJson ctx := by simpa [AnyRequest.toJson] using congrArg Prod.fst this
  rw [h1]
  exact C07_notification_silent server hwb cfg r ctx hid

/-- **A status function that signals errors by HTTP status hides the JSON-RPC error from a client that
raises for status** (the default of all backends): the caller gets the HTTP library's status error, not
the protocol error.  Stated so that the interplay is explicit; it is the reason `C18_http_transparent`
carries the status premise. -/
theorem C18_error_status_masks_reply (i : Integration) (server : Config) (sbe : List Int → Int) (params : Option String)
    (req : AnyRequest) (ctx : String) (doc : Json) (codes : List Int)
    (hd : (dispatch server (.ok req.toJson) ctx).1 = .reply doc codes)
    (hs : statusRaises (statusOf i sbe codes) = true) :
    (httpExchange i server sbe params true req ctx).1 = .raises httpStatusError := by
  have hg := C18_backend_request_type_passes_gate
  simp [httpExchange, rpcHandle, hg, hd, asSeenByClient, backendRequest, hs]

/-! non-vacuity: a call and a notification through the model, end to end -/
example :
    let server : Config := { registry := [("m", { name := "m", sig := [], body := fun _ => .ret (.int 7) })] }
    let r : Request := ⟨"m", .pos [], some (.int 1)⟩
    callResult {} r (httpExchange .flask server (fun _ => 200) (some " charset=utf-8") true (.single r) "CTX").1 = .ok (.int 7) := by
  decide

example : splitSemi "application/json; charset=utf-8" = "application/json"
    ∧ responseTypeAccepted (some "Application/JSON") = false
    ∧ responseTypeAccepted (some "application/json ;charset=utf-8") = false
    ∧ responseTypeAccepted none = false := by decide

end Pjrpc
