/-
  C07 — calling through client and server equals calling the function, in any notation.
-/
import PjrpcModel.ClientRun
import PjrpcModel.Props.C02
import PjrpcModel.Props.C05
namespace Pjrpc
open Json

/-! ### one well-formed request document per notation -/

/-- `call`, `client(m, …)`, `proxy.m(…)`, `notify`: exactly the document of one request — a call
carries the generator's first id, a notification none; arguments positional or named as given. -/
theorem C07_one_wellformed_document (firstId : ReqId) (c : CallSpec) (hv : c.valid = true) :
    ∃ r, buildCall firstId c = .ok r ∧ r.method = c.method ∧ r.params = c.params
      ∧ r.id = (if c.notify then none else some firstId)
      ∧ ∃ kvs, r.toJson = .obj kvs ∧ lookup "jsonrpc" kvs = some (.str "2.0")
        ∧ lookup "method" kvs = some (.str c.method)
        ∧ lookup "id" kvs = (if c.notify then none else some firstId.toJson)
        ∧ lookup "params" kvs = (if c.params.truthy then some c.params.toJson else none) := by
  refine ⟨⟨c.method, c.params, if c.notify then none else some firstId⟩, by simp [buildCall, hv], rfl, rfl, rfl, ?_⟩
  obtain ⟨kvs, h1, h2, h3, h4, h5, _⟩ := C05_wire_exact_request ⟨c.method, c.params, if c.notify then none else some firstId⟩
  refine ⟨kvs, h1, h2, h3, ?_, h5⟩
  rw [h4]; cases c.notify <;> rfl

/-- positional and named arguments together are refused before anything is sent -/
theorem C07_mixed_arguments_refused (firstId : ReqId) (c : CallSpec) (hv : c.valid = false) :
    buildCall firstId c = .raised .assertion := by
  simp [buildCall, hv]

/-! ### batches: ids pairwise distinct -/

theorem buildBatch_inv (gen : Nat → ReqId) (k : Nat) (b b' : BatchRequest) (cs : List CallSpec)
    (hb : b.Inv) (h : buildBatch gen k b cs = .ok b') : b'.Inv ∧ b'.strict = b.strict := by
  induction cs generalizing k b with
  | nil => simp [buildBatch] at h; subst h; exact ⟨hb, rfl⟩
  | cons c cs ih =>
    unfold buildBatch at h
    split at h
    · cases h
    · split at h
      · cases ha : b.append ⟨c.method, c.params, none⟩ with
        | raised e => rw [ha] at h; cases h
        | ok b1 =>
          rw [ha] at h
          have h1 := C06_extend_ok_inv b b1 _ hb ha
          have := ih _ _ h1.1 h
          exact ⟨this.1, this.2.trans (extend_strict_eq b b1 _ ha)⟩
      · cases ha : b.append ⟨c.method, c.params, some (gen k)⟩ with
        | raised e => rw [ha] at h; cases h
        | ok b1 =>
          rw [ha] at h
          have h1 := C06_extend_ok_inv b b1 _ hb ha
          have := ih _ _ h1.1 h
          exact ⟨this.1, this.2.trans (extend_strict_eq b b1 _ ha)⟩

/-- Any batch document that is *emitted* has pairwise distinct call ids — for every id generator,
because the strict `BatchRequest` refuses a duplicate before anything is sent. -/
theorem C07_batch_ids_distinct (gen : Nat → ReqId) (cs : List CallSpec) (b : BatchRequest)
    (h : buildBatch gen 0 (BatchRequest.empty true) cs = .ok b) : (callIds b.requests).Nodup := by
  have hinv : (BatchRequest.empty true).Inv := by intro _; simp [BatchRequest.empty, callIds]
  have := buildBatch_inv gen 0 _ b cs hinv h
  exact (this.1 (by rw [this.2]; rfl)).2

theorem C07_getitem_ids_distinct (gen : Nat → ReqId) (items : List (String × List Json)) (b : BatchRequest)
    (h : buildBatchGetitem gen (BatchRequest.empty true) items = .ok b) : (callIds b.requests).Nodup := by
  have hinv : (BatchRequest.empty true).Inv := by intro _; simp [BatchRequest.empty, callIds]
  have h1 := C06_extend_ok_inv _ b _ hinv h
  have hs := extend_strict_eq _ b _ h
  exact (h1.1 (by rw [hs]; rfl)).2

/-- with the default `sequential` generator and a non-zero step no refusal ever happens -/
theorem sequentialGen_injective (start step : Int) (hstep : step ≠ 0) (a b : Nat)
    (h : sequentialGen start step a = sequentialGen start step b) : a = b := by
  simp only [sequentialGen, ReqId.int.injEq] at h
  have : step * (a : Int) = step * (b : Int) := by omega
  have := Int.eq_of_mul_eq_mul_left hstep this
  exact Int.ofNat_inj.mp this

theorem buildBatch_sequential_ok (start step : Int) (hstep : step ≠ 0) (cs : List CallSpec) (hv : ∀ c ∈ cs, c.valid = true)
    (k : Nat) (b : BatchRequest) (hb : b.Inv) (hs : b.strict = true)
    (hfresh : ∀ i ∈ callIds b.requests, ∃ j, j < k ∧ i = sequentialGen start step j) :
    ∃ b', buildBatch (sequentialGen start step) k b cs = .ok b' := by
  induction cs generalizing k b with
  | nil => exact ⟨b, rfl⟩
  | cons c cs ih =>
    have hvc := hv c (by simp)
    unfold buildBatch
    simp only [hvc, Bool.not_true, Bool.false_eq_true, ↓reduceIte]
    cases hn : c.notify with
    | true =>
      simp only [↓reduceIte]
      have hno : ¬ ∃ e, b.extend [⟨c.method, c.params, none⟩] = .raised e := by
        rw [C06_extend_raise_iff_dup b _ hb hs]
        simp [callIds]
      cases ha : b.extend [⟨c.method, c.params, none⟩] with
      | raised e => exact absurd ⟨e, ha⟩ hno
      | ok b1 =>
        simp only [BatchRequest.append, ha]
        have h1 := C06_extend_ok_inv b b1 _ hb ha
        apply ih (fun c' hc' => hv c' (by simp [hc'])) k b1 h1.1 ((extend_strict_eq b b1 _ ha).trans hs)
        intro i hi
        rw [h1.2] at hi
        simp only [callIds, List.filterMap_append, List.filterMap_cons, List.filterMap_nil, List.append_nil] at hi
        exact hfresh i hi
    | false =>
      simp only [Bool.false_eq_true, ↓reduceIte]
      have hno : ¬ ∃ e, b.extend [⟨c.method, c.params, some (sequentialGen start step k)⟩] = .raised e := by
        rw [C06_extend_raise_iff_dup b _ hb hs]
        simp only [callIds, List.filterMap_cons, List.filterMap_nil, List.nodup_cons, List.not_mem_nil, not_false_eq_true,
          List.nodup_nil, and_self, not_true_eq_false, List.mem_cons, or_false, exists_eq_left, false_or]
        intro hmem
        obtain ⟨j, hj, he⟩ := hfresh _ hmem
        have := sequentialGen_injective start step hstep _ _ he
        omega
      cases ha : b.extend [⟨c.method, c.params, some (sequentialGen start step k)⟩] with
      | raised e => exact absurd ⟨e, ha⟩ hno
      | ok b1 =>
        simp only [BatchRequest.append, ha]
        have h1 := C06_extend_ok_inv b b1 _ hb ha
        apply ih (fun c' hc' => hv c' (by simp [hc'])) (k + 1) b1 h1.1 ((extend_strict_eq b b1 _ ha).trans hs)
        intro i hi
        rw [h1.2] at hi
        simp only [callIds, List.filterMap_append, List.filterMap_cons, List.filterMap_nil, List.mem_append, List.mem_cons,
          List.not_mem_nil, or_false] at hi
        rcases hi with hi | hi
        · obtain ⟨j, hj, he⟩ := hfresh i hi
          exact ⟨j, by omega, he⟩
        · exact ⟨k, by omega, hi⟩

theorem C07_sequential_never_refused (start step : Int) (hstep : step ≠ 0) (cs : List CallSpec) (hv : ∀ c ∈ cs, c.valid = true) :
    ∃ b, buildBatch (sequentialGen start step) 0 (BatchRequest.empty true) cs = .ok b := by
  apply buildBatch_sequential_ok start step hstep cs hv 0 _ (by intro _; simp [BatchRequest.empty, callIds]) rfl
  intro i hi; simp [BatchRequest.empty, callIds] at hi

/-! ### loop-back through the library's own dispatcher -/

/-- the transport that hands the document to the dispatcher -/
def loopbackReply (server : Config) (doc : Json) (ctx : String) : WireReply :=
  match (dispatch server (.ok doc) ctx).1 with
  | .nothing => .noBody
  | .reply d _ => .text (.ok d)
  | .raised e => .raises e

/-- the class an error comes back as: registered for the code, else the client's base class -/
def classOf (cfg : ClientCfg) (e : RpcError) : RpcError := { e with cls := (cfg.reg.getCls e.code cfg.errorCls).name }

theorem loopback_single (server : Config) (cfg : ClientCfg) (r : Request) (i : ReqId) (ctx : String) (resp : Response)
    (hid : r.id = some i) (hh : (server.handler r.norm ctx).1 = .set resp) (hrid : resp.id = some i) (hwf : resp.WF) :
    sendSingle cfg r (loopbackReply server r.toJson ctx) = .ok (some (resp.reclass cfg.reg cfg.errorCls)) := by
  have hnot : r.toJson.isArr = false := by simp [Request.toJson, Json.isArr]
  have hd := C12_chain_result_is_sent server r.toJson r.norm ctx hnot (C05_Request_roundtrip r)
  have hn : r.isNotification = false := by simp [Request.isNotification, hid]
  simp only [loopbackReply, hd, hh, replySingle, sendSingle, hn, Bool.false_eq_true, ↓reduceIte, loadReply,
    C05_Response_roundtrip cfg.reg cfg.errorCls resp hwf, relateSingle]
  have : (resp.reclass cfg.reg cfg.errorCls).id = r.id := by simp [Response.reclass, hrid, hid]
  simp [this]

/-- **Value.**  If the document is served by the library's dispatcher and the registered function
returns `v`, the caller obtains `v`. -/
theorem C07_loopback_value (server : Config) (cfg : ClientCfg) (r : Request) (i : ReqId) (ctx : String) (v : Json)
    (hid : r.id = some i) (hh : (server.handler r.norm ctx).1 = .set ⟨some i, .set v, .unset⟩) :
    callResult cfg r (loopbackReply server r.toJson ctx) = .ok v := by
  have := loopback_single server cfg r i ctx _ hid hh rfl (by simp [Response.WF, MaybeSet.isSet])
  simp [callResult, this, Response.reclass, Response.resultOf]

/-- **Error.**  If the function raises a protocol error `e` (or the library answers with one), the
caller gets an exception with the same code, message and data whose class is the one registered for
the code, else the client's base class. -/
theorem C07_loopback_error (server : Config) (cfg : ClientCfg) (r : Request) (i : ReqId) (ctx : String) (e : RpcError)
    (hid : r.id = some i) (hh : (server.handler r.norm ctx).1 = .set ⟨some i, .unset, .set e⟩) :
    callResult cfg r (loopbackReply server r.toJson ctx) = .raised (.rpc (classOf cfg e)) := by
  have := loopback_single server cfg r i ctx _ hid hh rfl (by simp [Response.WF, MaybeSet.isSet])
  simp [callResult, this, Response.reclass, Response.resultOf, classOf]

/-- **Notifications** return nothing and raise nothing (the server stays silent, D2 included). -/
theorem C07_notification_silent (server : Config) (hwb : server.WellBehaved) (cfg : ClientCfg) (r : Request) (ctx : String)
    (hid : r.id = none) :
    sendSingle cfg r (loopbackReply server r.toJson ctx) = .ok none := by
  have hnot : r.toJson.isArr = false := by simp [Request.toJson, Json.isArr]
  have hd := C02_notification_silent server hwb r.toJson r.norm ctx hnot (C05_Request_roundtrip r) (by simp [Request.norm, hid])
  have hn : r.isNotification = true := by simp [Request.isNotification, hid]
  simp [loopbackReply, hd, sendSingle, hn, WireReply.truthy]

/-- a batch made only of notifications: nothing comes back, nothing is raised -/
theorem C07_notification_batch_silent (server : Config) (hwb : server.WellBehaved) (cfg : ClientCfg)
    (rs : List Request) (b : BatchRequest) (ctx : String) (hne : rs ≠ [])
    (hb : BatchRequest.construct rs = .ok b) (hall : rs.all Request.isNotification = true)
    (hsz : tooLarge server.maxBatchSize rs.length = false) :
    sendBatch cfg rs (loopbackReply server b.toJson ctx) = .ok none := by
  have hrt := C05_BatchRequest_roundtrip rs b hne hb
  have hreqs : b.requests = rs := by
    unfold BatchRequest.construct BatchRequest.extend BatchRequest.empty at hb
    simp only at hb
    split at hb
    · cases hb
    · cases hb; simp
  have hA := server.handler_answers hwb
  have hsilent : keepSet ((rs.map Request.norm).map (fun r => (server.handler r ctx).1)) = [] := by
    clear hrt hb hreqs hsz hne
    induction rs with
    | nil => rfl
    | cons r rs ih =>
      simp only [List.all_cons, Bool.and_eq_true] at hall
      have hnone : r.norm.id = none := by
        have := hall.1; simp only [Request.isNotification, Option.isNone_iff_eq_none] at this
        simp [Request.norm, this]
      simp only [List.map_cons, (hA r.norm ctx).1 hnone, keepSet]
      exact ih hall.2
  have hd : (dispatch server (.ok b.toJson) ctx).1 = .nothing := by
    simp only [dispatch, BatchRequest.toJson, Json.isArr, ↓reduceIte]
    have : BatchRequest.fromJson (.arr (b.requests.map Request.toJson)) = .ok { b with requests := rs.map Request.norm } := hrt
    rw [this]
    simp only [List.length_map, hsz, Bool.false_eq_true, ↓reduceIte, runBatch_eq, hsilent, assembleBatch]
  simp [loopbackReply, hd, sendBatch, hall, WireReply.truthy]

/-! ### the notations are interchangeable -/

/-- `batch.add`, `batch(m, …)` and `batch.proxy.m(…)` are one code path (`__call__` and the proxy call
`add`), as are `call`, `client(m, …)` and `client.proxy.m(…)`: the model has a single function for
each group.  `batch[(m, *params), …]` builds the same document as chained `add` calls with the same
positional arguments: -/
theorem addIds_append (strict : Bool) (ids : List ReqId) (a b : List (Option ReqId)) :
    addIds strict ids (a ++ b) = (match addIds strict ids a with
      | .ok ids' => addIds strict ids' b
      | .raised e => .raised e) := by
  induction a generalizing ids with
  | nil => rfl
  | cons x xs ih =>
    cases x with
    | none => simpa [addIds] using ih ids
    | some i =>
      simp only [List.cons_append, addIds]
      cases strict with
      | false => simpa using ih ids
      | true =>
        simp only [↓reduceIte]
        split
        · rfl
        · exact ih _

theorem extend_append (b : BatchRequest) (xs ys : List Request) :
    b.extend (xs ++ ys) = (match b.extend xs with
      | .ok b' => b'.extend ys
      | .raised e => .raised e) := by
  simp only [BatchRequest.extend, List.map_append, addIds_append]
  cases addIds b.strict b.ids (xs.map (·.id)) with
  | raised e => rfl
  | ok ids => simp [List.append_assoc]

theorem C07_notations_interchangeable (gen : Nat → ReqId) (items : List (String × List Json)) (k : Nat) (b : BatchRequest) :
    buildBatch gen k b (items.map (fun (m, ps) => (⟨m, ps, [], false⟩ : CallSpec)))
      = (match b.extend ((items.zipIdx k).map (fun ((m, ps), j) => (⟨m, (⟨m, ps, [], false⟩ : CallSpec).params, some (gen j)⟩ : Request))) with
         | .ok b' => .ok b'
         | .raised e => .raised e) := by
  induction items generalizing k b with
  | nil =>
    simp only [List.map_nil, buildBatch, List.zipIdx_nil, BatchRequest.extend, addIds, List.append_nil]
  | cons it items ih =>
    obtain ⟨m, ps⟩ := it
    simp only [List.map_cons, List.zipIdx_cons]
    rw [show ∀ (x : Request) (xs : List Request), x :: xs = [x] ++ xs from fun _ _ => rfl, extend_append]
    unfold buildBatch
    simp only [CallSpec.valid, List.isEmpty_nil, Bool.or_true, Bool.not_true, Bool.false_eq_true, ↓reduceIte,
      BatchRequest.append]
    cases b.extend [⟨m, (⟨m, ps, [], false⟩ : CallSpec).params, some (gen k)⟩] with
    | raised e => rfl
    | ok b1 => exact ih (k + 1) b1

/-- … and the positional parameters of `batch[…]` (a list, possibly empty) and of `add` (the tuple, or
the empty dict when there is none) have the same wire form. -/
theorem C07_getitem_same_wire (m : String) (ps : List Json) (id : Option ReqId) :
    (⟨m, .pos ps, id⟩ : Request).toJson = (⟨m, (⟨m, ps, [], false⟩ : CallSpec).params, id⟩ : Request).toJson := by
  cases ps <;> simp [Request.toJson, CallSpec.params, Params.truthy]

end Pjrpc
