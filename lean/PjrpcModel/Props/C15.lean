/-
  C15 — methods are reachable under exactly their registered names, private view members never.

  The declarative side: an *abstract* registry whose entries carry their name as a list of
  segments — the non-empty prefixes of the registries (and view) the method travelled through,
  outermost first, then the explicit name or the function's own name.  `C15_refines` proves, by
  induction over registration histories (a tree: `merge` takes a registry with its own history),
  that pjrpc's string manipulation computes exactly the dot-joined rendering of those segments and
  that replacement / lookup agree.
-/
import PjrpcModel.Registry
import PjrpcModel.Props.C03
namespace Pjrpc

structure AbsEntry where
  segs : List String               -- prefixes (outermost first) ++ [base name]
  target : String
  deriving Repr, DecidableEq

def AbsEntry.render (a : AbsEntry) : RegEntry := ⟨joinDots a.segs, a.target⟩

structure AbsReg where
  pfx : Option String
  entries : List AbsEntry

/-- the registry's own prefix as a list of (zero or one) segments -/
def pfxSegs (p : Option String) : List String := truthyParts [p]

/-- a later registration under an existing (rendered) name replaces the earlier one, in place -/
def absPut (a : AbsEntry) : List AbsEntry → List AbsEntry
  | [] => [a]
  | e :: es => if joinDots e.segs == joinDots a.segs then a :: es else e :: absPut a es

def AbsReg.put (r : AbsReg) (a : AbsEntry) : AbsReg := { r with entries := absPut a r.entries }

def AbsReg.addMethods (r : AbsReg) : List AddItem → AbsReg
  | [] => r
  | .fn f :: rest => (r.put ⟨pfxSegs r.pfx ++ [f], f⟩).addMethods rest
  | .methodObj f n :: rest => (r.put ⟨[n], f⟩).addMethods rest     -- a Method object keeps its own name (finding D24)

/-- The specification: which (segments, target) pairs a history registers. -/
def RegExpr.abs : RegExpr → AbsReg
  | .new p => ⟨p, []⟩
  | .add r f n => r.abs.put ⟨pfxSegs r.abs.pfx ++ [baseName f n], f⟩
  | .addMethods r items => r.abs.addMethods items
  | .view r cls ms vp =>
    (publicCallables ms).foldl (fun a t => a.put ⟨pfxSegs a.pfx ++ pfxSegs vp ++ [t], cls ++ "." ++ t⟩) r.abs
  | .merge r o =>
    o.abs.entries.foldl (fun a e => a.put ⟨pfxSegs a.pfx ++ e.segs, e.target⟩) r.abs

def AbsReg.render (r : AbsReg) : Reg := ⟨r.pfx, r.entries.map AbsEntry.render⟩

/-! ### refinement -/

theorem joinDots_cons (p : String) (segs : List String) (h : segs ≠ []) :
    joinDots (p :: segs) = p ++ "." ++ joinDots segs := by
  cases segs with
  | nil => exact absurd rfl h
  | cons b rest => rfl

theorem absPut_render (a : AbsEntry) (es : List AbsEntry) :
    (absPut a es).map AbsEntry.render = putEntry (joinDots a.segs) a.target (es.map AbsEntry.render) := by
  induction es with
  | nil => rfl
  | cons e es ih =>
    simp only [absPut, List.map_cons, putEntry, AbsEntry.render]
    split <;> simp_all [AbsEntry.render]

theorem AbsReg.put_render (r : AbsReg) (a : AbsEntry) :
    (r.put a).render = r.render.put (joinDots a.segs) a.target := by
  simp [AbsReg.put, AbsReg.render, Reg.put, absPut_render]

theorem put_pfx (r : Reg) (n t : String) : (r.put n t).pfx = r.pfx := rfl
theorem absput_pfx (r : AbsReg) (a : AbsEntry) : (r.put a).pfx = r.pfx := rfl

theorem truthy_two (p : Option String) (b : String) (hb : b ≠ "") :
    truthyParts [p, some b] = pfxSegs p ++ [b] := by
  cases p with
  | none => simp [truthyParts, pfxSegs, hb]
  | some s => by_cases hs : s = "" <;> simp [truthyParts, pfxSegs, hs, hb]

theorem truthy_three (p v : Option String) (b : String) (hb : b ≠ "") :
    truthyParts [p, v, some b] = pfxSegs p ++ pfxSegs v ++ [b] := by
  cases p with
  | none =>
    cases v with
    | none => simp [truthyParts, pfxSegs, hb]
    | some s => by_cases hs : s = "" <;> simp [truthyParts, pfxSegs, hs, hb]
  | some q =>
    cases v with
    | none => by_cases hq : q = "" <;> simp [truthyParts, pfxSegs, hq, hb]
    | some s => by_cases hq : q = "" <;> by_cases hs : s = "" <;> simp [truthyParts, pfxSegs, hq, hs, hb]

/-- function names, explicit names, attribute names are non-empty strings -/
def AddItem.Named : AddItem → Prop
  | .fn f => f ≠ ""
  | .methodObj f n => f ≠ "" ∧ n ≠ ""

def RegExpr.Named : RegExpr → Prop
  | .new _ => True
  | .add r f _ => r.Named ∧ f ≠ ""
  | .addMethods r items => r.Named ∧ ∀ i ∈ items, i.Named
  | .view r _ ms _ => r.Named ∧ ∀ t ∈ publicCallables ms, t ≠ ""
  | .merge r o => r.Named ∧ o.Named

theorem baseName_ne (f : String) (n : Option String) (hf : f ≠ "") : baseName f n ≠ "" := by
  unfold baseName
  cases n with
  | none => exact hf
  | some s => by_cases hs : s = "" <;> simp [hs, hf]

/-- every abstract entry has at least its base segment -/
def AbsReg.SegsNonempty (r : AbsReg) : Prop := ∀ e ∈ r.entries, e.segs ≠ []

theorem absPut_mem (a : AbsEntry) (es : List AbsEntry) (x : AbsEntry) (hx : x ∈ absPut a es) : x = a ∨ x ∈ es := by
  induction es with
  | nil => simp [absPut] at hx; exact Or.inl hx
  | cons e es ih =>
    simp only [absPut] at hx
    split at hx
    · rcases List.mem_cons.mp hx with h | h
      · exact Or.inl h
      · exact Or.inr (List.mem_cons_of_mem _ h)
    · rcases List.mem_cons.mp hx with h | h
      · exact Or.inr (h ▸ List.mem_cons_self)
      · rcases ih h with h' | h'
        · exact Or.inl h'
        · exact Or.inr (List.mem_cons_of_mem _ h')

theorem AbsReg.put_segs (r : AbsReg) (a : AbsEntry) (hr : r.SegsNonempty) (ha : a.segs ≠ []) : (r.put a).SegsNonempty := by
  intro x hx
  rcases absPut_mem a r.entries x hx with rfl | h
  · exact ha
  · exact hr x h

theorem foldl_put_segs {α} (f : AbsReg → α → AbsEntry) (hf : ∀ a x, (f a x).segs ≠ []) (xs : List α) (r : AbsReg)
    (hr : r.SegsNonempty) : (xs.foldl (fun a x => a.put (f a x)) r).SegsNonempty := by
  induction xs generalizing r with
  | nil => exact hr
  | cons x xs ih => exact ih _ (r.put_segs _ hr (hf r x))

theorem addMethods_segs (items : List AddItem) (r : AbsReg) (hr : r.SegsNonempty) : (r.addMethods items).SegsNonempty := by
  induction items generalizing r with
  | nil => exact hr
  | cons i rest ih =>
    cases i with
    | fn f => exact ih _ (r.put_segs _ hr (by simp))
    | methodObj f n => exact ih _ (r.put_segs _ hr (by simp))

theorem RegExpr.abs_segs (e : RegExpr) : e.abs.SegsNonempty := by
  induction e with
  | new p => intro x hx; cases hx
  | add r f n ih => exact r.abs.put_segs _ ih (by simp)
  | addMethods r items ih => exact addMethods_segs items _ ih
  | view r cls ms vp ih => exact foldl_put_segs _ (by intro a x; simp) _ _ ih
  | merge r o ihr iho =>
    simp only [RegExpr.abs]
    have : ∀ (es : List AbsEntry), (∀ e ∈ es, e.segs ≠ []) → ∀ (a : AbsReg), a.SegsNonempty →
        (es.foldl (fun a e => a.put ⟨pfxSegs a.pfx ++ e.segs, e.target⟩) a).SegsNonempty := by
      intro es
      induction es with
      | nil => intro _ a ha; exact ha
      | cons e es ih =>
        intro hes a ha
        apply ih (fun x hx => hes x (List.mem_cons_of_mem _ hx))
        apply a.put_segs _ ha
        have := hes e (by simp)
        simp only [ne_eq, List.append_eq_nil_iff, not_and]
        intro _; exact this
    exact this _ iho _ ihr

theorem foldl_pfx {α} (f : AbsReg → α → AbsEntry) (xs : List α) (r : AbsReg) :
    (xs.foldl (fun a x => a.put (f a x)) r).pfx = r.pfx := by
  induction xs generalizing r with
  | nil => rfl
  | cons x xs ih => simp only [List.foldl_cons]; rw [ih]; rfl

theorem addMethods_render (items : List AddItem) (r : AbsReg) (hn : ∀ i ∈ items, i.Named) :
    (r.addMethods items).render = r.render.addMethods items := by
  induction items generalizing r with
  | nil => rfl
  | cons i rest ih =>
    have hi := hn i (by simp)
    have hrest := fun j hj => hn j (List.mem_cons_of_mem _ hj)
    cases i with
    | fn f =>
      simp only [AbsReg.addMethods, Reg.addMethods]
      rw [ih _ hrest, AbsReg.put_render]
      simp only [Reg.add, baseName]
      rw [truthy_two _ _ hi]; rfl
    | methodObj f n =>
      simp only [AbsReg.addMethods, Reg.addMethods]
      rw [ih _ hrest, AbsReg.put_render]
      rfl

/-- **Refinement.**  For every registration history, pjrpc's registry is exactly the rendering of
the abstract registry: same keys in the same order, same targets.  So the set of callable names is
exactly the dot-joined (non-empty prefixes, outermost first) ++ (explicit or own name). -/
theorem C15_refines (e : RegExpr) (hn : e.Named) : e.eval = e.abs.render := by
  induction e with
  | new p => rfl
  | add r f n ih =>
    simp only [RegExpr.eval, RegExpr.abs, ih hn.1, AbsReg.put_render, Reg.add]
    have : (r.abs.render).pfx = r.abs.pfx := rfl
    rw [this, truthy_two _ _ (baseName_ne f n hn.2)]
  | addMethods r items ih =>
    simp only [RegExpr.eval, RegExpr.abs, ih hn.1]
    exact (addMethods_render items _ hn.2).symm
  | view r cls ms vp ih =>
    simp only [RegExpr.eval, RegExpr.abs, ih hn.1, Reg.view]
    have hts := hn.2
    generalize publicCallables ms = ts at hts
    generalize r.abs = a
    induction ts generalizing a with
    | nil => rfl
    | cons t ts iht =>
      simp only [List.foldl_cons]
      rw [← iht (fun x hx => hts x (List.mem_cons_of_mem _ hx)), AbsReg.put_render]
      have : (a.render).pfx = a.pfx := rfl
      rw [this, truthy_three _ _ _ (hts t (by simp))]
  | merge r o ihr iho =>
    simp only [RegExpr.eval, RegExpr.abs, ihr hn.1, iho hn.2, Reg.merge]
    have hseg := o.abs_segs
    generalize o.abs = oa at hseg
    generalize r.abs = a
    simp only [AbsReg.render]
    unfold AbsReg.SegsNonempty at hseg
    generalize oa.entries = es at hseg
    induction es generalizing a with
    | nil => rfl
    | cons x xs ihx =>
      simp only [List.map_cons, List.foldl_cons]
      have hx := hseg x (by simp)
      have := ihx (a.put ⟨pfxSegs a.pfx ++ x.segs, x.target⟩) (fun y hy => hseg y (List.mem_cons_of_mem _ hy))
      rw [← this]
      congr 1
      have hput := a.put_render ⟨pfxSegs a.pfx ++ x.segs, x.target⟩
      simp only [AbsReg.render] at hput
      rw [hput]
      simp only [AbsEntry.render, Reg.put]
      congr 2
      cases hp : a.pfx with
      | none => simp [pfxSegs, truthyParts]
      | some p =>
        by_cases hpe : p = ""
        · simp [pfxSegs, truthyParts, hpe]
        · simp only [pfxSegs, truthyParts, List.filterMap_cons, List.filterMap_nil, beq_iff_eq, hpe, ↓reduceIte,
            List.singleton_append]
          rw [joinDots_cons p x.segs hx]

/-! ### last registration wins; lookups -/

theorem get_putEntry_same (n t : String) (es : List RegEntry) :
    ((putEntry n t es).find? (fun e => e.name == n)).map (·.target) = some t := by
  induction es with
  | nil => simp [putEntry]
  | cons e es ih =>
    simp only [putEntry]
    split
    · simp
    · rename_i h
      simp only [List.find?_cons, h]
      exact ih

theorem get_putEntry_other (n n' t : String) (es : List RegEntry) (h : n' ≠ n) :
    ((putEntry n t es).find? (fun e => e.name == n')).map (·.target)
      = (es.find? (fun e => e.name == n')).map (·.target) := by
  induction es with
  | nil => simp [putEntry, Ne.symm h]
  | cons e es ih =>
    simp only [putEntry]
    split
    · rename_i he
      have : e.name = n := by simpa using he
      simp [List.find?_cons, this, Ne.symm h]
    · simp only [List.find?_cons]
      split <;> simp_all

/-- A registration makes exactly its own name resolve to it and leaves every other name alone:
"a later registration under an existing name replaces the earlier one". -/
theorem C15_last_registration_wins (r : Reg) (n t n' : String) :
    (r.put n t).get n' = if n' = n then some t else r.get n' := by
  unfold Reg.put Reg.get
  by_cases h : n' = n
  · subst h; simp [get_putEntry_same]
  · simp [h, get_putEntry_other _ _ _ _ h]

/-- keys stay unique (it is a dict) -/
theorem putEntry_keys_nodup (n t : String) (es : List RegEntry) (h : (es.map (·.name)).Nodup) :
    ((putEntry n t es).map (·.name)).Nodup ∧ ∀ k, k ∈ (putEntry n t es).map (·.name) ↔ k = n ∨ k ∈ es.map (·.name) := by
  induction es with
  | nil => simp [putEntry]
  | cons e es ih =>
    have hnd := List.nodup_cons.mp h
    have := ih hnd.2
    simp only [putEntry]
    split
    · rename_i he
      have hen : e.name = n := by simpa using he
      simp only [List.map_cons, List.nodup_cons, List.mem_cons]
      refine ⟨⟨hen ▸ hnd.1, hnd.2⟩, fun k => ?_⟩
      rw [hen]; constructor <;> intro hk <;> rcases hk with hk | hk <;> simp_all
    · rename_i he
      have hen : e.name ≠ n := by simpa using he
      simp only [List.map_cons, List.nodup_cons, List.mem_cons]
      refine ⟨⟨fun hmem => ?_, this.1⟩, fun k => ?_⟩
      · rcases (this.2 _).mp hmem with hk | hk
        · exact hen hk
        · exact hnd.1 hk
      · rw [this.2 k]; constructor <;> intro hk <;> rcases hk with hk | hk | hk <;> simp_all

/-- Any name that was not registered yields -32601 (through the dispatcher's method layer). -/
theorem C15_unregistered_not_found (reg : Registry) (t : HandlerTable) (req : Request) (ctx : String)
    (hm : reg.get req.method = none) (hh : NoHandlers t (-32601)) :
    (handleRequest reg t req ctx).1 = answerError req (methodNotFoundWith (.set freeText)) := by
  rw [C03_method_not_found reg t req ctx hm hh]

/-! ### class-based views expose exactly their public callables -/

/-- a view whose public callables are defined under their own name (no alias of a private function) -/
def CleanView (ms : List ViewMember) : Prop :=
  ∀ m ∈ ms, m.target = none ∨ m.target = some m.attr

theorem publicCallables_clean (ms : List ViewMember) (h : CleanView ms) :
    ∀ t ∈ publicCallables ms, isPrivateName t = false ∧ ∃ m ∈ ms, m.attr = t ∧ m.target = some t := by
  intro t ht
  simp only [publicCallables, List.mem_filterMap] at ht
  obtain ⟨m, hm, hmt⟩ := ht
  split at hmt
  · cases hmt
  · rename_i hpriv
    rcases h m hm with hn | hs
    · rw [hn] at hmt; cases hmt
    · rw [hs] at hmt; cases hmt
      exact ⟨by simpa using hpriv, m, hm, rfl, hs⟩

/-- Private members and non-callables of a clean view are never registered: every entry a `view`
operation adds is a public callable attribute, registered under prefix . view-prefix . attribute. -/
theorem C15_private_never_reachable_partial (r : AbsReg) (cls : String) (ms : List ViewMember) (vp : Option String)
    (hclean : CleanView ms) :
    ∀ e ∈ ((publicCallables ms).foldl (fun a t => a.put ⟨pfxSegs a.pfx ++ pfxSegs vp ++ [t], cls ++ "." ++ t⟩) r).entries,
      e ∈ r.entries ∨ ∃ t, e = ⟨pfxSegs r.pfx ++ pfxSegs vp ++ [t], cls ++ "." ++ t⟩ ∧ isPrivateName t = false
        ∧ ∃ m ∈ ms, m.attr = t ∧ m.target = some t := by
  have hts := publicCallables_clean ms hclean
  generalize publicCallables ms = ts at hts
  induction ts generalizing r with
  | nil => intro e he; exact Or.inl he
  | cons t ts ih =>
    intro e he
    simp only [List.foldl_cons] at he
    rcases ih (r.put _) (fun x hx => hts x (List.mem_cons_of_mem _ hx)) e he with h | ⟨t', h1, h2⟩
    · rcases absPut_mem _ _ _ h with rfl | h'
      · exact Or.inr ⟨t, rfl, hts t (by simp)⟩
      · exact Or.inl h'
    · exact Or.inr ⟨t', h1, h2⟩

/-- The alias witness of defect D21 (recorded): `pub = _priv` in a view registers the private name. -/
theorem C15_alias_counterexample :
    ((RegExpr.view (.new none) "V" [⟨"_priv", some "_priv"⟩, ⟨"pub", some "_priv"⟩] none).eval.entries.map (·.name))
      = ["_priv"] := by decide

/-- The Method-object witness of finding D24 (recorded): a `Method` added to a prefixed registry is
registered without the prefix. -/
theorem C15_method_object_counterexample :
    ((RegExpr.addMethods (.new (some "a")) [.methodObj "f1" "m1", .fn "f2"]).eval.entries.map (·.name))
      = ["m1", "a.f2"] := by decide

/-! ### Non-vacuity -/

example : (RegExpr.merge (.new (some "a")) (.merge (.new (some "b")) (.add (.new none) "f" (some "g")))).eval.entries
    = [⟨"a.b.g", "f"⟩] := by decide

end Pjrpc
