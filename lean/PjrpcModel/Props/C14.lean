/-
  C14 — parameter validators admit exactly the conforming calls.
  The validator's verdict on the bound arguments (`post`: reject, or the arguments to hand over —
  unchanged, or converted when coercion is on) is a parameter: the theorems hold for every verdict
  function; jsonschema / pydantic semantics are oracles supplied by the harness per case.
-/
import PjrpcModel.Props.C04
import PjrpcModel.Props.C03
namespace Pjrpc
open Json

/-- The body runs iff the arguments bind to the signature (without the excluded parameters), the
bound arguments satisfy the validator, and the resulting call goes through; it then runs exactly
once with what the validator handed over (plus the context). -/
theorem C14_executed_iff (reg : Registry) (name : String) (m : MethodDef) (params : Params)
    (hreg : reg.get name = some m) (hv : (m.view && m.initRaises) = false) :
    (handleRpcMethod reg name params).2 =
      (match sigBind (reduceSig m.sig m.exclusions) params with
       | .raised _ => []
       | .ok bound =>
         match m.post bound with
         | none => []
         | some args =>
           match callKw m.sig (m.attachCtx args).1 (m.attachCtx args).2 with
           | .raised _ => []
           | .ok recv => [.exec m.name (.obj (recv ++ m.viewCtx))]) := by
  simp only [handleRpcMethod, hreg, hv, Bool.false_eq_true, ↓reduceIte, MethodDef.bind]
  cases hb : sigBind (reduceSig m.sig m.exclusions) params with
  | raised e => rfl
  | ok bound =>
    simp only
    cases hp : m.post bound with
    | none => rfl
    | some args =>
      simp only
      cases hc : callKw m.sig (m.attachCtx args).1 (m.attachCtx args).2 with
      | raised e => rfl
      | ok recv => simp [runBody]

/-- Otherwise — the arguments do not bind, or do not validate — the caller gets -32602 whose data is
a JSON array (the encoded description) and the body does not run. -/
theorem C14_reject_is_32602_not_executed (reg : Registry) (name : String) (m : MethodDef) (params : Params)
    (hreg : reg.get name = some m) (hv : (m.view && m.initRaises) = false)
    (h : (∃ e, sigBind (reduceSig m.sig m.exclusions) params = .raised e)
      ∨ ∃ bound, sigBind (reduceSig m.sig m.exclusions) params = .ok bound ∧ m.post bound = none) :
    handleRpcMethod reg name params = (.rpcError (invalidParamsWith (.set (.arr [freeText]))), []) := by
  simp only [handleRpcMethod, hreg, hv, Bool.false_eq_true, ↓reduceIte, MethodDef.bind]
  rcases h with ⟨e, he⟩ | ⟨bound, hb, hp⟩
  · rw [he]
  · rw [hb]; simp only [hp]

/-- Accepted arguments reach the method unchanged when the validator hands the bound arguments over
as they are (schema validator, or coercion off)… -/
theorem C14_arguments_unchanged (m : MethodDef) (params : Params) (bound : KwArgs)
    (hb : sigBind (reduceSig m.sig m.exclusions) params = .ok bound) (hp : m.post bound = some bound) :
    m.bind params = .ok (m.attachCtx bound) := by
  simp [MethodDef.bind, hb, hp]

/-- … or converted to the annotated types when coercion is on: exactly the validator's values. -/
theorem C14_arguments_coerced (m : MethodDef) (params : Params) (bound converted : KwArgs)
    (hb : sigBind (reduceSig m.sig m.exclusions) params = .ok bound) (hp : m.post bound = some converted) :
    m.bind params = .ok (m.attachCtx converted) := by
  simp [MethodDef.bind, hb, hp]

/-- Excluded parameters — the context parameter and those selected by the exclusion predicate — are
not part of what is validated: they do not occur among the bound arguments the validator sees. -/
theorem C14_excluded_not_validated (m : MethodDef) (hs : m.sig.Simple) (params : Params) (hp : params.KeysNodup)
    (bound : KwArgs) (hb : sigBind (reduceSig m.sig m.exclusions) params = .ok bound) (x : String) (hx : x ∈ m.exclusions) :
    x ∉ kwKeys bound := by
  have hsR : (reduceSig m.sig m.exclusions).Simple := hs.filter _
  rcases bind_vs_direct _ hsR params hp with ⟨hr, _⟩ | ⟨b, hb', _, _, hin, _⟩
  · rw [hr] at hb; cases hb
  · rw [hb'] at hb; cases hb
    intro hmem
    have := hin x hmem
    obtain ⟨p, hp', hn⟩ := List.mem_map.mp this
    have := (List.mem_filter.mp hp').2
    simp only [Bool.not_eq_true', List.contains_eq_mem, decide_eq_false_iff_not] at this
    exact this (hn ▸ hx)

/-- … and they are not settable by the client: a named mapping that contains an excluded name is
refused (signatures without `**kwargs`). -/
theorem C14_excluded_not_settable (m : MethodDef) (hs : m.sig.Simple) (kw : KwArgs) (hnd : (kwKeys kw).Nodup)
    (x : String) (hx : x ∈ m.exclusions) (hk : x ∈ kwKeys kw) :
    sigBind (reduceSig m.sig m.exclusions) (.named kw) = .raised .type_ := by
  have hsR : (reduceSig m.sig m.exclusions).Simple := hs.filter _
  simp only [sigBind]
  rw [bindKw_simple _ hsR kw hnd]
  have : acceptKw (reduceSig m.sig m.exclusions) kw = false := by
    simp only [acceptKw, Bool.and_eq_false_iff]
    right
    rw [Bool.eq_false_iff]
    intro hall
    simp only [List.all_eq_true, List.contains_eq_mem, decide_eq_true_eq] at hall
    obtain ⟨kv, hkv, rfl⟩ := List.mem_map.mp hk
    have := hall kv hkv
    obtain ⟨p, hp', hn⟩ := List.mem_map.mp this
    have := (List.mem_filter.mp hp').2
    simp only [Bool.not_eq_true', List.contains_eq_mem, decide_eq_false_iff_not] at this
    exact this (hn ▸ hx)
  simp [this]

/-- a pydantic / jsonschema failure is *not* an internal error: through the outer handler the reply
is `-32602 Invalid params` (nothing for a notification) -/
theorem C14_reject_reply (reg : Registry) (t : HandlerTable) (req : Request) (ctx : String) (m : MethodDef)
    (hreg : reg.get req.method = some m) (hv : (m.view && m.initRaises) = false)
    (bound : KwArgs) (hb : sigBind (reduceSig m.sig m.exclusions) req.params = .ok bound) (hp : m.post bound = none)
    (hh : NoHandlers t (-32602)) :
    handleRequest reg t req ctx = (answerError req (invalidParamsWith (.set (.arr [freeText]))), []) := by
  apply handleRequest_of_error _ _ _ _ _ _ _ hh
  exact C14_reject_is_32602_not_executed reg req.method m req.params hreg hv (Or.inr ⟨bound, hb, hp⟩)

example : ∃ e, sigBind (reduceSig [⟨"a", .posOrKw, false⟩, ⟨"dep", .kwOnly, true⟩] ["dep"]) (.named [("a", .int 1), ("dep", .int 2)])
    = .raised e := ⟨_, rfl⟩

end Pjrpc
