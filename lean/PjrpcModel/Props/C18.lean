/-
  C18 — HTTP integrations relay the dispatcher's verdict unchanged.
-/
import PjrpcModel.Http
import PjrpcModel.Props.C01
namespace Pjrpc

/-- Every documented JSON-RPC request content type passes the gate of every integration (the parsed
media type is what the framework yields: case-folded, parameters such as charset stripped). -/
theorem C18_gate_accepts_documented (mime : String) (h : mime ∈ Defaults.requestContentTypes) :
    gateAccepts mime = true := by
  simp [gateAccepts, h]

/-- Any other media type is refused with 415 by every integration and the dispatcher is not called:
no method, middleware or handler runs. -/
theorem C18_gate_refuses_others (i : Integration) (cfg : Config) (sbe : List Int → Int) (mime : String)
    (body : BodyText) (ctx : String) (h : mime ∉ Defaults.requestContentTypes) :
    rpcHandle i cfg sbe mime body ctx = (⟨415, none, none⟩, []) := by
  have : gateAccepts mime = false := by simpa [gateAccepts] using h
  simp [rpcHandle, this]

/-- An accepted request is answered with exactly the dispatcher's document, the JSON content type and
the status chosen by the status-by-error function; 200 with an empty body when the dispatcher
returns nothing. -/
theorem C18_relay_exact (i : Integration) (cfg : Config) (sbe : List Int → Int) (mime : String) (lr : LoadResult)
    (ctx : String) (h : mime ∈ Defaults.requestContentTypes) :
    rpcHandle i cfg sbe mime (.text lr) ctx =
      (match (dispatch cfg lr ctx).1 with
       | .nothing => ⟨200, none, none⟩
       | .reply doc codes => ⟨statusOf i sbe codes, some Defaults.defaultContentType, some doc⟩
       | .raised _ => ⟨500, none, none⟩, (dispatch cfg lr ctx).2) := by
  have hg := C18_gate_accepts_documented mime h
  simp only [rpcHandle, hg, Bool.not_true, Bool.false_eq_true, ↓reduceIte]
  cases (dispatch cfg lr ctx).1 <;> rfl

/-- with well-behaved middlewares the 500 branch is unreachable (C01): an accepted request is either
answered 200 with an empty body (the dispatcher returned nothing) or with the dispatcher's document -/
theorem C18_relay_total (i : Integration) (cfg : Config) (hwb : cfg.WellBehaved) (sbe : List Int → Int) (mime : String)
    (lr : LoadResult) (hlr : lr ≠ .recursionError) (ctx : String) (h : mime ∈ Defaults.requestContentTypes) :
    ((dispatch cfg lr ctx).1 = .nothing ∧ (rpcHandle i cfg sbe mime (.text lr) ctx).1 = ⟨200, none, none⟩)
    ∨ ∃ doc codes, (dispatch cfg lr ctx).1 = .reply doc codes
        ∧ (rpcHandle i cfg sbe mime (.text lr) ctx).1 = ⟨statusOf i sbe codes, some Defaults.defaultContentType, some doc⟩ := by
  rw [C18_relay_exact i cfg sbe mime lr ctx h]
  rcases C01_total_wellformed cfg hwb lr hlr ctx with h1 | ⟨doc, codes, h1, _, _⟩
  · left; simp [h1]
  · right; exact ⟨doc, codes, h1, by simp [h1]⟩

/-- The same request gets equivalent replies from every integration — identical for the default
status function (the werkzeug integration has no status option). -/
theorem C18_integrations_equivalent (i j : Integration) (cfg : Config) (mime : String) (lr : LoadResult) (ctx : String) :
    rpcHandle i cfg (fun _ => Defaults.httpDefaultStatus) mime (.text lr) ctx
      = rpcHandle j cfg (fun _ => Defaults.httpDefaultStatus) mime (.text lr) ctx := by
  simp only [rpcHandle]
  split
  · rfl
  · cases (dispatch cfg lr ctx).1 <;> cases i <;> cases j <;> rfl

/-- aiohttp and flask apply the same configured status function -/
theorem C18_status_function_applied (cfg : Config) (sbe : List Int → Int) (mime : String) (lr : LoadResult) (ctx : String) :
    rpcHandle .aiohttp cfg sbe mime (.text lr) ctx = rpcHandle .flask cfg sbe mime (.text lr) ctx := by
  simp only [rpcHandle]
  split
  · rfl
  · cases (dispatch cfg lr ctx).1 <;> rfl

/-- a body that is not valid UTF-8 is answered 400 by every integration; nothing runs -/
theorem C18_undecodable_body (i : Integration) (cfg : Config) (sbe : List Int → Int) (mime : String) (ctx : String)
    (h : mime ∈ Defaults.requestContentTypes) :
    rpcHandle i cfg sbe mime .undecodable ctx = (⟨400, none, none⟩, []) := by
  simp [rpcHandle, C18_gate_accepts_documented mime h]

example : gateAccepts "application/json-rpc" = true ∧ gateAccepts "application/jsonx" = false
    ∧ gateAccepts "application/vnd.x+json" = false ∧ gateAccepts "" = false := by decide

end Pjrpc
