/-
  Ties between the constants the translator reads from pjrpc's source on every run
  (Generated/Constants.lean) and the constants the model uses.  All by `decide` / `rfl`.
-/
import PjrpcModel.Generated.Constants
import PjrpcModel.Defaults
namespace Pjrpc
open Generated

/-- The library's error classes: names, codes, messages, in definition order. -/
theorem tie_errorClasses :
    errorClasses.map (fun (n, c, m, _) => (⟨n, c, m⟩ : ErrClass)) = builtinClasses := by decide

/-- The class hierarchy the typed `except` clauses rely on (ClientError for the four client-side
errors, JsonRpcError for the rest). -/
theorem tie_errorBases :
    errorClasses.map (fun (n, _, _, b) => (n, b)) =
      [("JsonRpcError", "BaseError"), ("ClientError", "JsonRpcError"), ("ParseError", "ClientError"),
       ("InvalidRequestError", "ClientError"), ("MethodNotFoundError", "ClientError"),
       ("InvalidParamsError", "ClientError"), ("InternalError", "JsonRpcError"),
       ("ServerError", "JsonRpcError")] := by decide

theorem tie_versions :
    [version_Request, version_Response, version_BatchRequest, version_BatchResponse]
      = List.replicate 4 (.str Defaults.version) := by decide

theorem tie_contentTypes :
    DEFAULT_CONTENT_TYPE = .str Defaults.defaultContentType
    ∧ REQUEST_CONTENT_TYPES = .strs Defaults.requestContentTypes
    ∧ RESPONSE_CONTENT_TYPES = .strs Defaults.responseContentTypes
    ∧ JSONRPC_MEDIATYPE = .str Defaults.defaultContentType := by decide

theorem tie_httpDefaultStatus : HTTP_DEFAULT_STATUS = .int Defaults.httpDefaultStatus := by decide

theorem tie_strictDefaults :
    client_strict = .bool Defaults.clientStrict ∧ BatchRequest_strict = .bool Defaults.batchStrict
    ∧ BatchResponse_strict = .bool Defaults.batchStrict := by decide

theorem tie_clientDefaults :
    client_id_gen_impl = .str "expr:generators.sequential" ∧ client_retry_strategy = .none
    ∧ client_error_cls = .str "expr:exceptions.JsonRpcError"
    ∧ sequential_start = .int Defaults.sequentialStart ∧ sequential_step = .int Defaults.sequentialStep := by decide

theorem tie_dispatcherDefaults :
    dispatcher_max_batch_size = .none ∧ async_dispatcher_max_batch_size = .none
    ∧ async_dispatcher_concurrent_batch = .bool Defaults.concurrentBatch
    ∧ method_positional = .bool Defaults.methodPositional := by decide

theorem tie_backoffDefaults :
    PeriodicBackoff_interval = .float "1.0" ∧ ExponentialBackoff_base = .float "1.0"
    ∧ ExponentialBackoff_factor = .float "2.0" ∧ ExponentialBackoff_max_value = .none
    ∧ FibonacciBackoff_multiplier = .float "1.0" ∧ FibonacciBackoff_max_value = .float "1.0"
    ∧ RetryStrategy_codes = .none ∧ RetryStrategy_exceptions = .none := by decide

theorem tie_mockerDefaults :
    mocker_passthrough = .bool Defaults.mockerPassthrough ∧ mocker_add_once = .bool Defaults.mockerOnce
    ∧ mocker_add_version = .str Defaults.version := by decide

theorem tie_pydanticCoerce : pydantic_coerce = .bool Defaults.pydanticCoerce := by decide

end Pjrpc
