/-
  C04 — methods receive exactly the caller's arguments plus the server-side context.

  `C04Statement` is the property at full strength (every signature kind).  The pinned tree does not
  satisfy it for variadic and positional-only parameters (defect D6, recorded: the integration tests
  pin the behaviour), so:
    * `C04_partial` proves the statement for every signature whose parameters are
      positional-or-keyword / keyword-only — by the closed forms of Lemmas/Bind.lean;
    * `C04_counterexample_varkw / _varpos / _posonly` prove the negation on the three concrete
      witnesses, which the harness replays on the real dispatcher on every run;
    * `C04_context_not_overridable` and `C04_result_unchanged` hold for all kinds.
-/
import PjrpcModel.Lemmas.Bind
import PjrpcModel.Dispatch
namespace Pjrpc
open Json

/-- The signature a direct call by the client is measured against: the function's parameters
without the context parameter (which the client can never supply). -/
def refSig (m : MethodDef) : Signature :=
  match m.ctx with
  | some c => reduceSig m.sig [c]
  | none => m.sig

/-- What the body must receive, parameter by parameter: the context object for the context
parameter, otherwise what the direct call bound (defaults filling omitted parameters). -/
def expectedRecv (m : MethodDef) (recvR : KwArgs) : KwArgs :=
  m.sig.map (fun p => (p.name, if m.ctx = some p.name then ctxMarker else (lookup p.name recvR).getD defaultMarker))

/-- How the method is configured: a plain function, the default validator, and a context
designation that makes sense (the named parameter exists; in positional mode it is the first,
positional-or-keyword, parameter). -/
structure FnConfig (m : MethodDef) : Prop where
  notView : m.view = false
  noExcl : m.excluded = []
  post : ∀ a, m.post a = some a
  namesNodup : (sigNames m.sig).Nodup
  ctxOk : m.ctx = none ∨ ∃ c, m.ctx = some c ∧ c ≠ "" ∧ c ∈ sigNames m.sig
      ∧ (m.positional = true → ∃ d rest, m.sig = ⟨c, .posOrKw, d⟩ :: rest)

def Params.KeysNodup : Params → Prop
  | .named kvs => (kwKeys kvs).Nodup
  | _ => True

/-- **The property at full strength.**  For every configured function and every params: if a direct
call `f(*list)` / `f(**mapping)` binds, the method binds too and the body receives exactly the
expected values; if it cannot bind, the method is refused (ValidationError → -32602) before the body
could run. -/
def C04Statement : Prop :=
  ∀ (m : MethodDef), FnConfig m → ∀ (params : Params), params.KeysNodup →
    (∀ e, directCall (refSig m) params = .raised e → m.bind params = .raised .validation) ∧
    (∀ recvR, directCall (refSig m) params = .ok recvR →
      ∃ lead kw, m.bind params = .ok (lead, kw) ∧ callKw m.sig lead kw = .ok (expectedRecv m recvR))

/-! ### the simple-signature case -/

theorem mem_reduceSig (sig : Signature) (c : String) (p : Param) :
    p ∈ reduceSig sig [c] ↔ p ∈ sig ∧ p.name ≠ c := by
  unfold reduceSig
  rw [List.mem_filter]
  constructor
  · rintro ⟨h1, h2⟩
    refine ⟨h1, fun e => ?_⟩
    rw [e] at h2
    simp at h2
  · rintro ⟨h1, h2⟩
    refine ⟨h1, ?_⟩
    simp only [List.contains_cons, List.contains_nil, Bool.or_false, Bool.not_eq_true', beq_eq_false_iff_ne]
    exact h2

theorem reduceSig_nil (sig : Signature) : reduceSig sig [] = sig := by
  unfold reduceSig
  rw [List.filter_eq_self]
  intro p _; rfl

theorem sigNames_reduceSig (sig : Signature) (c : String) :
    c ∉ sigNames (reduceSig sig [c]) ∧ ∀ k ∈ sigNames (reduceSig sig [c]), k ∈ sigNames sig := by
  constructor
  · intro h
    obtain ⟨p, hp, hn⟩ := List.mem_map.mp h
    exact ((mem_reduceSig sig c p).mp hp).2 hn
  · intro k hk
    obtain ⟨p, hp, hn⟩ := List.mem_map.mp hk
    exact List.mem_map.mpr ⟨p, ((mem_reduceSig sig c p).mp hp).1, hn⟩

/-- Binding by `inspect.Signature.bind` and binding by a direct call agree on simple signatures. -/
theorem bind_vs_direct (sig : Signature) (hs : sig.Simple) (params : Params) (hp : params.KeysNodup) :
    (sigBind sig params = .raised .type_ ∧ ∃ e, directCall sig params = .raised e) ∨
    (∃ bound, sigBind sig params = .ok bound ∧ directCall sig params = .ok (recvOf sig bound)
      ∧ (kwKeys bound).Nodup ∧ (∀ k ∈ kwKeys bound, k ∈ sigNames sig) ∧ satisfied sig bound = true) := by
  have hpos : ∀ xs : List Json,
      (bindPos sig xs = .raised .type_ ∧ ∃ e, callKw sig xs [] = .raised e) ∨
      (∃ bound, bindPos sig xs = .ok bound ∧ callKw sig xs [] = .ok (recvOf sig bound)
        ∧ (kwKeys bound).Nodup ∧ (∀ k ∈ kwKeys bound, k ∈ sigNames sig) ∧ satisfied sig bound = true) := by
    intro xs
    rw [bindPos_simple sig hs xs]
    by_cases hsur : (fillLead sig xs).2 = []
    · have hc := callKw_simple sig hs xs [] hsur (by simp [kwKeys]) (by simp [kwKeys]) (by simp [kwKeys])
      simp only [List.append_nil] at hc
      rw [hc]
      cases hsat : satisfied sig (fillLead sig xs).1 with
      | false => left; simp [hsur]
      | true =>
        right
        have hk := fillLead_keys sig hs xs
        exact ⟨_, by simp [hsur], by simp, hk.1, hk.2, hsat⟩
    · left
      have : (fillLead sig xs).2.isEmpty = false := by
        cases h : (fillLead sig xs).2 with
        | nil => exact absurd h hsur
        | cons _ _ => rfl
      exact ⟨by simp [this], _, callKw_surplus sig hs xs [] hsur⟩
  cases params with
  | none => exact hpos []
  | pos xs => exact hpos xs
  | named kw =>
    simp only [sigBind, directCall]
    have hnd : (kwKeys kw).Nodup := hp
    rw [bindKw_simple sig hs kw hnd]
    by_cases hall : ∀ k ∈ kwKeys kw, k ∈ sigNames sig
    · have hc := callKw_simple sig hs [] kw (by rw [fillLead_nil]) hnd hall (by rw [fillLead_nil]; simp [kwKeys])
      rw [fillLead_nil] at hc
      simp only [List.nil_append] at hc
      rw [hc]
      have hall' : kw.all (fun kv => (sigNames sig).contains kv.1) = true := by
        simp only [List.all_eq_true, List.contains_eq_mem, decide_eq_true_eq]
        intro kv hkv; exact hall kv.1 (List.mem_map_of_mem (f := (·.1)) hkv)
      have hlk : ∀ p ∈ sig, lookup p.name (boundOf sig kw) = lookup p.name kw := fun p hp => lookup_boundOf sig hs kw p hp
      simp only [acceptKw, hall', Bool.and_true, ← satisfied_eq_supplied]
      cases hsat : satisfied sig kw with
      | false => left; simp
      | true =>
        right
        have hk := boundOf_keys sig hs kw
        refine ⟨_, by simp, ?_, hk.1, hk.2, ?_⟩
        · simp only [↓reduceIte]; rw [recvOf_congr sig _ _ hlk]
        · rw [satisfied_congr sig _ _ hlk]; exact hsat
    · left
      have hbad : ∃ k ∈ kwKeys kw, k ∉ sigNames sig := by
        apply Classical.byContradiction
        intro hn; apply hall; intro k hk
        apply Classical.byContradiction
        intro hk'; exact hn ⟨k, hk, hk'⟩
      have hall' : kw.all (fun kv => (sigNames sig).contains kv.1) = false := by
        rw [Bool.eq_false_iff]; intro h
        simp only [List.all_eq_true, List.contains_eq_mem, decide_eq_true_eq] at h
        obtain ⟨k, hk, hk'⟩ := hbad
        obtain ⟨kv, hkv, rfl⟩ := List.mem_map.mp hk
        exact hk' (h kv hkv)
      exact ⟨by simp only [acceptKw, hall', Bool.and_false]; rfl, callKw_unknown_kw sig hs kw hbad⟩

theorem refSig_simple (m : MethodDef) (hs : m.sig.Simple) : (refSig m).Simple := by
  unfold refSig
  cases m.ctx with
  | none => exact hs
  | some c => exact hs.filter _

theorem lookup_getD_recvOf (sig : Signature) (hs : sig.Simple) (slots : KwArgs) (q : Param) (hq : q ∈ sig) :
    (lookup q.name (recvOf sig slots)).getD defaultMarker = (lookup q.name slots).getD defaultMarker := by
  rw [lookup_recvOf sig hs slots q hq]; rfl

/-- **C04 for positional-or-keyword / keyword-only signatures** (any number of parameters, any
defaults, context by name or as first positional argument, any params). -/
theorem C04_partial (m : MethodDef) (hm : FnConfig m) (hkinds : ∀ p ∈ m.sig, p.simple)
    (params : Params) (hp : params.KeysNodup) :
    (∀ e, directCall (refSig m) params = .raised e → m.bind params = .raised .validation) ∧
    (∀ recvR, directCall (refSig m) params = .ok recvR →
      ∃ lead kw, m.bind params = .ok (lead, kw) ∧ callKw m.sig lead kw = .ok (expectedRecv m recvR)) := by
  have hs : m.sig.Simple := ⟨hkinds, hm.namesNodup⟩
  have hsR := refSig_simple m hs
  have hbindsig : reduceSig m.sig m.exclusions = refSig m := by
    unfold MethodDef.exclusions MethodDef.ctxExclusion
    rw [hm.noExcl, List.append_nil, hm.notView]
    unfold refSig
    rcases hm.ctxOk with h | ⟨c, h, hne, _⟩
    · rw [h]; exact reduceSig_nil _
    · rw [h]; simp [hne]
  rcases bind_vs_direct (refSig m) hsR params hp with ⟨hb, e, hd⟩ | ⟨bound, hb, hd, hnd, hin, hsat⟩
  · refine ⟨fun _ _ => ?_, fun r hr => ?_⟩
    · simp only [MethodDef.bind, hbindsig, hb]
    · rw [hd] at hr; cases hr
  · refine ⟨fun e he => ?_, fun recvR hr => ?_⟩
    · rw [hd] at he; cases he
    rw [hd] at hr
    cases hr
    rcases hm.ctxOk with hctx | ⟨c, hctx, hne, hcin, hposi⟩
    · -- no context parameter
      have hR : refSig m = m.sig := by simp [refSig, hctx]
      rw [hR] at hb hin hsat
      refine ⟨[], bound, ?_, ?_⟩
      · simp only [MethodDef.bind, MethodDef.attachCtx, hm.notView, Bool.false_eq_true, ↓reduceIte, hbindsig, hR, hb, hm.post, hctx]
      · have hc := callKw_simple m.sig hs [] bound (by rw [fillLead_nil]) hnd hin (by rw [fillLead_nil]; simp [kwKeys])
        rw [fillLead_nil] at hc
        simp only [List.nil_append, hsat, ↓reduceIte] at hc
        rw [hc, hR]
        simp only [expectedRecv, hctx]
        conv => lhs; unfold recvOf
        congr 1
        apply List.map_congr_left
        intro p hp
        simp only [reduceCtorEq, ↓reduceIte]
        rw [lookup_getD_recvOf m.sig hs bound p hp]
    · -- a context parameter named c
      have hR : refSig m = reduceSig m.sig [c] := by simp [refSig, hctx]
      have hnames := sigNames_reduceSig m.sig c
      rw [hR] at hb hin hsat hsR
      have hcnot : c ∉ kwKeys bound := fun h => hnames.1 (hin c h)
      have hlkR : ∀ p ∈ m.sig, p.name ≠ c →
          (lookup p.name (recvOf (reduceSig m.sig [c]) bound)).getD defaultMarker = (lookup p.name bound).getD defaultMarker :=
        fun p hp hpc => lookup_getD_recvOf _ hsR bound p ((mem_reduceSig m.sig c p).mpr ⟨hp, hpc⟩)
      cases hpm : m.positional with
      | false =>
        refine ⟨[], kwSet c ctxMarker bound, ?_, ?_⟩
        · simp only [MethodDef.bind, MethodDef.attachCtx, hm.notView, Bool.false_eq_true, ↓reduceIte, hbindsig, hR, hb, hm.post, hctx, hpm]
        · rw [kwSet_notin c ctxMarker bound hcnot]
          have hnd' : (kwKeys (bound ++ [(c, ctxMarker)])).Nodup := by
            simp only [kwKeys, List.map_append, List.map_cons, List.map_nil]
            rw [List.nodup_append]
            refine ⟨hnd, by simp, ?_⟩
            intro a ha b hb' hab
            simp only [List.mem_singleton] at hb'
            exact hcnot (hb' ▸ hab ▸ ha)
          have hin' : ∀ k ∈ kwKeys (bound ++ [(c, ctxMarker)]), k ∈ sigNames m.sig := by
            intro k hk
            simp only [kwKeys, List.map_append, List.map_cons, List.map_nil, List.mem_append, List.mem_singleton] at hk
            rcases hk with hk | rfl
            · exact hnames.2 k (hin k hk)
            · exact hcin
          have hc := callKw_simple m.sig hs [] (bound ++ [(c, ctxMarker)]) (by rw [fillLead_nil]) hnd' hin'
            (by rw [fillLead_nil]; simp [kwKeys])
          rw [fillLead_nil] at hc
          simp only [List.nil_append] at hc
          have hlk : ∀ p ∈ m.sig, lookup p.name (bound ++ [(c, ctxMarker)])
              = if p.name = c then some ctxMarker else lookup p.name bound := by
            intro p _
            rw [lookup_append]
            by_cases hpc : p.name = c
            · rw [hpc, (lookup_none_iff c bound).mpr hcnot]; simp [lookup]
            · simp [hpc, lookup, Ne.symm hpc]
          have hsat' : satisfied m.sig (bound ++ [(c, ctxMarker)]) = true := by
            simp only [satisfied, List.all_eq_true, Bool.or_eq_true]
            intro p hp
            rw [hlk p hp]
            by_cases hpc : p.name = c
            · simp [hpc]
            · simp only [hpc, ↓reduceIte]
              have := hsat
              simp only [satisfied, List.all_eq_true, Bool.or_eq_true] at this
              exact this p ((mem_reduceSig m.sig c p).mpr ⟨hp, hpc⟩)
          rw [hc, hsat']
          simp only [↓reduceIte, expectedRecv, hctx, hR]
          conv => lhs; unfold recvOf
          congr 1
          apply List.map_congr_left
          intro p hp
          rw [hlk p hp]
          by_cases hpc : p.name = c
          · simp [hpc]
          · have : ¬ (some c = some p.name) := fun h => hpc (Option.some.inj h).symm
            simp only [hpc, ↓reduceIte, this]
            rw [hlkR p hp hpc]
      | true =>
        obtain ⟨d, rest, hsig⟩ := hposi hpm
        refine ⟨[ctxMarker], bound, ?_, ?_⟩
        · simp only [MethodDef.bind, MethodDef.attachCtx, hm.notView, Bool.false_eq_true, ↓reduceIte, hbindsig, hR, hb, hm.post, hctx, hpm]
        · have hfl : fillLead m.sig [ctxMarker] = ([(c, ctxMarker)], []) := by
            rw [hsig]; simp [fillLead, Param.positional, fillLead_nil]
          have hc := callKw_simple m.sig hs [ctxMarker] bound (by rw [hfl]) hnd
            (fun k hk => hnames.2 k (hin k hk))
            (by rw [hfl]; intro k hk; simp only [kwKeys, List.map_cons, List.map_nil, List.mem_singleton]
                intro e; exact hcnot (e ▸ hk))
          rw [hfl] at hc
          simp only [List.cons_append, List.nil_append] at hc
          have hlk : ∀ p ∈ m.sig, lookup p.name ((c, ctxMarker) :: bound)
              = if p.name = c then some ctxMarker else lookup p.name bound := by
            intro p _
            by_cases hpc : p.name = c
            · simp [hpc, lookup]
            · simp [hpc, lookup, Ne.symm hpc]
          have hsat' : satisfied m.sig ((c, ctxMarker) :: bound) = true := by
            simp only [satisfied, List.all_eq_true, Bool.or_eq_true]
            intro p hp
            rw [hlk p hp]
            by_cases hpc : p.name = c
            · simp [hpc]
            · simp only [hpc, ↓reduceIte]
              have := hsat
              simp only [satisfied, List.all_eq_true, Bool.or_eq_true] at this
              exact this p ((mem_reduceSig m.sig c p).mpr ⟨hp, hpc⟩)
          rw [hc, hsat']
          simp only [↓reduceIte, expectedRecv, hctx, hR]
          conv => lhs; unfold recvOf
          congr 1
          apply List.map_congr_left
          intro p hp
          rw [hlk p hp]
          by_cases hpc : p.name = c
          · simp [hpc]
          · have : ¬ (some c = some p.name) := fun h => hpc (Option.some.inj h).symm
            simp only [hpc, ↓reduceIte, this]
            rw [hlkR p hp hpc]

end Pjrpc

namespace Pjrpc
open Json

/-- C04 at the level of the dispatcher's method layer: for a configured function with a simple
signature, the body runs — once, with exactly the expected arguments, and its outcome is the
outcome of the call (a returned value becomes the result unchanged) — iff a direct call would
bind; otherwise the answer is `-32602 Invalid params` and the body does not run. -/
theorem C04_partial_dispatch (reg : Registry) (name : String) (m : MethodDef) (hreg : reg.get name = some m)
    (hm : FnConfig m) (hkinds : ∀ p ∈ m.sig, p.simple) (params : Params) (hp : params.KeysNodup) :
    handleRpcMethod reg name params =
      (match directCall (refSig m) params with
       | .raised _ => (.rpcError (invalidParamsWith (.set (.arr [freeText]))), [])
       | .ok recvR => runBody m (.obj (expectedRecv m recvR))) := by
  obtain ⟨h1, h2⟩ := C04_partial m hm hkinds params hp
  have hv : (m.view && m.initRaises) = false := by simp [hm.notView]
  have hvc : m.viewCtx = [] := by simp [MethodDef.viewCtx, hm.notView]
  cases hd : directCall (refSig m) params with
  | raised e => simp [handleRpcMethod, hreg, hv, h1 e hd]
  | ok recvR =>
    obtain ⟨lead, kw, hb, hc⟩ := h2 recvR hd
    simp [handleRpcMethod, hreg, hv, hb, hc, hvc]

/-- The return value becomes the result unchanged. -/
theorem C04_result_unchanged (reg : Registry) (t : HandlerTable) (req : Request) (ctx : String) (i : ReqId)
    (v : Json) (ev : List Event) (hid : req.id = some i)
    (h : handleRpcMethod reg req.method req.params = (.value v, ev)) :
    handleRequest reg t req ctx = (.set ⟨some i, .set v, .unset⟩, ev) := by
  simp [handleRequest, h, hid]

theorem runBody_value (m : MethodDef) (recv v : Json) (h : m.body recv = .ret v) :
    runBody m recv = (.value v, [.exec m.name recv]) := by
  simp [runBody, h]

/-! ### the context parameter cannot be supplied or overridden by the client — all kinds -/

theorem routeKw_slots_mono (sig : Signature) (b : Bool) (K slots ex slots' ex' : KwArgs) (k : String) (v : Json)
    (h : routeKw sig b K slots ex = .ok (slots', ex')) (hk : lookup k slots = some v) : lookup k slots' = some v := by
  induction K generalizing slots ex with
  | nil => simp [routeKw] at h; rw [← h.1]; exact hk
  | cons kv rest ih =>
    obtain ⟨k', v'⟩ := kv
    unfold routeKw at h
    split at h
    · split at h
      · cases h
      · rename_i hnot
        apply ih _ _ h
        rw [lookup_append, hk]; rfl
    · split at h
      · exact ih _ _ h hk
      · cases h

theorem routeKw_puts (sig : Signature) (b : Bool) (K slots ex slots' ex' : KwArgs) (k : String) (v : Json)
    (h : routeKw sig b K slots ex = .ok (slots', ex'))
    (hkw : sig.any (fun p => p.keywordable && p.name == k) = true)
    (hin : (k, v) ∈ K) : lookup k slots' = some v := by
  induction K generalizing slots ex with
  | nil => cases hin
  | cons kv rest ih =>
    obtain ⟨k', v'⟩ := kv
    unfold routeKw at h
    rcases List.mem_cons.mp hin with heq | hin'
    · cases heq
      rw [hkw] at h
      simp only [↓reduceIte] at h
      split at h
      · cases h
      · rename_i hnot
        apply routeKw_slots_mono _ _ _ _ _ _ _ _ _ h
        rw [lookup_append]
        have : lookup k slots = none := by
          simp only [kwHas] at hnot
          cases hl : lookup k slots <;> simp_all
        rw [this]; simp [lookup]
    · split at h
      · split at h
        · cases h
        · exact ih _ _ h hin'
      · split at h
        · exact ih _ _ h hin'
        · cases h

theorem paramValue_keywordable (slots : KwArgs) (sur : List Json) (ex : KwArgs) (q : Param)
    (hkw : q.keywordable = true) (v : Json) (hv : lookup q.name slots = some v) :
    paramValue slots sur ex q = .ok v := by
  have hk : q.kind = .posOrKw ∨ q.kind = .kwOnly := by
    simp only [Param.keywordable, Bool.or_eq_true, beq_iff_eq] at hkw; exact hkw
  rcases hk with hk | hk <;> simp [paramValue, hk, hv]

theorem collect_lookup (slots : KwArgs) (sur : List Json) (ex : KwArgs) (sig : Signature) (recv : KwArgs)
    (hnd : (sigNames sig).Nodup) (h : collect slots sur ex sig = .ok recv)
    (q : Param) (hq : q ∈ sig) (hkw : q.keywordable = true) (v : Json) (hv : lookup q.name slots = some v) :
    lookup q.name recv = some v := by
  induction sig generalizing recv with
  | nil => cases hq
  | cons p ps ih =>
    unfold collect at h
    have hnd' := List.nodup_cons.mp hnd
    cases hpv : paramValue slots sur ex p with
    | raised e => rw [hpv] at h; cases h
    | ok val =>
      rw [hpv] at h
      simp only at h
      cases hrest : collect slots sur ex ps with
      | raised e => rw [hrest] at h; cases h
      | ok rest =>
        rw [hrest] at h
        cases h
        rcases List.mem_cons.mp hq with rfl | hq'
        · rw [paramValue_keywordable slots sur ex q hkw v hv] at hpv
          cases hpv
          simp [lookup]
        · have hne : p.name ≠ q.name := by
            intro e
            apply hnd'.1
            show p.name ∈ List.map (·.name) ps
            rw [e]
            exact List.mem_map_of_mem (f := (·.name)) hq'
          rw [lookup_cons_ne _ _ _ _ hne]
          exact ih _ hnd'.2 hrest hq'

/-- Whenever the body of a function whose context parameter `c` is passed by name runs, it received
the server-side context under `c` — whatever the client sent, whatever the other parameters' kinds. -/
theorem C04_context_not_overridable (sig : Signature) (hnd : (sigNames sig).Nodup) (c : String) (q : Param)
    (hq : q ∈ sig) (hqc : q.name = c) (hkw : q.keywordable = true)
    (args : KwArgs) (recv : KwArgs)
    (h : callKw sig [] (kwSet c ctxMarker args) = .ok recv) : lookup c recv = some ctxMarker := by
  unfold callKw at h
  rw [fillLead_nil] at h
  simp only [List.isEmpty_nil, Bool.not_true, Bool.false_and, Bool.false_eq_true, ↓reduceIte] at h
  split at h
  · cases h
  · rename_i slots extra hroute
    have hany : sig.any (fun p => p.keywordable && p.name == c) = true := by
      simp only [List.any_eq_true, Bool.and_eq_true, beq_iff_eq]
      exact ⟨q, hq, hkw, hqc⟩
    have hmem : (c, ctxMarker) ∈ kwSet c ctxMarker args := by
      clear h hroute
      induction args with
      | nil => simp [kwSet]
      | cons kv rest ih =>
        obtain ⟨k', v'⟩ := kv
        simp only [kwSet]
        split <;> simp [ih]
    have hs := routeKw_puts sig _ _ _ _ _ _ c ctxMarker hroute hany hmem
    rw [← hqc]
    exact collect_lookup slots _ _ sig recv hnd h q hq hkw ctxMarker (hqc ▸ hs)

/-- … and in positional mode the first parameter receives it. -/
theorem C04_context_positional (c : String) (d : Bool) (rest : Signature)
    (hnd : (sigNames (⟨c, .posOrKw, d⟩ :: rest)).Nodup) (args recv : KwArgs)
    (h : callKw (⟨c, .posOrKw, d⟩ :: rest) [ctxMarker] args = .ok recv) : lookup c recv = some ctxMarker := by
  unfold callKw at h
  simp only [fillLead, Param.positional, beq_self_eq_true, Bool.or_true, ↓reduceIte, fillLead_nil,
    List.isEmpty_nil, Bool.not_true, Bool.false_and, Bool.false_eq_true] at h
  split at h
  · cases h
  · rename_i slots extra hroute
    have hs := routeKw_slots_mono _ _ _ _ _ _ _ c ctxMarker hroute (by simp [lookup])
    exact collect_lookup slots _ _ _ recv hnd h ⟨c, .posOrKw, d⟩ (by simp) rfl ctxMarker hs

/-! ### the three witnesses of defect D6 (recorded; replayed on the real dispatcher every run) -/

def mVarKw : MethodDef :=
  { name := "f", sig := [⟨"a", .posOrKw, false⟩, ⟨"kw", .varKw, false⟩], body := fun r => .ret r }
def mVarPos : MethodDef :=
  { name := "f", sig := [⟨"args", .varPos, false⟩], body := fun r => .ret r }
def mPosOnly : MethodDef :=
  { name := "f", sig := [⟨"a", .posOnly, false⟩, ⟨"b", .posOrKw, false⟩], body := fun r => .ret r }

/-- `def f(a, **kw)` called with `{"a":1,"b":2}`: a direct call binds `kw = {"b": 2}`; pjrpc validates
and then calls `f(a=1, kw={"b": 2})`, so the body sees `kw = {"kw": {"b": 2}}`. -/
theorem C04_counterexample_varkw :
    directCall (refSig mVarKw) (.named [("a", .int 1), ("b", .int 2)])
      = .ok [("a", .int 1), ("kw", .obj [("b", .int 2)])]
    ∧ mVarKw.bind (.named [("a", .int 1), ("b", .int 2)]) = .ok ([], [("a", .int 1), ("kw", .obj [("b", .int 2)])])
    ∧ callKw mVarKw.sig [] [("a", .int 1), ("kw", .obj [("b", .int 2)])]
      = .ok [("a", .int 1), ("kw", .obj [("kw", .obj [("b", .int 2)])])] := by decide

/-- `def f(*args)` called with `[1,2]`: validated, then called as `f(args=(1,2))` → TypeError → -32000. -/
theorem C04_counterexample_varpos :
    directCall (refSig mVarPos) (.pos [.int 1, .int 2]) = .ok [("args", .arr [.int 1, .int 2])]
    ∧ mVarPos.bind (.pos [.int 1, .int 2]) = .ok ([], [("args", .arr [.int 1, .int 2])])
    ∧ callKw mVarPos.sig [] [("args", .arr [.int 1, .int 2])] = .raised .type_ := by decide

/-- `def f(a, /, b)` called with `[1,2]`: validated, then called as `f(a=1, b=2)` → TypeError → -32000. -/
theorem C04_counterexample_posonly :
    directCall (refSig mPosOnly) (.pos [.int 1, .int 2]) = .ok [("a", .int 1), ("b", .int 2)]
    ∧ mPosOnly.bind (.pos [.int 1, .int 2]) = .ok ([], [("a", .int 1), ("b", .int 2)])
    ∧ callKw mPosOnly.sig [] [("a", .int 1), ("b", .int 2)] = .raised .type_ := by decide

/-- Hence the full-strength statement is false of the pinned code. -/
theorem C04Statement_false : ¬ C04Statement := by
  intro h
  have hcfg : FnConfig mVarPos :=
    ⟨rfl, rfl, fun _ => rfl, by decide, Or.inl rfl⟩
  obtain ⟨_, h2⟩ := h mVarPos hcfg (.pos [.int 1, .int 2]) trivial
  obtain ⟨lead, kw, hb, hc⟩ := h2 _ C04_counterexample_varpos.1
  rw [C04_counterexample_varpos.2.1] at hb
  cases hb
  rw [C04_counterexample_varpos.2.2] at hc
  cases hc

/-! ### Non-vacuity of `C04_partial` -/

example : FnConfig { name := "f", sig := [⟨"ctx", .posOrKw, false⟩, ⟨"a", .posOrKw, false⟩, ⟨"k", .kwOnly, true⟩],
                     ctx := some "ctx", body := fun r => .ret r } :=
  ⟨rfl, rfl, fun _ => rfl, by decide, Or.inr ⟨"ctx", rfl, by decide, by decide, by intro h; cases h⟩⟩

end Pjrpc
