/-
  C20 — the pytest mocker answers as configured: round-robin, once, recorded.
-/
import PjrpcModel.Mocker
namespace Pjrpc

/-! ### the queue discipline in closed form -/

/-- one call served from a queue: the head answers; it goes to the tail unless it is `once` -/
def stepQueue : Queue → Queue
  | [] => []
  | p :: rest => if p.once then rest else rest ++ [p]

/-- `k` calls served from a queue: (the patches that answered, in order; the remaining queue) -/
def serve : Nat → Queue → List Patch × Queue
  | 0, q => ([], q)
  | _ + 1, [] => ([], [])
  | k + 1, p :: rest =>
    let (as, q') := serve k (if p.once then rest else rest ++ [p])
    (p :: as, q')

def keep (q : Queue) : Queue := q.filter (fun p => !p.once)

theorem serve_pass (q pre : Queue) : serve q.length (q ++ pre) = (q, pre ++ keep q) := by
  induction q generalizing pre with
  | nil => simp [serve, keep]
  | cons p r ih =>
    simp only [List.length_cons, List.cons_append, serve]
    cases hp : p.once with
    | true =>
      simp only [↓reduceIte]
      rw [ih pre]
      simp [keep, hp]
    | false =>
      simp only [Bool.false_eq_true, ↓reduceIte]
      have := ih (pre ++ [p])
      rw [List.append_assoc] at this ⊢
      rw [this]
      simp [keep, hp]

theorem serve_nil (n : Nat) : serve n ([] : Queue) = ([], []) := by cases n <;> rfl

theorem serve_add (a b : Nat) (q : Queue) :
    serve (a + b) q = ((serve a q).1 ++ (serve b (serve a q).2).1, (serve b (serve a q).2).2) := by
  induction a generalizing q with
  | zero => simp [serve]
  | succ a ih =>
    cases q with
    | nil => simp [serve_nil]
    | cons p r =>
      rw [Nat.succ_add]
      simp only [serve]
      rw [ih]
      simp

theorem keep_keep (q : Queue) : keep (keep q) = keep q := by simp [keep, List.filter_filter]

theorem replicate_flatten_comm {α} (j : Nat) (x : List α) :
    x ++ (List.replicate j x).flatten = (List.replicate j x).flatten ++ x := by
  induction j with
  | zero => simp
  | succ j ih => rw [List.replicate_succ, List.flatten_cons, List.append_assoc, ← ih]

theorem replicate_flatten_succ {α} (j : Nat) (x : List α) :
    (List.replicate (j + 1) x).flatten = (List.replicate j x).flatten ++ x := by
  rw [List.replicate_succ, List.flatten_cons, replicate_flatten_comm]

/-- **Round robin.**  The first `|q|` calls are answered by the patches in queue order (the order of
their addition), every later block of `|keep q|` calls by the surviving (non-`once`) patches in the
same order, and the queue is `keep q` at every block boundary. -/
theorem C20_round_robin (q : Queue) (j : Nat) :
    serve (q.length + j * (keep q).length) q = (q ++ (List.replicate j (keep q)).flatten, keep q) := by
  induction j with
  | zero =>
    have := serve_pass q []
    simpa using this
  | succ j ih =>
    rw [Nat.succ_mul, ← Nat.add_assoc, serve_add, ih]
    have := serve_pass (keep q) []
    simp only [List.append_nil, List.nil_append, keep_keep] at this
    simp only [this, replicate_flatten_succ, List.append_assoc]

/-- A patch marked `once` answers exactly one call: it is among the first `|q|` answers and never
re-enters the queue. -/
theorem C20_once_exactly_once (q : Queue) (j : Nat) (p : Patch) (hp : p.once = true) :
    p ∉ (serve (q.length + j * (keep q).length) q).2
    ∧ ((serve (q.length + j * (keep q).length) q).1.filter (· == p)).length = (q.filter (· == p)).length := by
  rw [C20_round_robin]
  have hk : p ∉ keep q := by simp [keep, hp]
  refine ⟨hk, ?_⟩
  have : ((List.replicate j (keep q)).flatten).filter (· == p) = [] := by
    rw [List.filter_eq_nil_iff]
    intro x hx hxp
    have hxe : x = p := by simpa using hxp
    obtain ⟨l, hl, hxl⟩ := List.mem_flatten.mp hx
    rw [List.eq_of_mem_replicate hl] at hxl
    exact hk (hxe ▸ hxl)
  simp [List.filter_append, this]

/-- With no `once` patch, answer number `k` is patch `k mod n`. -/
theorem C20_round_robin_mod (q : Queue) (hq : ∀ p ∈ q, p.once = false) (j : Nat) :
    (serve (q.length + j * q.length) q).1 = (List.replicate (j + 1) q).flatten := by
  have hk : keep q = q := by
    simp only [keep, List.filter_eq_self]
    intro p hp; simp [hq p hp]
  have := C20_round_robin q j
  rw [hk] at this
  rw [this, List.replicate_succ, List.flatten_cons]

/-! ### the state machine: abstraction to queues and call records -/

def queueOf (s : MockState) (ep m : String) : Queue := ((alGet ep s.patches).bind (alGet m)).getD []
def callsOf (s : MockState) (ep m : String) : List Params := ((alGet ep s.calls).bind (alGet m)).getD []

theorem alGet_alSet {β} (k k' : String) (v : β) (l : List (String × β)) :
    alGet k' (alSet k v l) = if k' = k then some v else alGet k' l := by
  induction l with
  | nil =>
    simp only [alSet, alGet]
    by_cases h : k' = k
    · simp [h]
    · simp [h, Ne.symm h]
  | cons kv rest ih =>
    obtain ⟨k0, v0⟩ := kv
    simp only [alSet]
    by_cases h0 : k0 = k
    · subst h0
      simp only [beq_self_eq_true, ↓reduceIte, alGet]
      by_cases h : k' = k0
      · simp [h]
      · simp [h, Ne.symm h]
    · have : (k0 == k) = false := by simp [h0]
      simp only [this, Bool.false_eq_true, ↓reduceIte, alGet, ih]
      by_cases h : k' = k
      · subst h; simp [h0]
      · simp [h]

theorem alGet_alErase {β} (k k' : String) (l : List (String × β)) :
    alGet k' (alErase k l) = if k' = k then none else alGet k' l := by
  induction l with
  | nil => simp [alErase, alGet]
  | cons kv rest ih =>
    obtain ⟨k0, v0⟩ := kv
    simp only [alErase, List.filter_cons] at ih ⊢
    by_cases h0 : k0 = k
    · subst h0
      simp only [bne_self_eq_false, Bool.false_eq_true, ↓reduceIte, ih, alGet]
      by_cases h : k' = k0
      · simp [h]
      · simp [h, Ne.symm h]
    · have : (k0 != k) = true := by simp [h0]
      simp only [this, ↓reduceIte, alGet, ih]
      by_cases h : k' = k
      · subst h; simp [h0]
      · simp [h]

/-- The reply carries the request id — whatever its value, 0 and "" included — and falls back to
the configured id only for a request without one. -/
theorem C20_reply_carries_request_id (p : Patch) (params : Params) (i : ReqId) (r : Response)
    (h : patchReply p params (some i) = .ok r) : r.id = some i := by
  unfold patchReply at h
  cases hp : p.payload <;> simp only [hp, Response.construct, Option.orElse] at h <;> first | (cases h; rfl) | cases h

/-- the payload is the configured result, error, or the callback's value -/
theorem C20_reply_payload (p : Patch) (params : Params) (id : Option ReqId) :
    patchReply p params id =
      (match p.payload with
       | .result v => .ok ⟨id.orElse fun _ => p.cfgId, .set v, .unset⟩
       | .error e => .ok ⟨id.orElse fun _ => p.cfgId, .unset, .set e⟩
       | .callback tag => .ok ⟨id, .set (callbackValue tag params), .unset⟩
       | .callbackRaises => .raised (.other "CallbackError")
       | .nothing => .raised .assertion) := by
  unfold patchReply
  cases p.payload <;> rfl

/-- **Every call is recorded, whatever becomes of its reply**: when the head patch of the queue cannot
produce a reply (its callback raises, or neither result nor error is configured) the call is recorded
under its endpoint and method all the same, and the queue has advanced as for an answered call. -/
theorem C20_recorded_even_if_reply_fails (s : MockState) (ep : String) (req : Request) (p : Patch) (rest : Queue)
    (h : alGet req.method ((alGet ep s.patches).getD []) = some (p :: rest)) :
    (matchRequest s ep req).1.calls = recordCall ep req.method req.params s.calls
    ∧ (matchRequest s ep req).2 = patchReply p req.params req.id := by
  simp [matchRequest, h]

/-- An endpoint without patches is passed through to the real transport or refused, as configured;
nothing is recorded. -/
theorem C20_unpatched_endpoint (s : MockState) (ep : String) (doc : Json) (h : alGet ep s.patches = none) :
    s.request ep doc = (s, if s.passthrough then .passthrough else .refused) := by
  simp [MockState.request, h]

/-- A method that is not patched on a patched endpoint gets -32601 carrying the request id; the
state is unchanged. -/
theorem C20_unpatched_method (s : MockState) (ep : String) (req : Request)
    (h : alGet req.method ((alGet ep s.patches).getD []) = none) :
    matchRequest s ep req =
      (s, .ok ⟨req.id, .unset, .set ⟨-32601, "Method not found", .set (.str req.method), "MethodNotFoundError"⟩⟩) := by
  simp [matchRequest, h]

theorem dropEmptyQueue_get (m : Option String) (epd : List (String × Queue)) (m' : String) :
    (alGet m' (dropEmptyQueue m epd)).getD [] = (alGet m' epd).getD [] := by
  cases m with
  | none => rfl
  | some name =>
    simp only [dropEmptyQueue]
    cases hq : alGet name epd with
    | none => rfl
    | some q =>
      cases q with
      | cons _ _ => rfl
      | nil =>
        simp only [alGet_alErase]
        by_cases hm : m' = name
        · subst hm; simp [hq]
        · simp [hm]

/-- cleanup only drops empty queues and empty endpoints: every queue reads the same afterwards
(an absent queue and an empty one are the same queue) -/
theorem cleanup_queue (ep : String) (m : Option String) (ms : Matches) (ep' m' : String) :
    ((alGet ep' (cleanup ep m ms)).bind (alGet m')).getD [] = ((alGet ep' ms).bind (alGet m')).getD [] := by
  unfold cleanup
  have hsame := dropEmptyQueue_get m ((alGet ep ms).getD []) m'
  by_cases hep : ep' = ep
  · subst hep
    have hE' : ((alGet ep' ms).bind (alGet m')).getD [] = (alGet m' ((alGet ep' ms).getD [])).getD [] := by
      cases alGet ep' ms <;> simp [alGet]
    rw [hE', ← hsame]
    cases hempty : (dropEmptyQueue m ((alGet ep' ms).getD [])).isEmpty with
    | true =>
      simp only [↓reduceIte, alGet_alErase, Option.bind_none, Option.getD_none]
      rw [List.isEmpty_iff.mp hempty]; rfl
    | false => simp only [Bool.false_eq_true, ↓reduceIte, alGet_alSet, Option.bind_some]
  · cases (dropEmptyQueue m ((alGet ep ms).getD [])).isEmpty with
    | true => simp [alGet_alErase, hep]
    | false => simp [alGet_alSet, hep]

/-- **One call to a patched pair.**  The head patch answers; the queue of that pair steps (the head
goes to the tail unless it is `once`); every other queue is untouched; the call is recorded with its
arguments under its endpoint and method, every other record is untouched. -/
theorem C20_step (s : MockState) (ep : String) (req : Request) (p : Patch) (rest : Queue)
    (h : alGet req.method ((alGet ep s.patches).getD []) = some (p :: rest)) :
    (matchRequest s ep req).2 = patchReply p req.params req.id
    ∧ queueOf (matchRequest s ep req).1 ep req.method = stepQueue (p :: rest)
    ∧ (∀ ep' m', (ep', m') ≠ (ep, req.method) → queueOf (matchRequest s ep req).1 ep' m' = queueOf s ep' m')
    ∧ callsOf (matchRequest s ep req).1 ep req.method = callsOf s ep req.method ++ [req.params]
    ∧ (∀ ep' m', (ep', m') ≠ (ep, req.method) → callsOf (matchRequest s ep req).1 ep' m' = callsOf s ep' m') := by
  simp only [matchRequest, h]
  refine ⟨trivial, ?_, ?_, ?_, ?_⟩
  · simp only [queueOf, cleanup_queue, alGet_alSet, ↓reduceIte, Option.bind_some, Option.getD_some, stepQueue]
  · intro ep' m' hne
    simp only [queueOf, cleanup_queue, alGet_alSet]
    by_cases hep : ep' = ep
    · subst hep
      have hm : m' ≠ req.method := fun e => hne (by rw [e])
      simp only [↓reduceIte, Option.bind_some, alGet_alSet, hm]
      cases alGet ep' s.patches <;> simp [alGet]
    · simp [hep]
  · simp only [callsOf, recordCall, alGet_alSet, ↓reduceIte, Option.bind_some, Option.getD_some]
    cases alGet ep s.calls <;> simp [alGet]
  · intro ep' m' hne
    simp only [callsOf, recordCall, alGet_alSet]
    by_cases hep : ep' = ep
    · subst hep
      have hm : m' ≠ req.method := fun e => hne (by rw [e])
      simp only [↓reduceIte, Option.bind_some, alGet_alSet, hm]
      cases alGet ep' s.calls <;> simp [alGet]
    · simp [hep]

/-- `add` appends at the tail of the *current* queue of its pair and touches nothing else. -/
theorem C20_add (s : MockState) (ep m : String) (p : Patch) :
    queueOf (s.add ep m p) ep m = queueOf s ep m ++ [p]
    ∧ (∀ ep' m', (ep', m') ≠ (ep, m) → queueOf (s.add ep m p) ep' m' = queueOf s ep' m')
    ∧ (s.add ep m p).calls = s.calls := by
  refine ⟨?_, ?_, rfl⟩
  · simp only [queueOf, MockState.add, alGet_alSet, ↓reduceIte, Option.bind_some, Option.getD_some]
    cases alGet ep s.patches <;> simp [alGet]
  · intro ep' m' hne
    simp only [queueOf, MockState.add, alGet_alSet]
    by_cases hep : ep' = ep
    · subst hep
      have hm : m' ≠ m := fun e => hne (by rw [e])
      simp only [↓reduceIte, Option.bind_some, alGet_alSet, hm]
      cases alGet ep' s.patches <;> simp [alGet]
    · simp [hep]

/-- `replace idx` substitutes at the current position of the queue. -/
theorem C20_replace (s : MockState) (ep m : String) (idx : Nat) (p : Patch) :
    queueOf (s.replace ep m idx p) ep m = (queueOf s ep m).set idx p := by
  simp only [queueOf, MockState.replace, alGet_alSet, ↓reduceIte, Option.bind_some, Option.getD_some]
  cases alGet ep s.patches <;> simp [alGet]

/-- `remove` empties the queue of the pair (or of every method of the endpoint). -/
theorem C20_remove (s : MockState) (ep m : String) :
    queueOf (s.remove ep (some m)) ep m = [] ∧ ∀ m', queueOf (s.remove ep none) ep m' = [] := by
  constructor
  · simp only [queueOf, MockState.remove, cleanup_queue, alGet_alSet, ↓reduceIte, Option.bind_some, alGet_alErase]
    rfl
  · intro m'
    simp [queueOf, MockState.remove, alGet_alErase]

/-- Batches are answered element-wise: the elements are served one after the other, each on the
state its predecessors left. -/
theorem C20_batch_elementwise (s : MockState) (ep : String) (r : Request) (rs : List Request) :
    matchAll s ep (r :: rs) =
      (match matchRequest s ep r with
       | (s1, .raised e) => (s1, .raised e)
       | (s1, .ok resp) =>
         match matchAll s1 ep rs with
         | (s2, .raised e) => (s2, .raised e)
         | (s2, .ok resps) => (s2, .ok (resp :: resps))) := rfl

theorem addIds_nonstrict (ids : List ReqId) (new : List (Option ReqId)) : addIds false ids new = .ok ids := by
  induction new with
  | nil => rfl
  | cons x xs ih => cases x <;> simp [addIds, ih]

/-- "batches are answered element-wise", at the level of the reply text: when every element of the batch is
answered, the reply is exactly the array of the elements' replies, in order - whatever ids the patches were
configured with (no identity error can come out of the mocker itself). -/
theorem C20_batch_text_elementwise (s s' : MockState) (ep : String) (doc : Json) (b : BatchRequest) (q : List (String × Queue))
    (resps : List Response) (hep : alGet ep s.patches = some q) (harr : doc.isArr = true)
    (hb : BatchRequest.fromJson doc = .ok b) (hm : matchAll s ep b.requests = (s', .ok resps)) :
    s.request ep doc = (s', .text (.arr (resps.map Response.toJson))) := by
  simp [MockState.request, hep, harr, hb, hm, BatchResponse.construct, BatchResponse.extend, addIds_nonstrict,
    BatchResponse.toJson]

/-- Composition: serving `k` consecutive calls from one pair follows `serve` (the queue abstraction
commutes with the state machine, so the closed form `C20_round_robin` applies to it). -/
theorem C20_queue_steps_like_serve (q : Queue) (k : Nat) :
    (serve (k + 1) q).2 = (serve k (stepQueue q)).2
    ∧ (serve (k + 1) q).1 = (match q with | [] => [] | p :: _ => p :: (serve k (stepQueue q)).1) := by
  cases q with
  | nil => simp [serve, serve_nil, stepQueue]
  | cons p r => simp [serve, stepQueue]

example : (serve 5 [⟨true, .nothing, none⟩, ⟨false, .callback "a", none⟩, ⟨false, .callback "b", none⟩]).1.map (·.payload)
    = [.nothing, .callback "a", .callback "b", .callback "a", .callback "b"] := by decide

end Pjrpc
