/-
  C09 — retries are bounded, follow the configured backoff, and return the last outcome.
  All statements are for every policy, every outcome stream, every delay list (any carrier `α`).
-/
import PjrpcModel.Retry
namespace Pjrpc

variable {α ρ ε : Type}

/-- whether the loop goes round again after an outcome -/
def Policy.retries (p : Policy ρ ε) : Attempt ρ ε → Bool
  | .resp r => p.retryResp r
  | .exc e => p.retryExc e

theorem retryLoop_step_stop (p : Policy ρ ε) (outs : Nat → Attempt ρ ε) (delays : List α) (k : Nat)
    (h : p.retries (outs k) = false) : retryLoop p outs delays k = ⟨outs k, 1, []⟩ := by
  unfold retryLoop
  cases ho : outs k <;> simp_all [Policy.retries]

theorem retryLoop_step_exhausted (p : Policy ρ ε) (outs : Nat → Attempt ρ ε) (k : Nat) :
    retryLoop p outs ([] : List α) k = ⟨outs k, 1, []⟩ := by
  unfold retryLoop
  cases ho : outs k <;> simp <;> split <;> rfl

theorem retryLoop_step_retry (p : Policy ρ ε) (outs : Nat → Attempt ρ ε) (d : α) (ds : List α) (k : Nat)
    (h : p.retries (outs k) = true) :
    retryLoop p outs (d :: ds) k =
      ⟨(retryLoop p outs ds (k + 1)).final, (retryLoop p outs ds (k + 1)).sends + 1, d :: (retryLoop p outs ds (k + 1)).sleeps⟩ := by
  rw [retryLoop]
  cases ho : outs k <;> simp_all [Policy.retries]

/-- With a strategy of n attempts (n delays) a request is sent at most n+1 times, at least once. -/
theorem C09_sends_bounded (p : Policy ρ ε) (outs : Nat → Attempt ρ ε) (delays : List α) (k : Nat) :
    1 ≤ (retryLoop p outs delays k).sends ∧ (retryLoop p outs delays k).sends ≤ delays.length + 1 := by
  induction delays generalizing k with
  | nil => rw [retryLoop_step_exhausted]; simp
  | cons d ds ih =>
    cases h : p.retries (outs k) with
    | false => rw [retryLoop_step_stop p outs _ k h]; simp
    | true =>
      rw [retryLoop_step_retry p outs d ds k h]
      have := ih (k + 1)
      simp only [List.length_cons]
      omega

/-- The pauses are the successive backoff delays: as many as there are re-sends — none before the
first and none after the last send. -/
theorem C09_sleeps_are_backoff_prefix (p : Policy ρ ε) (outs : Nat → Attempt ρ ε) (delays : List α) (k : Nat) :
    (retryLoop p outs delays k).sleeps = delays.take ((retryLoop p outs delays k).sends - 1) := by
  induction delays generalizing k with
  | nil => rw [retryLoop_step_exhausted]; rfl
  | cons d ds ih =>
    cases h : p.retries (outs k) with
    | false => rw [retryLoop_step_stop p outs _ k h]; rfl
    | true =>
      rw [retryLoop_step_retry p outs d ds k h]
      have hs := (C09_sends_bounded p outs ds (k + 1)).1
      simp only [Nat.add_sub_cancel]
      rw [ih (k + 1)]
      cases hn : (retryLoop p outs ds (k + 1)).sends with
      | zero => omega
      | succ n => simp

/-- The caller receives the last attempt's outcome unchanged. -/
theorem C09_last_outcome_returned (p : Policy ρ ε) (outs : Nat → Attempt ρ ε) (delays : List α) (k : Nat) :
    (retryLoop p outs delays k).final = outs (k + (retryLoop p outs delays k).sends - 1) := by
  induction delays generalizing k with
  | nil => rw [retryLoop_step_exhausted]; simp
  | cons d ds ih =>
    cases h : p.retries (outs k) with
    | false => rw [retryLoop_step_stop p outs _ k h]; simp
    | true =>
      rw [retryLoop_step_retry p outs d ds k h]
      simp only
      rw [ih (k + 1)]
      have hs := (C09_sends_bounded p outs ds (k + 1)).1
      congr 1
      omega

/-- Re-sent exactly when the previous attempt ended in a listed outcome and attempts remain: attempt
`j+1` happens iff every attempt up to `j` was retryable and `j` is below the number of delays. -/
theorem C09_resend_iff (p : Policy ρ ε) (outs : Nat → Attempt ρ ε) (delays : List α) (k : Nat) (j : Nat) :
    j + 1 < (retryLoop p outs delays k).sends + 1 ↔
      j ≤ delays.length ∧ ∀ i, i < j → p.retries (outs (k + i)) = true := by
  induction delays generalizing k j with
  | nil =>
    rw [retryLoop_step_exhausted]
    simp only [List.length_nil, Nat.le_zero_eq]
    constructor
    · intro h; have : j = 0 := by omega
      subst this; exact ⟨rfl, fun i hi => absurd hi (Nat.not_lt_zero i)⟩
    · intro ⟨h, _⟩; subst h; omega
  | cons d ds ih =>
    cases h : p.retries (outs k) with
    | false =>
      rw [retryLoop_step_stop p outs _ k h]
      simp only [List.length_cons]
      constructor
      · intro hj; have : j = 0 := by omega
        subst this; exact ⟨by omega, fun i hi => absurd hi (Nat.not_lt_zero i)⟩
      · intro ⟨_, hall⟩
        cases j with
        | zero => omega
        | succ j => have := hall 0 (by omega); simp [h] at this
    | true =>
      rw [retryLoop_step_retry p outs d ds k h]
      simp only [List.length_cons]
      cases j with
      | zero => simp
      | succ j =>
        have := ih (k + 1) j
        constructor
        · intro hj
          have h2 := this.mp (by omega)
          refine ⟨by omega, fun i hi => ?_⟩
          cases i with
          | zero => simpa using h
          | succ i =>
            have := h2.2 i (by omega)
            rw [show k + (i + 1) = k + 1 + i by omega]; exact this
        · intro ⟨hle, hall⟩
          have h2 := this.mpr ⟨by omega, fun i hi => by
            have := hall (i + 1) (by omega)
            rw [show k + 1 + i = k + (i + 1) by omega]; exact this⟩
          omega

/-- An unlisted outcome returns immediately: one send, no pause. -/
theorem C09_unlisted_immediate (p : Policy ρ ε) (outs : Nat → Attempt ρ ε) (delays : List α)
    (h : p.retries (outs 0) = false) :
    retryLoop p outs delays 0 = ⟨outs 0, 1, []⟩ := retryLoop_step_stop p outs delays 0 h

/-- retried exactly up to exhaustion: if every attempt is retryable, all delays are slept and the
request is sent `n+1` times -/
theorem C09_exhaustion (p : Policy ρ ε) (outs : Nat → Attempt ρ ε) (delays : List α) (k : Nat)
    (h : ∀ i, i ≤ delays.length → p.retries (outs (k + i)) = true) :
    (retryLoop p outs delays k).sends = delays.length + 1 ∧ (retryLoop p outs delays k).sleeps = delays := by
  induction delays generalizing k with
  | nil => rw [retryLoop_step_exhausted]; simp
  | cons d ds ih =>
    rw [retryLoop_step_retry p outs d ds k (by simpa using h 0 (by simp))]
    have := ih (k + 1) (fun i hi => by
      have := h (i + 1) (by simp; omega)
      rw [show k + 1 + i = k + (i + 1) by omega]; exact this)
    simp [this]

/-! ### backoff families: the delay formulas -/

theorem C09_periodic_delays [Add α] (attempts : Nat) (interval : α) (jitter : Nat → α) :
    (periodicDelays attempts interval jitter).length = attempts ∧
    ∀ k (h : k < attempts), (periodicDelays attempts interval jitter)[k]'(by simp [periodicDelays, h]) = interval + jitter k := by
  simp [periodicDelays]

theorem C09_exponential_delays [Add α] [Mul α] [Min α] [HPow α Nat α]
    (attempts : Nat) (base factor : α) (maxValue : Option α) (jitter : Nat → α) :
    (exponentialDelays attempts base factor maxValue jitter).length = attempts ∧
    ∀ k (h : k < attempts), (exponentialDelays attempts base factor maxValue jitter)[k]'(by simp [exponentialDelays, h])
      = capped maxValue (base * factor ^ k + jitter k) := by
  simp [exponentialDelays]

/-- the Fibonacci numbers the code produces: 1, 2, 3, 5, 8, … -/
def fibSeq : Nat → Nat
  | 0 => 1
  | 1 => 2
  | n + 2 => fibSeq n + fibSeq (n + 1)

theorem fibCur_spec (n : Nat) : (fibCur n).2 = fibSeq n ∧ (fibCur (n + 1)).2 = fibSeq (n + 1) := by
  induction n with
  | zero => exact ⟨rfl, rfl⟩
  | succ n ih =>
    refine ⟨ih.2, ?_⟩
    have h1 : (fibCur (n + 2)).2 = (fibCur (n + 1)).1 + (fibCur (n + 1)).2 := by
      show (let (prev, cur) := fibCur (n + 1); (cur, prev + cur)).2 = _
      rfl
    have h2 : (fibCur (n + 1)).1 = (fibCur n).2 := by
      show (let (prev, cur) := fibCur n; (cur, prev + cur)).1 = _
      rfl
    rw [h1, h2, ih.1, ih.2]; rfl

theorem C09_fibonacci_delays [Add α] [Mul α] [Min α] [NatCast α]
    (attempts : Nat) (multiplier : α) (maxValue : Option α) (jitter : Nat → α) :
    (fibonacciDelays attempts multiplier maxValue jitter).length = attempts ∧
    ∀ k (h : k < attempts), (fibonacciDelays attempts multiplier maxValue jitter)[k]'(by simp [fibonacciDelays, h])
      = capped maxValue (((fibSeq k : Nat) : α) * multiplier + jitter k) := by
  refine ⟨by simp [fibonacciDelays], fun k h => ?_⟩
  simp [fibonacciDelays, (fibCur_spec k).1]

/-! ### which strategy applies; notifications -/

/-- A per-request strategy replaces the client-wide one; an explicit `None` disables retrying. -/
theorem C09_per_request_strategy_wins {σ : Type} (s : Option σ) (clientWide : Option σ) :
    chooseStrategy (some s) clientWide = s ∧ chooseStrategy none clientWide = clientWide := ⟨rfl, rfl⟩

theorem C09_no_strategy_single_send {σ : Type} (policyOf : σ → Policy ρ ε) (delaysOf : σ → List α)
    (outs : Nat → Attempt ρ ε) : retried none policyOf delaysOf outs = ⟨outs 0, 1, []⟩ := rfl

/-! ### Non-vacuity -/

example :
    let p : Policy Nat String := ⟨fun r => r == 7, fun e => e == "retry"⟩
    let outs : Nat → Attempt Nat String := fun k => if k = 0 then .exc "retry" else if k = 1 then .resp 7 else .resp 0
    (retryLoop p outs [10, 20, 30] 0).sends = 3 ∧ (retryLoop p outs [10, 20, 30] 0).sleeps = [10, 20]
      ∧ (retryLoop p outs [10, 20, 30] 0).final = .resp 0 := by decide

end Pjrpc
