/-
  C12 — middlewares and error handlers run once per request element, in the declared order; what
  the chain returns is what is sent; handlers fold over the error; handlers never run for successes
  or for documents rejected before dispatch.
-/
import PjrpcModel.Dispatch
namespace Pjrpc

/-! ### Middleware chain -/

def enters (method ctx : String) (i n : Nat) : List Event :=
  (List.range n).map (fun k => Event.mwEnter (i + k) method ctx)

def leaves (i n : Nat) : List Event :=
  ((List.range n).map (fun k => Event.mwLeave (i + k))).reverse

theorem enters_succ (m c : String) (i n : Nat) :
    enters m c i (n + 1) = Event.mwEnter i m c :: enters m c (i + 1) n := by
  simp only [enters, List.range_succ_eq_map, List.map_cons, List.map_map, Nat.add_zero, List.cons.injEq, true_and]
  apply List.map_congr_left
  intro k _
  simp only [Function.comp]
  congr 1
  omega

theorem leaves_succ (i n : Nat) : leaves i (n + 1) = leaves (i + 1) n ++ [Event.mwLeave i] := by
  simp only [leaves, List.range_succ_eq_map, List.map_cons, List.map_map, Nat.add_zero, List.reverse_cons]
  congr 2
  apply List.map_congr_left
  intro k _
  simp only [Function.comp]
  congr 1
  omega

/-- `n` pass-through middlewares: every one is entered once, first-declared outermost, the inner
handler runs once with the same request and context, and they unwind in reverse order; the result
is the inner handler's result. -/
theorem C12_chain_order (inner : Handler) (n i : Nat) (req : Request) (ctx : String) :
    buildChain inner i (List.replicate n .pass) req ctx =
      ((inner req ctx).1, enters req.method ctx i n ++ (inner req ctx).2 ++ leaves i n) := by
  induction n generalizing i with
  | zero => simp [buildChain, enters, leaves]
  | succ n ih =>
    simp only [List.replicate_succ, buildChain, MwKind.apply, ih (i + 1), enters_succ, leaves_succ]
    simp

/-- A middleware that answers itself at position `k` (after `k` pass-through ones): exactly the
first `k+1` middlewares are entered, the inner handler does not run, the rest of the stack is never
reached, and the reply is the short-circuit's response. -/
theorem C12_short_circuit (inner : Handler) (k i : Nat) (v : Json) (rest : List MwKind)
    (req : Request) (ctx : String) :
    buildChain inner i (List.replicate k .pass ++ .short v :: rest) req ctx =
      ((match req.id with
        | none => MaybeSet.unset
        | some id => .set ⟨some id, .set v, .unset⟩),
       enters req.method ctx i (k + 1) ++ leaves i (k + 1)) := by
  induction k generalizing i with
  | zero =>
    simp only [List.replicate_zero, List.nil_append, buildChain, MwKind.apply, enters, leaves]
    cases req.id <;> simp
  | succ k ih =>
    simp only [List.replicate_succ, List.cons_append, buildChain, MwKind.apply, ih (i + 1)]
    rw [enters_succ req.method ctx i (k + 1), leaves_succ i (k + 1)]
    simp

/-- Response-rewriting middlewares outside a short circuit see (and may rewrite) its response:
whatever the chain returns is what is sent. -/
theorem C12_chain_result_is_sent (cfg : Config) (j : Json) (req : Request) (ctx : String)
    (hj : j.isArr = false) (hreq : Request.fromJson j = .ok req) :
    dispatch cfg (.ok j) ctx =
      (match (cfg.handler req ctx).1 with
       | .unset => .nothing
       | .set resp => replySingle resp, (cfg.handler req ctx).2) := by
  simp only [dispatch, hj, hreq]
  cases h : cfg.handler req ctx with
  | mk r ev => cases r <;> simp_all

/-! ### Batches: each element passes the chain exactly once -/

theorem runBatch_eq (h : Handler) (ctx : String) (rs : List Request) :
    runBatch h ctx rs = (rs.map (fun r => (h r ctx).1), (rs.map (fun r => (h r ctx).2)).flatten) := by
  induction rs with
  | nil => rfl
  | cons r rs ih => simp [runBatch, ih]

/-- The log of an accepted batch is the concatenation, in request order, of the logs its elements
produce alone — notifications included. -/
theorem C12_per_element (cfg : Config) (j : Json) (batch : BatchRequest) (ctx : String)
    (hj : j.isArr = true) (hb : BatchRequest.fromJson j = .ok batch)
    (hsz : tooLarge cfg.maxBatchSize batch.requests.length = false) :
    (dispatch cfg (.ok j) ctx).2 = (batch.requests.map (fun r => (cfg.handler r ctx).2)).flatten := by
  simp only [dispatch, hj, hb, hsz, runBatch_eq]
  simp only [Bool.false_eq_true, ↓reduceIte]

/-! ### Error handlers -/

theorem runHandlerList_fst (key : Option Int) (i : Nat) (hs : List HandlerKind) (e : RpcError) :
    (runHandlerList key i hs e).1 = hs.foldl (fun e h => h.apply e) e := by
  induction hs generalizing i e with
  | nil => rfl
  | cons h hs ih => simp [runHandlerList, ih]

/-- The error sent is the fold of the generic handlers and then the handlers registered for the
*raised* error's code, in list order, each receiving the previous one's result. -/
theorem C12_handlers_fold (t : HandlerTable) (e : RpcError) :
    (runHandlers t e).1 = (t.get none ++ t.get (some e.code)).foldl (fun e h => h.apply e) e := by
  simp [runHandlers, runHandlerList_fst, List.foldl_append]

theorem runHandlerList_events_length (key : Option Int) (i : Nat) (hs : List HandlerKind) (e : RpcError) :
    (runHandlerList key i hs e).2.length = hs.length := by
  induction hs generalizing i e with
  | nil => rfl
  | cons h hs ih => simp [runHandlerList, ih]

/-- Every handler of the two lists runs exactly once. -/
theorem C12_handlers_once (t : HandlerTable) (e : RpcError) :
    (runHandlers t e).2.length = (t.get none).length + (t.get (some e.code)).length := by
  simp [runHandlers, runHandlerList_events_length]

def Event.isHandler : Event → Bool
  | .handler .. => true
  | _ => false

/-- The method layer logs executions only. -/
theorem handleRpcMethod_no_handler_events (reg : Registry) (name : String) (params : Params) :
    (handleRpcMethod reg name params).2.filter Event.isHandler = [] := by
  unfold handleRpcMethod runBody
  repeat' split
  all_goals simp [Event.isHandler]

/-- Handlers never run for a request whose method returns. -/
theorem C12_handlers_only_on_failure (reg : Registry) (t : HandlerTable) (req : Request) (ctx : String) (v : Json)
    (hv : (handleRpcMethod reg req.method req.params).1 = .value v) :
    ((handleRequest reg t req ctx).2.filter Event.isHandler) = [] := by
  have hev := handleRpcMethod_no_handler_events reg req.method req.params
  unfold handleRequest
  cases hr : handleRpcMethod reg req.method req.params with
  | mk res ev =>
    rw [hr] at hv hev
    simp only at hv hev
    subst hv
    cases req.id <;> simpa using hev

/-- Documents rejected before dispatch (not JSON, not a request, invalid or oversized batch) run
neither middlewares nor handlers nor methods: the log is empty. -/
theorem C12_rejected_runs_nothing (cfg : Config) (lr : LoadResult) (ctx : String)
    (h : lr = .decodeError ∨ lr = .valueError
        ∨ (∃ j, lr = .ok j ∧ j.isArr = false ∧ ∃ e, Request.fromJson j = .raised e)
        ∨ (∃ j, lr = .ok j ∧ j.isArr = true ∧ ∃ e, BatchRequest.fromJson j = .raised e)
        ∨ (∃ j b, lr = .ok j ∧ j.isArr = true ∧ BatchRequest.fromJson j = .ok b
            ∧ tooLarge cfg.maxBatchSize b.requests.length = true)) :
    (dispatch cfg lr ctx).2 = [] := by
  rcases h with rfl | rfl | ⟨j, rfl, hj, e, he⟩ | ⟨j, rfl, hj, e, he⟩ | ⟨j, b, rfl, hj, hb, hs⟩
  · rfl
  · rfl
  · simp [dispatch, hj, he]
  · simp [dispatch, hj, he]
  · simp [dispatch, hj, hb, hs]

/-- Every failure class runs the handlers - unknown method, parameters that do not bind, an error raised by the
method, an arbitrary exception, and a failure outside the method body (`crashed`: the view's constructor raised,
reported as the internal error): the error sent is what `runHandlers` returns for the raised error, and the handler
events follow the events of the attempt. -/
theorem C12_every_failure_runs_handlers (reg : Registry) (t : HandlerTable) (req : Request) (ctx : String) (i : ReqId)
    (hid : req.id = some i) :
    (∀ e ev, handleRpcMethod reg req.method req.params = (.rpcError e, ev) →
      handleRequest reg t req ctx = (.set ⟨some i, .unset, .set (runHandlers t e).1⟩, ev ++ (runHandlers t e).2))
    ∧ (∀ ev, handleRpcMethod reg req.method req.params = (.crashed, ev) →
      handleRequest reg t req ctx
        = (.set ⟨some i, .unset, .set (runHandlers t internalError).1⟩, ev ++ (runHandlers t internalError).2)) := by
  constructor
  · intro e ev h
    simp [handleRequest, h, hid]
  · intro ev h
    simp [handleRequest, h, hid]

/-- the failure outside the method body exists: a view whose constructor raises -/
example : handleRpcMethod [("v", { name := "v", sig := [], view := true, initRaises := true, body := fun _ => .ret .null })] "v" .none
    = (.crashed, []) := by
  simp [handleRpcMethod, Registry.get]

/-! ### Non-vacuity -/

example : buildChain (fun r _ => (.unset, [.exec r.method .null])) 0 [.pass, .pass]
    ⟨"m", .none, none⟩ "CTX"
    = (.unset, [.mwEnter 0 "m" "CTX", .mwEnter 1 "m" "CTX", .exec "m" .null, .mwLeave 1, .mwLeave 0]) := by
  decide

end Pjrpc
