/-
  C03 — failures map to the JSON-RPC 2.0 error codes; application errors pass verbatim; any other
  exception is reported as -32000 and nothing about it appears in the response.
  The statements are about the library's own behaviour: no user error handlers registered for the
  code in question (handlers may rewrite errors — that is C12).
-/
import PjrpcModel.Dispatch
namespace Pjrpc
open Json

/-- A reply that is exactly one error response with `id: null`. -/
def errorReply (e : RpcError) : DispatchResult := replySingle ⟨none, .unset, .set e⟩

/-- Text that is not JSON is answered with -32700, id null, and nothing runs. -/
theorem C03_parse_error (cfg : Config) (ctx : String) :
    dispatch cfg .decodeError ctx = (errorReply (parseErrorWith (.set freeText)), [])
    ∧ dispatch cfg .valueError ctx = (errorReply (parseErrorWith (.set freeText)), []) := ⟨rfl, rfl⟩

theorem errorReply_shape (e : RpcError) :
    errorReply e = .reply (.obj [("jsonrpc", .str "2.0"), ("id", .null), ("error", e.toJson)]) [e.code] := rfl

/-- JSON that is not a valid request object is answered with -32600, id null; nothing runs. -/
theorem C03_invalid_request (cfg : Config) (j : Json) (ctx : String) (hj : j.isArr = false)
    (h : ¬ ∃ r, Request.fromJson j = .ok r) :
    dispatch cfg (.ok j) ctx = (errorReply (invalidRequestWith (.set freeText)), []) := by
  simp only [dispatch, hj]
  cases hr : Request.fromJson j with
  | ok r => exact absurd ⟨r, hr⟩ h
  | raised e => rfl

/-- An array that is not a valid non-empty batch (empty, an invalid element, duplicate ids) is
rejected as a whole with -32600, id null; nothing runs. -/
theorem C03_invalid_batch (cfg : Config) (j : Json) (ctx : String) (hj : j.isArr = true)
    (h : ¬ ∃ b, BatchRequest.fromJson j = .ok b) :
    dispatch cfg (.ok j) ctx = (errorReply (invalidRequestWith (.set freeText)), []) := by
  simp only [dispatch, hj]
  cases hr : BatchRequest.fromJson j with
  | ok b => exact absurd ⟨b, hr⟩ h
  | raised e => rfl

/-- A batch over the size limit is rejected as a whole with -32600 "batch too large". -/
theorem C03_batch_too_large (cfg : Config) (j : Json) (b : BatchRequest) (ctx : String) (hj : j.isArr = true)
    (hb : BatchRequest.fromJson j = .ok b) (hs : tooLarge cfg.maxBatchSize b.requests.length = true) :
    dispatch cfg (.ok j) ctx = (errorReply (invalidRequestWith (.set freeText)), []) := by
  simp [dispatch, hj, hb, hs, errorReply]

/-- No error handler applies to errors with this code. -/
def NoHandlers (t : HandlerTable) (code : Int) : Prop := t.get none = [] ∧ t.get (some code) = []

theorem runHandlers_none (t : HandlerTable) (e : RpcError) (h : NoHandlers t e.code) :
    runHandlers t e = (e, []) := by
  simp [runHandlers, h.1, h.2, runHandlerList]

/-- The error response for a call; nothing for a notification. -/
def answerError (req : Request) (e : RpcError) : MaybeResp :=
  match req.id with
  | none => .unset
  | some i => .set ⟨some i, .unset, .set e⟩

theorem handleRequest_of_error (reg : Registry) (t : HandlerTable) (req : Request) (ctx : String) (e : RpcError)
    (ev : List Event) (hm : handleRpcMethod reg req.method req.params = (.rpcError e, ev)) (hh : NoHandlers t e.code) :
    handleRequest reg t req ctx = (answerError req e, ev) := by
  unfold handleRequest answerError
  rw [hm]
  simp only [runHandlers_none t e hh]
  cases req.id <;> simp

/-- An unknown method is answered -32601 (nothing for a notification), nothing runs. -/
theorem C03_method_not_found (reg : Registry) (t : HandlerTable) (req : Request) (ctx : String)
    (hm : reg.get req.method = none) (hh : NoHandlers t (-32601)) :
    handleRequest reg t req ctx
      = (answerError req (methodNotFoundWith (.set freeText)), []) := by
  apply handleRequest_of_error _ _ _ _ _ _ _ hh
  simp [handleRpcMethod, hm]

/-- Parameters that do not bind to (or do not validate against) the method are answered -32602 and
the method body does not run. -/
theorem C03_invalid_params_not_executed (reg : Registry) (t : HandlerTable) (req : Request) (ctx : String)
    (m : MethodDef) (hm : reg.get req.method = some m) (hi : (m.view && m.initRaises) = false)
    (hb : ∃ e, m.bind req.params = .raised e) (hh : NoHandlers t (-32602)) :
    handleRequest reg t req ctx = (answerError req (invalidParamsWith (.set (.arr [freeText]))), []) := by
  obtain ⟨e, he⟩ := hb
  apply handleRequest_of_error _ _ _ _ _ _ _ hh
  simp [handleRpcMethod, hm, hi, he]

/-- A protocol error raised by the method reaches the caller with exactly its code, message and
data (absent data stays absent, null data stays null): for every code, every message, every data. -/
theorem C03_rpc_error_verbatim (reg : Registry) (t : HandlerTable) (req : Request) (ctx : String)
    (m : MethodDef) (lead : List Json) (kw recv : KwArgs) (e : RpcError)
    (hm : reg.get req.method = some m) (hi : (m.view && m.initRaises) = false)
    (hb : m.bind req.params = .ok (lead, kw)) (hc : callKw m.sig lead kw = .ok recv)
    (hbody : m.body (.obj (recv ++ m.viewCtx)) = .rpc e) (hh : NoHandlers t e.code) :
    handleRequest reg t req ctx = (answerError req e, [.exec m.name (.obj (recv ++ m.viewCtx))]) := by
  apply handleRequest_of_error _ _ _ _ _ _ _ hh
  simp [handleRpcMethod, hm, hi, hb, hc, runBody, hbody]

/-- The wire form of the error object: exactly `code`, `message`, and `data` iff it is set. -/
theorem C03_error_wire_exact (e : RpcError) :
    e.toJson = .obj ([("code", .int e.code), ("message", .str e.message)] ++
      (match e.data with | .unset => [] | .set d => [("data", d)])) := rfl

/-- Any other exception raised by the body is reported as `-32000 Server error` without data — the
response does not depend on the exception in any way (type, message, traceback: the `tag`). -/
theorem C03_other_exception_opaque (reg : Registry) (t : HandlerTable) (req : Request) (ctx : String)
    (m : MethodDef) (lead : List Json) (kw recv : KwArgs) (tag : String)
    (hm : reg.get req.method = some m) (hi : (m.view && m.initRaises) = false)
    (hb : m.bind req.params = .ok (lead, kw)) (hc : callKw m.sig lead kw = .ok recv)
    (hbody : m.body (.obj (recv ++ m.viewCtx)) = .exc tag) (hh : NoHandlers t (-32000)) :
    handleRequest reg t req ctx = (answerError req serverError, [.exec m.name (.obj (recv ++ m.viewCtx))]) := by
  apply handleRequest_of_error _ _ _ _ _ _ _ hh
  simp [handleRpcMethod, hm, hi, hb, hc, runBody, hbody]

/-- … and the error object on the wire is exactly `{code: -32000, message: "Server error"}`. -/
theorem C03_server_error_wire : serverError.toJson = .obj [("code", .int (-32000)), ("message", .str "Server error")] := rfl

/-- A `TypeError` raised *inside* the body is an arbitrary exception (-32000), not a binding failure
(-32602): binding is decided before the body runs, by `bind` alone. -/
theorem C03_typeerror_in_body_is_server_error (reg : Registry) (t : HandlerTable) (req : Request) (ctx : String)
    (m : MethodDef) (lead : List Json) (kw recv : KwArgs)
    (hm : reg.get req.method = some m) (hi : (m.view && m.initRaises) = false)
    (hb : m.bind req.params = .ok (lead, kw)) (hc : callKw m.sig lead kw = .ok recv)
    (hbody : m.body (.obj (recv ++ m.viewCtx)) = .exc "TypeError:raised in the body") (hh : NoHandlers t (-32000)) :
    (handleRequest reg t req ctx).1 = answerError req serverError := by
  rw [C03_other_exception_opaque reg t req ctx m lead kw recv _ hm hi hb hc hbody hh]

/-- A view whose constructor raises (an exception outside the method call) is an internal error. -/
theorem C03_internal_error (reg : Registry) (t : HandlerTable) (req : Request) (ctx : String)
    (m : MethodDef) (hm : reg.get req.method = some m) (hi : (m.view && m.initRaises) = true)
    (hh : NoHandlers t (-32603)) :
    handleRequest reg t req ctx = (answerError req internalError, []) := by
  unfold handleRequest answerError
  simp only [handleRpcMethod, hm, hi, ↓reduceIte]
  have : runHandlers t internalError = (internalError, []) := runHandlers_none t internalError hh
  simp only [this]
  cases req.id <;> simp

/-! ### Non-vacuity -/

example : NoHandlers [] (-32601) := ⟨rfl, rfl⟩
example : ∃ e, (⟨"f", [⟨"a", .posOrKw, false⟩], none, false, false, [], false, some, fun _ => .ret .null⟩ : MethodDef).bind (.pos [])
    = .raised e := ⟨_, rfl⟩

end Pjrpc
