/-
  C06 — deserialisation is strict and total: only DeserializationError (IdentityError for duplicate
  ids in a batch) escapes; structurally invalid messages are never accepted; a refused append /
  extend leaves the batch unchanged.
-/
import PjrpcModel.Msg
namespace Pjrpc
open Json

/-! ### Declarative shape predicates, written from the JSON-RPC 2.0 text and the property -/

/-- "a string, a number (integers only) or null"; an absent member is allowed where stated. -/
def ValidIdMember (v : Option Json) : Prop :=
  v = none ∨ v = some .null ∨ (∃ i, v = some (.int i)) ∨ (∃ s, v = some (.str s))

def ValidParamsMember (v : Option Json) : Prop :=
  v = none ∨ (∃ xs, v = some (.arr xs)) ∨ (∃ kvs, v = some (.obj kvs))

def ValidRequestShape (j : Json) : Prop :=
  ∃ kvs, j = .obj kvs ∧ lookup "jsonrpc" kvs = some (.str "2.0") ∧ ValidIdMember (lookup "id" kvs)
    ∧ (∃ m, lookup "method" kvs = some (.str m)) ∧ ValidParamsMember (lookup "params" kvs)

def ValidErrorShape (j : Json) : Prop :=
  ∃ kvs, j = .obj kvs ∧ (∃ c, lookup "code" kvs = some (.int c)) ∧ (∃ m, lookup "message" kvs = some (.str m))

def ValidResponseShape (j : Json) : Prop :=
  ∃ kvs, j = .obj kvs ∧ lookup "jsonrpc" kvs = some (.str "2.0") ∧ ValidIdMember (lookup "id" kvs)
    ∧ ((lookup "result" kvs ≠ none ∧ lookup "error" kvs = none)
       ∨ (lookup "result" kvs = none ∧ ∃ e, lookup "error" kvs = some e ∧ ValidErrorShape e))

/-! ### Totality -/

theorem parseId_total (kvs : List (String × Json)) :
    (∃ i, parseId kvs = .ok i) ∨ parseId kvs = .raised .deserialization := by
  unfold parseId; split <;> simp

theorem C06_Request_fromJson_total (j : Json) :
    (∃ r, Request.fromJson j = .ok r) ∨ Request.fromJson j = .raised .deserialization := by
  unfold Request.fromJson
  split
  · rename_i kvs
    split
    · simp
    · split
      · rcases parseId_total kvs with ⟨i, h⟩ | h <;> rw [h] <;> simp
        repeat' split
        all_goals simp
      · simp
  · simp

theorem C06_Error_fromJson_total (reg : ErrRegistry) (cls : ErrClass) (j : Json) :
    (∃ e, RpcError.fromJson reg cls j = .ok e) ∨ RpcError.fromJson reg cls j = .raised .deserialization := by
  unfold RpcError.fromJson RpcError.construct
  repeat' split
  all_goals simp_all

theorem C06_Response_fromJson_total (reg : ErrRegistry) (cls : ErrClass) (j : Json) :
    (∃ r, Response.fromJson reg cls j = .ok r) ∨ Response.fromJson reg cls j = .raised .deserialization := by
  unfold Response.fromJson
  split
  · rename_i kvs
    split
    · simp
    · split
      · rcases parseId_total kvs with ⟨i, h⟩ | h <;> rw [h] <;> simp
        cases hE : lookup "error" kvs with
        | none =>
          simp
          cases hR : lookup "result" kvs <;> simp [Response.construct]
        | some ej =>
          simp
          rcases C06_Error_fromJson_total reg cls ej with ⟨e, he⟩ | he <;> rw [he] <;> simp
          cases hR : lookup "result" kvs <;> simp [Response.construct]
      · simp
  · simp

end Pjrpc

namespace Pjrpc
open Json

/-! ### Strictness: accepted ⇔ shape predicate -/

theorem parseId_ok_iff (kvs : List (String × Json)) :
    (∃ i, parseId kvs = .ok i) ↔ ValidIdMember (lookup "id" kvs) := by
  unfold parseId ValidIdMember
  split <;> simp_all

theorem C06_Request_fromJson_ok_iff (j : Json) :
    (∃ r, Request.fromJson j = .ok r) ↔ ValidRequestShape j := by
  unfold Request.fromJson ValidRequestShape
  split
  · rename_i kvs
    simp only [Json.obj.injEq, exists_eq_left']
    split
    · simp_all
    · rename_i v hv
      split
      · rename_i hv2
        subst hv2
        simp only [hv, true_and]
        rw [← parseId_ok_iff]
        rcases parseId_total kvs with ⟨i, h⟩ | h <;> rw [h]
        · simp only [Py.ok.injEq, exists_eq', true_and]
          unfold ValidParamsMember
          repeat' split
          all_goals simp_all
        · simp
      · simp_all
  · simp_all

theorem C06_Error_fromJson_ok_iff (reg : ErrRegistry) (cls : ErrClass) (j : Json) :
    (∃ e, RpcError.fromJson reg cls j = .ok e) ↔ ValidErrorShape j := by
  unfold RpcError.fromJson ValidErrorShape RpcError.construct
  repeat' split
  all_goals simp_all

theorem C06_Response_fromJson_ok_iff (reg : ErrRegistry) (cls : ErrClass) (j : Json) :
    (∃ r, Response.fromJson reg cls j = .ok r) ↔ ValidResponseShape j := by
  unfold Response.fromJson ValidResponseShape
  split
  · rename_i kvs
    simp only [Json.obj.injEq, exists_eq_left']
    split
    · simp_all
    · rename_i v hv
      split
      · rename_i hv2
        subst hv2
        simp only [hv, true_and]
        rw [← parseId_ok_iff]
        rcases parseId_total kvs with ⟨i, h⟩ | h <;> rw [h]
        · simp only [Py.ok.injEq, exists_eq', true_and]
          cases hE : lookup "error" kvs with
          | none => cases hR : lookup "result" kvs <;> simp [Response.construct]
          | some ej =>
            simp only
            have hiff := C06_Error_fromJson_ok_iff reg cls ej
            rcases C06_Error_fromJson_total reg cls ej with ⟨e, he⟩ | he
            · have hs : ValidErrorShape ej := hiff.mp ⟨e, he⟩
              rw [he]
              cases hR : lookup "result" kvs <;> simp [Response.construct, hs]
            · have hs : ¬ ValidErrorShape ej := fun h => by
                obtain ⟨e, h2⟩ := hiff.mpr h; rw [he] at h2; cases h2
              rw [he]
              cases hR : lookup "result" kvs <;> simp [hs]
        · simp
      · simp_all
  · simp_all

/-! ### Batches -/

theorem addIds_total (strict : Bool) (ids : List ReqId) (new : List (Option ReqId)) :
    (∃ r, addIds strict ids new = .ok r) ∨ addIds strict ids new = .raised .identity := by
  induction new generalizing ids with
  | nil => simp [addIds]
  | cons x xs ih =>
    cases x with
    | none => simpa [addIds] using ih ids
    | some i =>
      unfold addIds
      split
      · split
        · simp
        · exact ih _
      · exact ih _

theorem mapPy_total {α β} (f : α → Py β) (e : Exc)
    (hf : ∀ x, (∃ y, f x = .ok y) ∨ f x = .raised e) (xs : List α) :
    (∃ ys, mapPy f xs = .ok ys) ∨ mapPy f xs = .raised e := by
  induction xs with
  | nil => simp [mapPy]
  | cons x xs ih =>
    unfold mapPy
    rcases hf x with ⟨y, hy⟩ | hy <;> rw [hy] <;> simp
    rcases ih with ⟨ys, hys⟩ | hys <;> rw [hys] <;> simp

/-- A batch request deserialises, or raises the deserialisation error, or the identity error —
nothing else. -/
theorem C06_BatchRequest_fromJson_total (j : Json) :
    (∃ b, BatchRequest.fromJson j = .ok b) ∨ BatchRequest.fromJson j = .raised .deserialization
      ∨ BatchRequest.fromJson j = .raised .identity := by
  unfold BatchRequest.fromJson
  split
  · simp
  · rename_i xs _
    rcases mapPy_total Request.fromJson .deserialization C06_Request_fromJson_total xs with ⟨rs, h⟩ | h
      <;> rw [h] <;> simp
    unfold BatchRequest.construct BatchRequest.extend
    rcases addIds_total true [] (rs.map (·.id)) with ⟨r, h2⟩ | h2 <;> simp [BatchRequest.empty, h2]
  · simp

/-- The empty array is never accepted as a batch request. -/
theorem C06_BatchRequest_empty_rejected : BatchRequest.fromJson (.arr []) = .raised .deserialization := rfl

theorem C06_BatchResponse_fromJson_total (reg : ErrRegistry) (cls : ErrClass) (j : Json) :
    (∃ b, BatchResponse.fromJson reg cls j = .ok b) ∨ BatchResponse.fromJson reg cls j = .raised .deserialization
      ∨ BatchResponse.fromJson reg cls j = .raised .identity := by
  unfold BatchResponse.fromJson
  split
  · rename_i kvs
    split
    · simp
    · split
      · split
        · rename_i ej _
          rcases C06_Error_fromJson_total reg cls ej with ⟨e, he⟩ | he <;> rw [he] <;> simp
          simp [BatchResponse.construct, BatchResponse.extend, addIds]
        · simp
      · simp
  · rename_i xs
    rcases mapPy_total (Response.fromJson reg cls) .deserialization
      (C06_Response_fromJson_total reg cls) xs with ⟨rs, h⟩ | h <;> rw [h] <;> simp
    unfold BatchResponse.construct BatchResponse.extend
    rcases addIds_total true [] (rs.map (·.id)) with ⟨r, h2⟩ | h2 <;> simp [h2]
  · simp

/-! ### Atomic append / extend: histories -/

/-- One mutation of a batch request as a user performs it. -/
inductive BatchOp where
  | append (r : Request)
  | extend (rs : List Request)

/-- Python semantics of a sequence of mutating calls, each of which may raise and is then simply
skipped by the caller (`try: batch.append(r) except IdentityError: pass`): the object's state after
the call is `b'` on success and — this is the claim — *exactly* `b` on failure. -/
def BatchRequest.applyOp (b : BatchRequest) : BatchOp → BatchRequest × Bool
  | .append r => match b.append r with
    | .ok b' => (b', true)
    | .raised _ => (b, false)
  | .extend rs => match b.extend rs with
    | .ok b' => (b', true)
    | .raised _ => (b, false)

/-- Ids of the accepted requests. -/
def callIds (rs : List Request) : List ReqId := rs.filterMap (·.id)

/-- A failed strict `extend` is exactly the case of a duplicate id — among the new ids or against
the ids already present — and the batch is returned unchanged (`raised` carries no new state:
`BatchRequest.extend` is a pure function of `b`, so the old `b` is still the object's state;
what needs proof is that success keeps the invariant and that failure is *only* duplication). -/
def BatchRequest.Inv (b : BatchRequest) : Prop :=
  b.strict = true → (∀ i, i ∈ b.ids ↔ i ∈ callIds b.requests) ∧ (callIds b.requests).Nodup

theorem addIds_ok_spec (ids : List ReqId) (new : List (Option ReqId)) (r : List ReqId)
    (h : addIds true ids new = .ok r) :
    (∀ i, i ∈ r ↔ i ∈ ids ∨ i ∈ new.filterMap id) ∧ (new.filterMap id).Nodup
      ∧ (∀ i ∈ new.filterMap id, i ∉ ids) := by
  induction new generalizing ids with
  | nil => simp_all [addIds]
  | cons x xs ih =>
    cases x with
    | none => simpa [addIds] using ih ids (by simpa [addIds] using h)
    | some i =>
      unfold addIds at h
      simp only [↓reduceIte] at h
      split at h
      · cases h
      · rename_i hni
        have := ih (i :: ids) h
        simp only [List.contains_eq_mem, decide_eq_true_eq] at hni
        simp only [List.filterMap_cons, id_eq, List.mem_cons, List.nodup_cons]
        refine ⟨fun j => ?_, ⟨?_, this.2.1⟩, ?_⟩
        · rw [this.1 j]; simp only [List.mem_cons]; grind
        · intro hmem; exact this.2.2 i hmem (by simp)
        · intro j hj
          rcases hj with rfl | hj
          · exact hni
          · intro hjids; exact this.2.2 j hj (by simp [hjids])

theorem addIds_raise_spec (ids : List ReqId) (new : List (Option ReqId))
    (h : addIds true ids new = .raised .identity) :
    ¬ (new.filterMap id).Nodup ∨ ∃ i ∈ new.filterMap id, i ∈ ids := by
  induction new generalizing ids with
  | nil => simp [addIds] at h
  | cons x xs ih =>
    cases x with
    | none => simpa [addIds] using ih ids (by simpa [addIds] using h)
    | some i =>
      unfold addIds at h
      simp only [↓reduceIte] at h
      split at h
      · rename_i hc
        simp only [List.contains_eq_mem, decide_eq_true_eq] at hc
        right; exact ⟨i, by simp, hc⟩
      · rcases ih (i :: ids) h with hnd | ⟨j, hj, hjm⟩
        · left; simp only [List.filterMap_cons, id_eq, List.nodup_cons]; grind
        · simp only [List.mem_cons] at hjm
          rcases hjm with rfl | hjm
          · left; simp only [List.filterMap_cons, id_eq, List.nodup_cons]; grind
          · right; exact ⟨j, by simp [hj], hjm⟩

theorem callIds_append (a b : List Request) : callIds (a ++ b) = callIds a ++ callIds b := by
  simp [callIds]

theorem map_id_filterMap (rs : List Request) : (rs.map (·.id)).filterMap id = callIds rs := by
  simp [callIds, List.filterMap_map]

/-- Success of `extend` keeps the invariant "the id set is exactly the ids of the stored calls and
those are pairwise distinct". -/
theorem C06_extend_ok_inv (b b' : BatchRequest) (rs : List Request) (hb : b.Inv)
    (h : b.extend rs = .ok b') : b'.Inv ∧ b'.requests = b.requests ++ rs := by
  unfold BatchRequest.extend at h
  split at h
  · cases h
  · rename_i ids hids
    cases h
    refine ⟨?_, rfl⟩
    intro hs
    simp only at hs
    rw [hs] at hids
    have spec := addIds_ok_spec _ _ _ hids
    rw [map_id_filterMap] at spec
    have ⟨hmem, hnd⟩ := hb hs
    simp only [callIds_append]
    refine ⟨fun i => ?_, ?_⟩
    · rw [spec.1 i, hmem i]; simp
    · rw [List.nodup_append]
      refine ⟨hnd, spec.2.1, ?_⟩
      intro a ha c hc hac
      subst hac
      exact spec.2.2 a hc ((hmem a).mpr ha)

/-- `extend` fails in strict mode only with the identity error and only when some new id
duplicates another new id or one already in the batch. -/
theorem C06_extend_raise_iff_dup (b : BatchRequest) (rs : List Request) (hb : b.Inv) (hs : b.strict = true) :
    (∃ e, b.extend rs = .raised e) ↔
      (¬ (callIds rs).Nodup ∨ ∃ i ∈ callIds rs, i ∈ callIds b.requests) := by
  unfold BatchRequest.extend
  rw [hs]
  constructor
  · intro ⟨e, he⟩
    rcases addIds_total true b.ids (rs.map (·.id)) with ⟨r, h2⟩ | h2
    · rw [h2] at he; cases he
    · have := addIds_raise_spec _ _ h2
      rw [map_id_filterMap] at this
      rcases this with h | ⟨i, hi, hm⟩
      · left; exact h
      · right; exact ⟨i, hi, ((hb hs).1 i).mp hm⟩
  · intro hdup
    rcases addIds_total true b.ids (rs.map (·.id)) with ⟨r, h2⟩ | h2
    · have spec := addIds_ok_spec _ _ _ h2
      rw [map_id_filterMap] at spec
      rcases hdup with h | ⟨i, hi, hm⟩
      · exact absurd spec.2.1 h
      · exact absurd (((hb hs).1 i).mpr hm) (spec.2.2 i hi)
    · rw [h2]; exact ⟨_, rfl⟩

/-- `extend` can raise nothing but the identity error. -/
theorem C06_extend_only_identity (b : BatchRequest) (rs : List Request) (e : Exc)
    (h : b.extend rs = .raised e) : e = .identity := by
  unfold BatchRequest.extend at h
  rcases addIds_total b.strict b.ids (rs.map (·.id)) with ⟨r, h2⟩ | h2 <;> rw [h2] at h <;> simp_all

theorem extend_strict_eq (b b' : BatchRequest) (rs : List Request) (h : b.extend rs = .ok b') :
    b'.strict = b.strict := by
  unfold BatchRequest.extend at h
  split at h
  · cases h
  · cases h; rfl

theorem applyOp_inv (b : BatchRequest) (op : BatchOp) (hb : b.Inv) :
    (b.applyOp op).1.Inv ∧ (b.applyOp op).1.strict = b.strict := by
  cases op with
  | append r =>
    simp only [BatchRequest.applyOp, BatchRequest.append]
    cases h : b.extend [r] with
    | ok b' => exact ⟨(C06_extend_ok_inv b b' [r] hb h).1, extend_strict_eq b b' [r] h⟩
    | raised e => exact ⟨hb, rfl⟩
  | extend rs =>
    simp only [BatchRequest.applyOp]
    cases h : b.extend rs with
    | ok b' => exact ⟨(C06_extend_ok_inv b b' rs hb h).1, extend_strict_eq b b' rs h⟩
    | raised e => exact ⟨hb, rfl⟩

/-- History form: after *any* sequence of append / extend calls, some of which are refused, the
batch's invariant (id set = ids of the stored calls, pairwise distinct) still holds. -/
theorem C06_history_atomic (ops : List BatchOp) (b : BatchRequest) (hb : b.Inv) :
    (ops.foldl (fun b op => (b.applyOp op).1) b).Inv
      ∧ (ops.foldl (fun b op => (b.applyOp op).1) b).strict = b.strict := by
  induction ops generalizing b with
  | nil => exact ⟨hb, rfl⟩
  | cons op ops ih =>
    simp only [List.foldl_cons]
    have key := applyOp_inv b op hb
    have := ih _ key.1
    exact ⟨this.1, this.2.trans key.2⟩

/-- The refused call leaves the batch *unchanged* (elements and id set), and what it raises is the
identity error. -/
theorem C06_append_dup_atomic (b : BatchRequest) (r : Request) (e : Exc) (h : b.append r = .raised e) :
    (b.applyOp (.append r)).1 = b ∧ e = .identity := by
  refine ⟨?_, C06_extend_only_identity b [r] e h⟩
  simp only [BatchRequest.applyOp, h]

theorem C06_extend_dup_atomic (b : BatchRequest) (rs : List Request) (e : Exc) (h : b.extend rs = .raised e) :
    (b.applyOp (.extend rs)).1 = b ∧ e = .identity := by
  refine ⟨?_, C06_extend_only_identity b rs e h⟩
  simp only [BatchRequest.applyOp, h]

/-- The strict duplicate check accepts a list of requests iff its call ids are pairwise distinct. -/
theorem C06_construct_ok_iff_nodup (rs : List Request) :
    (∃ b, BatchRequest.construct rs = .ok b) ↔ (callIds rs).Nodup := by
  have hinv : (BatchRequest.empty true).Inv := by intro _; simp [BatchRequest.empty, callIds]
  have := C06_extend_raise_iff_dup (BatchRequest.empty true) rs hinv rfl
  unfold BatchRequest.construct
  constructor
  · intro ⟨b, hb⟩
    apply Classical.byContradiction
    intro hnd
    obtain ⟨e, he⟩ := this.mpr (Or.inl hnd)
    rw [hb] at he; cases he
  · intro hnd
    cases hx : (BatchRequest.empty true).extend rs with
    | ok b => exact ⟨b, rfl⟩
    | raised e =>
      rcases this.mp ⟨e, hx⟩ with h | ⟨i, _, hm⟩
      · exact absurd hnd h
      · simp [BatchRequest.empty, callIds] at hm

/-! ### Non-vacuity -/

example : ValidRequestShape (.obj [("jsonrpc", .str "2.0"), ("method", .str "m"), ("id", .int 0)]) := by
  refine ⟨_, rfl, by decide, ?_, ⟨"m", by decide⟩, Or.inl (by decide)⟩
  exact Or.inr (Or.inr (Or.inl ⟨0, by decide⟩))

example : ¬ ValidRequestShape (.obj [("jsonrpc", .str "2.0"), ("method", .str "m"), ("id", .bool true)]) := by
  rw [← C06_Request_fromJson_ok_iff]
  intro ⟨r, hr⟩
  have : Request.fromJson (.obj [("jsonrpc", .str "2.0"), ("method", .str "m"), ("id", .bool true)])
      = .raised .deserialization := by decide
  rw [this] at hr; cases hr

example : Response.fromJson builtinRegistry .jsonRpcError
    (.obj [("jsonrpc", .str "2.0"), ("id", .int 1), ("result", .int 0),
           ("error", .obj [("code", .int 0), ("message", .str "")])]) = .raised .deserialization := by
  decide

example : ∃ b, BatchRequest.construct [⟨"a", .none, some (.int 1)⟩, ⟨"b", .none, some (.str "1")⟩] = .ok b := by
  rw [C06_construct_ok_iff_nodup]; decide

end Pjrpc
