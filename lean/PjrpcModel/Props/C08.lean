/-
  C08 — the client matches responses to requests by id and rejects mismatches.
-/
import PjrpcModel.ClientRun
import PjrpcModel.Props.C06
namespace Pjrpc

/-! ### single requests -/

/-- strict mode: a response whose non-null id differs from the request id raises the identity error
(`"1"` vs `1` are different constructors of `ReqId`) -/
theorem C08_single_mismatch_rejected (cfg : ClientCfg) (req : Request) (resp : Response) (i : ReqId)
    (hs : cfg.strict = true) (hid : resp.id = some i) (hne : req.id ≠ some i) :
    relateSingle cfg req resp = .raised (.exc .identity) := by
  simp only [relateSingle, hs, hid, Option.isSome_some, Bool.and_self, bne_iff_ne, ne_eq, Bool.true_and]
  have : ¬ (some i = req.id) := fun e => hne e.symm
  simp [this]

/-- otherwise the response is accepted and linked to the request (same id, or a null id, or strict off) -/
theorem C08_single_related (cfg : ClientCfg) (req : Request) (resp : Response)
    (h : cfg.strict = false ∨ resp.id = none ∨ resp.id = req.id) :
    relateSingle cfg req resp = .ok resp := by
  rcases h with h | h | h <;> simp [relateSingle, h]

/-- a body that is not a valid JSON-RPC response raises the deserialisation error -/
theorem C08_bad_body_deserialization_error (cfg : ClientCfg) (req : Request) (j : Json) (hn : req.isNotification = false)
    (hbad : ∀ r, Response.fromJson cfg.reg cfg.errorCls j ≠ .ok r) :
    sendSingle cfg req (.text (.ok j)) = .raised (.exc .deserialization) := by
  simp only [sendSingle, hn, Bool.false_eq_true, ↓reduceIte, loadReply]
  rcases C06_Response_fromJson_total cfg.reg cfg.errorCls j with ⟨r, hr⟩ | hr
  · exact absurd hr (hbad r)
  · rw [hr]

/-- … and an undecodable body raises the JSON decode error -/
theorem C08_undecodable_body (cfg : ClientCfg) (req : Request) (hn : req.isNotification = false) :
    sendSingle cfg req (.text .decodeError) = .raised (.exc .jsonDecode) := by
  simp [sendSingle, hn, loadReply]

/-- a server error is raised to the caller as an exception carrying the error -/
theorem C08_server_error_raised (r : Response) (e : RpcError) (h : r.error = .set e) :
    r.resultOf = .raised (.rpc e) := by
  simp [Response.resultOf, h]

/-- a batch-level error object is raised for the batch -/
theorem C08_batch_level_error_raised (b : BatchResponse) (e : RpcError) (h : b.error = .set e) :
    b.resultOf = .raised (.rpc e) := by
  simp [BatchResponse.resultOf, h]

/-! ### batches -/

def respIds (rs : List Response) : List ReqId := rs.filterMap (·.id)

theorem takeById_spec (i : ReqId) (pool : List Response) (hnd : (respIds pool).Nodup) :
    (takeById i pool).2 = pool.filter (fun r => r.id != some i)
    ∧ ((takeById i pool).1.isSome ↔ i ∈ respIds pool) := by
  induction pool with
  | nil => simp [takeById, respIds]
  | cons r rs ih =>
    unfold takeById
    cases hid : r.id with
    | none =>
      have hnd' : (respIds rs).Nodup := by simpa [respIds, hid] using hnd
      have := ih hnd'
      simp only [hid, reduceCtorEq, beq_iff_eq, ↓reduceIte, List.filter_cons, bne_iff_ne, ne_eq, not_false_eq_true,
        decide_true, this.1]
      refine ⟨by simp, ?_⟩
      rw [this.2]; simp [respIds, hid]
    | some j =>
      have hnd' : j ∉ respIds rs ∧ (respIds rs).Nodup := by simpa [respIds, hid] using hnd
      by_cases hji : j = i
      · subst hji
        simp only [hid, beq_self_eq_true, ↓reduceIte, List.filter_cons, bne_self_eq_false, Bool.false_eq_true]
        refine ⟨?_, by simp [respIds, hid]⟩
        symm
        rw [List.filter_eq_self]
        intro x hx
        have : x.id ≠ some j := by
          intro e
          exact hnd'.1 (List.mem_filterMap.mpr ⟨x, hx, e⟩)
        simp [this]
      · have := ih hnd'.2
        have h1 : (some j == some i) = false := by simp [hji]
        simp only [hid, h1, Bool.false_eq_true, ↓reduceIte, List.filter_cons, bne_iff_ne, ne_eq, Option.some.injEq, hji,
          not_false_eq_true, decide_true, this.1]
        refine ⟨by simp, ?_⟩
        rw [this.2]
        simp only [respIds, List.filterMap_cons, hid, List.mem_cons]
        constructor
        · intro h; exact Or.inr h
        · rintro (h | h)
          · exact absurd h.symm hji
          · exact h

theorem filter_respIds_nodup (pool : List Response) (f : Response → Bool) (h : (respIds pool).Nodup) :
    (respIds (pool.filter f)).Nodup := by
  unfold respIds
  exact (List.Sublist.filterMap _ List.filter_sublist).nodup h

/-- In strict mode every call must find its response; what is left over is the responses whose id
no call asked for. -/
theorem popAll_strict (ids : List ReqId) (pool : List Response) (hnd : (respIds pool).Nodup) :
    (∀ left, popAll true ids pool = .ok left →
        (∀ i ∈ ids, i ∈ respIds pool) ∧ left = pool.filter (fun r => match r.id with
          | some j => !ids.contains j
          | none => true))
    ∧ ((∀ i ∈ ids, i ∈ respIds pool) → ids.Nodup → ∃ left, popAll true ids pool = .ok left) := by
  induction ids generalizing pool with
  | nil =>
    refine ⟨fun left h => ?_, fun _ _ => ⟨pool, rfl⟩⟩
    simp only [popAll, Outcome.ok.injEq] at h
    subst h
    refine ⟨by simp, ?_⟩
    symm; rw [List.filter_eq_self]
    intro r _; cases r.id <;> simp
  | cons i is ih =>
    have hspec := takeById_spec i pool hnd
    have hnd' := filter_respIds_nodup pool (fun r => r.id != some i) hnd
    constructor
    · intro left h
      unfold popAll at h
      cases ht : takeById i pool with
      | mk found rest =>
        rw [ht] at h hspec
        simp only at hspec
        cases found with
        | none => simp at h
        | some r =>
          simp only at h
          rw [hspec.1] at h
          have := (ih _ hnd').1 left h
          have hi : i ∈ respIds pool := hspec.2.mp (by simp)
          refine ⟨?_, ?_⟩
          · intro k hk
            rcases List.mem_cons.mp hk with rfl | hk
            · exact hi
            · have := this.1 k hk
              obtain ⟨x, hx, hxid⟩ := List.mem_filterMap.mp this
              exact List.mem_filterMap.mpr ⟨x, (List.mem_filter.mp hx).1, hxid⟩
          · rw [this.2, List.filter_filter]
            apply List.filter_congr
            intro x _
            cases hx : x.id with
            | none => simp
            | some j =>
              by_cases hji : j = i
              · subst hji; simp
              · simp [hji, Ne.symm hji]
    · intro hall hndids
      have hnd2 := List.nodup_cons.mp hndids
      unfold popAll
      cases ht : takeById i pool with
      | mk found rest =>
        rw [ht] at hspec
        simp only at hspec
        have hi : i ∈ respIds pool := hall i (by simp)
        have : found.isSome := hspec.2.mpr hi
        cases found with
        | none => simp at this
        | some r =>
          simp only
          rw [hspec.1]
          apply (ih _ hnd').2 _ hnd2.2
          intro k hk
          have hkp := hall k (by simp [hk])
          obtain ⟨x, hx, hxid⟩ := List.mem_filterMap.mp hkp
          refine List.mem_filterMap.mpr ⟨x, List.mem_filter.mpr ⟨hx, ?_⟩, hxid⟩
          have : k ≠ i := fun e => hnd2.1 (e ▸ hk)
          simp [hxid, this]

/-- **Strict acceptance.**  A response array (duplicate-free ids — the strict `BatchResponse` refuses
anything else) is accepted for a batch iff its non-null ids are exactly the call ids: a missing
response, or a response no call asked for, raises the identity error. -/
theorem C08_batch_accept_iff (cfg : ClientCfg) (hs : cfg.strict = true) (reqs : List Request) (b : BatchResponse)
    (hb : b.error = .unset) (hnd : (respIds b.responses).Nodup) (hids : (callIdsOf reqs).Nodup) :
    (∃ b', relateBatch cfg reqs b = .ok b') ↔
      (∀ i, i ∈ callIdsOf reqs ↔ i ∈ respIds b.responses) := by
  have hpool : respIds (b.responses.filter (fun r => r.id.isSome)) = respIds b.responses := by
    unfold respIds
    induction b.responses with
    | nil => rfl
    | cons r rs ih => cases h : r.id <;> simp [List.filter_cons, h, ih]
  have hndp : (respIds (b.responses.filter (fun r => r.id.isSome))).Nodup := hpool ▸ hnd
  have hp := popAll_strict (callIdsOf reqs) _ hndp
  simp only [relateBatch, BatchResponse.isError, hb, MaybeSet.isSet, Bool.false_eq_true, ↓reduceIte, hs]
  constructor
  · rintro ⟨b', h⟩
    cases hpop : popAll true (callIdsOf reqs) (b.responses.filter (fun r => r.id.isSome)) with
    | raised e => rw [hpop] at h; cases h
    | ok left =>
      rw [hpop] at h
      simp only at h
      have hspec := hp.1 left hpop
      by_cases hl : left.isEmpty
      · intro i
        constructor
        · intro hi; rw [← hpool]; exact hspec.1 i hi
        · intro hi
          -- otherwise the response with id i would be left over
          apply Classical.byContradiction
          intro hni
          rw [← hpool] at hi
          obtain ⟨x, hx, hxid⟩ := List.mem_filterMap.mp hi
          have : x ∈ left := by
            rw [hspec.2]
            refine List.mem_filter.mpr ⟨hx, ?_⟩
            simp [hxid, hni]
          rw [List.isEmpty_iff.mp hl] at this
          cases this
      · simp [hl] at h
  · intro hiff
    obtain ⟨left, hpop⟩ := hp.2 (fun i hi => hpool ▸ (hiff i).mp hi) hids
    have hspec := hp.1 left hpop
    have hl : left = [] := by
      rw [hspec.2, List.filter_eq_nil_iff]
      intro x hx
      have hsome := (List.mem_filter.mp hx).2
      cases hxid : x.id with
      | none => simp [hxid] at hsome
      | some j =>
        have : j ∈ callIdsOf reqs := (hiff j).mpr (List.mem_filterMap.mpr ⟨x, (List.mem_filter.mp hx).1, hxid⟩)
        simp [this]
    rw [hpop]
    simp [hl]

/-- what `relateBatch` returns when it accepts -/
theorem relateBatch_ok_eq (cfg : ClientCfg) (reqs : List Request) (b b' : BatchResponse) (hb : b.error = .unset)
    (h : relateBatch cfg reqs b = .ok b') : b' = { b with responses := orderLike (callIdsOf reqs) b.responses } := by
  simp only [relateBatch, BatchResponse.isError, hb, MaybeSet.isSet, Bool.false_eq_true, ↓reduceIte] at h
  split at h
  · cases h
  · split at h
    · cases h
    · cases h
      obtain ⟨rs, ids, e, st⟩ := b
      simp only at hb
      subst hb
      rfl

theorem filter_id_singleton (rs : List Response) (i : ReqId) (hnd : (respIds rs).Nodup) (hi : i ∈ respIds rs) :
    respIds (rs.filter (fun r => r.id == some i)) = [i] := by
  induction rs with
  | nil => simp [respIds] at hi
  | cons r rs ih =>
    cases hid : r.id with
    | none =>
      have hnd' : (respIds rs).Nodup := by simpa [respIds, hid] using hnd
      have hi' : i ∈ respIds rs := by simpa [respIds, hid] using hi
      simpa [List.filter_cons, hid] using ih hnd' hi'
    | some j =>
      have hnd' : j ∉ respIds rs ∧ (respIds rs).Nodup := by simpa [respIds, hid] using hnd
      by_cases hji : j = i
      · subst hji
        have : rs.filter (fun r => r.id == some j) = [] := by
          rw [List.filter_eq_nil_iff]
          intro x hx hxe
          have : x.id = some j := by simpa using hxe
          exact hnd'.1 (List.mem_filterMap.mpr ⟨x, hx, this⟩)
        simp [List.filter_cons, hid, this, respIds]
      · have hi' : i ∈ respIds rs := by
          have : i = j ∨ i ∈ respIds rs := by simpa [respIds, hid] using hi
          rcases this with h | h
          · exact absurd h.symm hji
          · exact h
        simpa [List.filter_cons, hid, hji] using ih hnd'.2 hi'

/-- **Positional attribution.**  Whatever order the server used in its array: after an accepted
(strict) relate, the responses that carry ids are in the order the calls were made — so results read
by position or as a tuple belong to the calls in call order. -/
theorem C08_positional_attribution (cfg : ClientCfg) (hs : cfg.strict = true) (reqs : List Request) (b b' : BatchResponse)
    (hb : b.error = .unset) (hnd : (respIds b.responses).Nodup) (hids : (callIdsOf reqs).Nodup)
    (h : relateBatch cfg reqs b = .ok b') :
    respIds b'.responses = callIdsOf reqs := by
  have hiff := (C08_batch_accept_iff cfg hs reqs b hb hnd hids).mp ⟨b', h⟩
  rw [relateBatch_ok_eq cfg reqs b b' hb h]
  simp only [orderLike, respIds, List.filterMap_append]
  have htail : (b.responses.filter (unmatchedBy (callIdsOf reqs))).filterMap (·.id) = [] := by
    rw [List.filterMap_eq_nil_iff]
    intro x hx
    have := (List.mem_filter.mp hx)
    cases hxid : x.id with
    | none => rfl
    | some j =>
      have hj : j ∈ callIdsOf reqs := (hiff j).mpr (List.mem_filterMap.mpr ⟨x, this.1, hxid⟩)
      have := this.2
      simp [unmatchedBy, hxid, hj] at this
  rw [htail, List.append_nil]
  have : ∀ (ids : List ReqId), (∀ i ∈ ids, i ∈ respIds b.responses) →
      ((ids.map (fun i => b.responses.filter (fun r => r.id == some i))).flatten).filterMap (·.id) = ids := by
    intro ids
    induction ids with
    | nil => intro _; rfl
    | cons i is ih =>
      intro hall
      simp only [List.map_cons, List.flatten_cons, List.filterMap_append]
      have := filter_id_singleton b.responses i hnd (hall i (by simp))
      simp only [respIds] at this
      rw [this, ih (fun k hk => hall k (by simp [hk]))]
      rfl
  exact this _ (fun i hi => (hiff i).mp hi)

/-- every accepted response is linked to the request with the same id: in the accepted, ordered
array the k-th id-carrying response answers the k-th call -/
theorem C08_related_by_id (cfg : ClientCfg) (hs : cfg.strict = true) (reqs : List Request) (b b' : BatchResponse)
    (hb : b.error = .unset) (hnd : (respIds b.responses).Nodup) (hids : (callIdsOf reqs).Nodup)
    (h : relateBatch cfg reqs b = .ok b') (k : Nat) (hk : k < (callIdsOf reqs).length) :
    (respIds b'.responses)[k]? = (callIdsOf reqs)[k]? := by
  rw [C08_positional_attribution cfg hs reqs b b' hb hnd hids h]

/-- the strict `BatchResponse` constructor guarantees the premise "duplicate-free ids" -/
theorem C08_fromJson_ids_nodup (reg : ErrRegistry) (cls : ErrClass) (xs : List Json) (b : BatchResponse)
    (h : BatchResponse.fromJson reg cls (.arr xs) = .ok b) : (respIds b.responses).Nodup ∧ b.error = .unset := by
  simp only [BatchResponse.fromJson] at h
  cases hm : mapPy (Response.fromJson reg cls) xs with
  | raised e => rw [hm] at h; cases h
  | ok rs =>
    rw [hm] at h
    simp only [BatchResponse.construct, BatchResponse.extend] at h
    cases ha : addIds true [] (rs.map (·.id)) with
    | raised e => rw [ha] at h; cases h
    | ok ids =>
      rw [ha] at h
      cases h
      have := (addIds_ok_spec [] _ _ ha).2.1
      simp only [List.nil_append]
      refine ⟨?_, trivial⟩
      simpa [respIds, List.filterMap_map] using this

/-! ### Non-vacuity: a permuted array is accepted and re-ordered -/

example :
    let reqs : List Request := [⟨"a", .none, some (.int 1)⟩, ⟨"n", .none, none⟩, ⟨"b", .none, some (.str "x")⟩]
    let b : BatchResponse := ⟨[⟨some (.str "x"), .set (.str "B"), .unset⟩, ⟨some (.int 1), .set (.str "A"), .unset⟩], [], .unset, true⟩
    (match relateBatch {} reqs b with
     | .ok b' => b'.resultOf
     | .raised e => .raised e) = .ok [.str "A", .str "B"] := by decide

end Pjrpc
