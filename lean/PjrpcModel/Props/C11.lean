/-
  C11 — the synchronous and asynchronous halves behave identically.
  Dispatchers: `dispatch` (Dispatch.lean) and `dispatchAsync` (Async.lean) are separate
  definitions; the theorem relates them for every configuration, load result, context, placement of
  suspension points and every complete schedule.  Clients, batches, retry loops and tracing wrappers
  have one model per role; both real implementations are checked against it on identical scripts
  (suites loopback / relate / retry / trace), and directly against each other.
-/
import PjrpcModel.Props.C10
namespace Pjrpc

/-- the schedule ran every element handler of the batch (if any) to its end -/
def CompleteFor (cfg : Config) (lr : LoadResult) (ctx : String) (susp : Event → Nat) (sched : List Nat) : Prop :=
  ∀ j batch, lr = .ok j → j.isArr = true → BatchRequest.fromJson j = .ok batch →
    (runSched (batchProcs cfg.handler ctx susp batch.requests) [] sched).2.all Proc.done = true

theorem dispatch_batch_eq (cfg : Config) (j : Json) (batch : BatchRequest) (ctx : String) (hj : j.isArr = true)
    (hb : BatchRequest.fromJson j = .ok batch) (hs : tooLarge cfg.maxBatchSize batch.requests.length = false) :
    (dispatch cfg (.ok j) ctx).1 = syncBatchResult cfg ctx batch.requests := by
  simp [dispatch, hj, hb, hs, runBatch_eq, syncBatchResult]

/-- **The dispatchers agree.**  For the same configuration, load result and context, under every
placement of suspension points and every complete schedule (concurrent mode), or with sequential
batch execution, the asynchronous dispatcher returns exactly the synchronous dispatcher's document
and codes. -/
theorem C11_dispatchers_agree (cfg : Config) (lr : LoadResult) (ctx : String) (susp : Event → Nat)
    (concurrent : Bool) (sched : List Nat) (hc : concurrent = true → CompleteFor cfg lr ctx susp sched) :
    ∃ log, dispatchAsync cfg lr ctx susp concurrent sched = .result (dispatch cfg lr ctx).1 log := by
  cases lr with
  | decodeError => exact ⟨[], rfl⟩
  | valueError => exact ⟨[], rfl⟩
  | recursionError => exact ⟨[], rfl⟩
  | ok j =>
    cases hj : j.isArr with
    | false =>
      cases hr : Request.fromJson j with
      | raised e => exact ⟨[], by simp [dispatchAsync, dispatch, hj, hr]⟩
      | ok req =>
        refine ⟨(cfg.handler req ctx).2.map (AEvent.ev 0), ?_⟩
        simp only [dispatchAsync, dispatch, hj, hr, Bool.false_eq_true, ↓reduceIte]
        cases (cfg.handler req ctx).1 <;> rfl
    | true =>
      cases hb : BatchRequest.fromJson j with
      | raised e => exact ⟨[], by simp [dispatchAsync, dispatch, hj, hb]⟩
      | ok batch =>
        cases hs : tooLarge cfg.maxBatchSize batch.requests.length with
        | true => exact ⟨[], by simp [dispatchAsync, dispatch, hj, hb, hs]⟩
        | false =>
          rw [dispatch_batch_eq cfg j batch ctx hj hb hs]
          simp only [dispatchAsync, hj, hb, hs, Bool.false_eq_true, ↓reduceIte]
          cases concurrent with
          | true => exact C10_async_batch_equals_sync cfg ctx susp batch.requests sched (hc rfl j batch rfl hj hb)
          | false =>
            obtain ⟨r, h1, h2⟩ := C10_sequential_no_overlap cfg ctx susp batch.requests sched
            exact ⟨_, by rw [h1, h2]⟩

/-- … and they execute the same methods with the same arguments: per batch element the
asynchronous log holds exactly the events of the synchronous handler (C10_exactly_once), and the
synchronous log is their concatenation (C12_per_element). -/
theorem C11_same_executions (cfg : Config) (j : Json) (batch : BatchRequest) (ctx : String) (susp : Event → Nat)
    (sched : List Nat) (hj : j.isArr = true) (hb : BatchRequest.fromJson j = .ok batch)
    (hs : tooLarge cfg.maxBatchSize batch.requests.length = false)
    (hdone : (runSched (batchProcs cfg.handler ctx susp batch.requests) [] sched).2.all Proc.done = true) :
    (dispatch cfg (.ok j) ctx).2
      = ((List.range batch.requests.length).map
          (fun i => projLog i (runSched (batchProcs cfg.handler ctx susp batch.requests) [] sched).1)).flatten := by
  rw [C12_per_element cfg j batch ctx hj hb hs]
  congr 1
  apply List.ext_getElem
  · simp
  · intro i h1 h2
    simp only [List.getElem_map, List.getElem_range]
    have hi : i < batch.requests.length := by simpa using h1
    rw [C10_exactly_once cfg ctx susp batch.requests sched hdone i hi]
    simp [elemEvents, List.getElem?_eq_getElem hi]

/-- The asynchronous dispatcher serves plain (non-coroutine) functions with the same results as
coroutines: where (and whether) the user code suspends does not enter the result. -/
theorem C11_plain_functions_in_async (cfg : Config) (lr : LoadResult) (ctx : String) (susp susp' : Event → Nat)
    (sched sched' : List Nat) (h : CompleteFor cfg lr ctx susp sched) (h' : CompleteFor cfg lr ctx susp' sched') :
    ∃ log log', dispatchAsync cfg lr ctx susp true sched = .result (dispatch cfg lr ctx).1 log
      ∧ dispatchAsync cfg lr ctx susp' true sched' = .result (dispatch cfg lr ctx).1 log' := by
  obtain ⟨l1, h1⟩ := C11_dispatchers_agree cfg lr ctx susp true sched (fun _ => h)
  obtain ⟨l2, h2⟩ := C11_dispatchers_agree cfg lr ctx susp' true sched' (fun _ => h')
  exact ⟨l1, l2, h1, h2⟩

end Pjrpc
