/-
  C13 — requests are independent: nothing leaks from one dispatch into the next.
-/
import PjrpcModel.Cache
namespace Pjrpc

variable {κ ν : Type} [DecidableEq κ]

theorem memoGet_ok (f : κ → ν) (memo : List (κ × ν)) (h : MemoOk f memo) (k : κ) (v : ν)
    (hg : memoGet memo k = some v) : v = f k := by
  unfold memoGet at hg
  cases hf : memo.find? (fun kv => kv.1 = k) with
  | none => rw [hf] at hg; cases hg
  | some kv =>
    rw [hf] at hg
    cases hg
    have hmem := List.mem_of_find?_eq_some hf
    have hk : kv.1 = k := by simpa using List.find?_some hf
    rw [h kv hmem, hk]

/-- a memo table over a pure function never changes an answer … -/
theorem cachedCall_value (f : κ → ν) (memo : List (κ × ν)) (h : MemoOk f memo) (k : κ) :
    (cachedCall f memo k).1 = f k := by
  unfold cachedCall
  cases hg : memoGet memo k with
  | none => rfl
  | some v => exact memoGet_ok f memo h k v hg

/-- … stays consistent … -/
theorem cachedCall_ok (f : κ → ν) (memo : List (κ × ν)) (h : MemoOk f memo) (k : κ) :
    MemoOk f (cachedCall f memo k).2 := by
  unfold cachedCall
  cases memoGet memo k with
  | some v => exact h
  | none =>
    intro kv hkv
    rcases List.mem_cons.mp hkv with rfl | hkv
    · rfl
    · exact h kv hkv

/-- … and only ever learns the key it was asked for -/
theorem cachedCall_keys (f : κ → ν) (memo : List (κ × ν)) (k : κ) :
    ∀ kv ∈ (cachedCall f memo k).2, kv ∈ memo ∨ kv.1 = k := by
  unfold cachedCall
  cases memoGet memo k with
  | some v => intro kv hkv; exact Or.inl hkv
  | none =>
    intro kv hkv
    rcases List.mem_cons.mp hkv with rfl | hkv
    · exact Or.inr rfl
    · exact Or.inl hkv

theorem cachedCall_no_dup (f : κ → ν) (memo : List (κ × ν)) (k : κ) (h : (memo.map (·.1)).Nodup) :
    ((cachedCall f memo k).2.map (·.1)).Nodup := by
  unfold cachedCall
  cases hg : memoGet memo k with
  | some v => exact h
  | none =>
    simp only [List.map_cons, List.nodup_cons]
    refine ⟨?_, h⟩
    intro hmem
    obtain ⟨kv, hkv, hk⟩ := List.mem_map.mp hmem
    unfold memoGet at hg
    cases hf : memo.find? (fun kv => kv.1 = k) with
    | some x => rw [hf] at hg; cases hg
    | none =>
      have := List.find?_eq_none.mp hf kv hkv
      simp [hk] at this

/-! ### the signature cache does not change what the dispatcher does -/

/-- the key's pure value is the signature `Method.bind` would compute afresh -/
def KeyFaithful (sigs : Nat → Signature) (key : MethodDef → SigKey) (m : MethodDef) : Prop :=
  sigOfKey sigs (key m) = reduceSig m.sig m.exclusions

/-- with a consistent table the cached method layer is the uncached one (`handleRpcMethod`) -/
theorem handleRpcMethodCached_eq (reg : Registry) (fullSig : MethodDef → Signature) (key : MethodDef → SigKey)
    (sigs : Nat → Signature) (memo : SigMemo) (hm : MemoOk (sigOfKey sigs) memo) (name : String) (params : Params)
    (hk : ∀ m, reg.get name = some m → KeyFaithful sigs key m) :
    (handleRpcMethodCached reg fullSig key sigs memo name params).1 = handleRpcMethod reg name params
    ∧ MemoOk (sigOfKey sigs) (handleRpcMethodCached reg fullSig key sigs memo name params).2 := by
  unfold handleRpcMethodCached handleRpcMethod
  cases hr : reg.get name with
  | none => exact ⟨rfl, hm⟩
  | some m =>
    simp only
    split
    · exact ⟨rfl, hm⟩
    · have hv := cachedCall_value (sigOfKey sigs) memo hm (key m)
      have hok := cachedCall_ok (sigOfKey sigs) memo hm (key m)
      cases hc : cachedCall (sigOfKey sigs) memo (key m) with
      | mk sig memo' =>
        rw [hc] at hv hok
        simp only at hv hok
        have hsig : sig = reduceSig m.sig m.exclusions := by rw [hv]; exact hk m hr
        simp only [MethodDef.bindWith, MethodDef.bind, hsig]
        cases sigBind (reduceSig m.sig m.exclusions) params with
        | raised e => exact ⟨rfl, hok⟩
        | ok args =>
          simp only
          cases m.post args with
          | none => exact ⟨rfl, hok⟩
          | some args' =>
            simp only
            cases callKw m.sig (m.attachCtx args').1 (m.attachCtx args').2 <;> exact ⟨rfl, hok⟩

/-- **History independence.**  For every history of earlier calls and every probe, the probe is
answered exactly as on a fresh dispatcher (method bodies keeping no state of their own). -/
theorem C13_history_independence (reg : Registry) (fullSig : MethodDef → Signature) (key : Nat → MethodDef → SigKey)
    (sigs : Nat → Signature) (hk : ∀ n name m, reg.get name = some m → KeyFaithful sigs (key n) m)
    (hs : List (String × Params)) (n : Nat) (memo : SigMemo) (hm : MemoOk (sigOfKey sigs) memo) :
    (runHistory reg fullSig key sigs n memo hs).1 = hs.map (fun (name, params) => handleRpcMethod reg name params)
    ∧ MemoOk (sigOfKey sigs) (runHistory reg fullSig key sigs n memo hs).2 := by
  induction hs generalizing n memo with
  | nil => exact ⟨rfl, hm⟩
  | cons h rest ih =>
    obtain ⟨name, params⟩ := h
    have h1 := handleRpcMethodCached_eq reg fullSig (key n) sigs memo hm name params (fun m hr => hk n name m hr)
    simp only [runHistory, List.map_cons]
    have h2 := ih (n + 1) _ h1.2
    exact ⟨by rw [h1.1, h2.1], h2.2⟩

/-- in particular the probe's answer after any history equals its answer on a fresh dispatcher -/
theorem C13_probe_after_history (reg : Registry) (fullSig : MethodDef → Signature) (key : Nat → MethodDef → SigKey)
    (sigs : Nat → Signature) (hk : ∀ n name m, reg.get name = some m → KeyFaithful sigs (key n) m)
    (hs : List (String × Params)) (probe : String × Params) :
    (runHistory reg fullSig key sigs 0 [] (hs ++ [probe])).1.getLast?
      = (runHistory reg fullSig key sigs 0 [] [probe]).1.getLast? := by
  have hempty : MemoOk (sigOfKey sigs) ([] : SigMemo) := by intro kv h; cases h
  rw [(C13_history_independence reg fullSig key sigs hk (hs ++ [probe]) 0 [] hempty).1,
    (C13_history_independence reg fullSig key sigs hk [probe] 0 [] hempty).1]
  simp

/-! ### nothing created for a request is retained -/

theorem handleRpcMethodCached_keys (reg : Registry) (fullSig : MethodDef → Signature) (key : MethodDef → SigKey)
    (sigs : Nat → Signature) (memo : SigMemo) (name : String) (params : Params) :
    ∀ kv ∈ (handleRpcMethodCached reg fullSig key sigs memo name params).2,
      kv ∈ memo ∨ ∃ m, reg.get name = some m ∧ kv.1 = key m := by
  unfold handleRpcMethodCached
  cases hr : reg.get name with
  | none => intro kv h; exact Or.inl h
  | some m =>
    simp only
    split
    · intro kv h; exact Or.inl h
    · have hkeys := cachedCall_keys (sigOfKey sigs) memo (key m)
      cases hc : cachedCall (sigOfKey sigs) memo (key m) with
      | mk sig memo' =>
        rw [hc] at hkeys
        simp only at hkeys
        have : ∀ kv ∈ memo', kv ∈ memo ∨ ∃ m', some m = some m' ∧ kv.1 = key m' := by
          intro kv h
          rcases hkeys kv h with h1 | h1
          · exact Or.inl h1
          · exact Or.inr ⟨m, rfl, h1⟩
        simp only
        cases m.bindWith sig params with
        | raised e => exact this
        | ok lk =>
          obtain ⟨lead, kw⟩ := lk
          simp only
          cases callKw m.sig lead kw <;> exact this

/-- **No retention** (after D11).  With the repaired key — validator, underlying function, whether
it was bound, excluded names — after any history the memo holds no object created for a request:
every key is the static key of a registered method. -/
theorem C13_no_retention (reg : Registry) (fullSig : MethodDef → Signature) (ids : MethodDef → MethodIds)
    (sigs : Nat → Signature) (hs : List (String × Params)) (n : Nat) (memo : SigMemo)
    (hmemo : ∀ kv ∈ memo, ∃ m, kv.1 = keyFixed m (ids m)) :
    (∀ kv ∈ (runHistory reg fullSig (fun _ m => keyFixed m (ids m)) sigs n memo hs).2, ∃ m, kv.1 = keyFixed m (ids m))
    ∧ memoRetains (runHistory reg fullSig (fun _ m => keyFixed m (ids m)) sigs n memo hs).2 = [] := by
  have hret : ∀ (mm : SigMemo), (∀ kv ∈ mm, ∃ m, kv.1 = keyFixed m (ids m)) → memoRetains mm = [] := by
    intro mm h
    unfold memoRetains
    rw [List.flatten_eq_nil_iff]
    intro l hl
    obtain ⟨kv, hkv, rfl⟩ := List.mem_map.mp hl
    obtain ⟨m, hm⟩ := h kv hkv
    rw [hm]; rfl
  suffices h : ∀ kv ∈ (runHistory reg fullSig (fun _ m => keyFixed m (ids m)) sigs n memo hs).2, ∃ m, kv.1 = keyFixed m (ids m) from
    ⟨h, hret _ h⟩
  induction hs generalizing n memo with
  | nil => exact hmemo
  | cons h rest ih =>
    obtain ⟨name, params⟩ := h
    simp only [runHistory]
    apply ih
    intro kv hkv
    rcases handleRpcMethodCached_keys reg fullSig _ sigs memo name params kv hkv with h1 | ⟨m, _, h1⟩
    · exact hmemo kv h1
    · exact ⟨m, h1⟩

theorem nodup_subset_length {α : Type} [DecidableEq α] (l l' : List α) (hnd : l.Nodup) (hsub : ∀ x ∈ l, x ∈ l') :
    l.length ≤ l'.length := by
  induction l generalizing l' with
  | nil => simp
  | cons x xs ih =>
    have hx : x ∈ l' := hsub x (by simp)
    have hnd' := List.nodup_cons.mp hnd
    have hsub' : ∀ y ∈ xs, y ∈ l'.erase x := by
      intro y hy
      have hne : y ≠ x := fun e => hnd'.1 (e ▸ hy)
      exact (List.mem_erase_of_ne hne).mpr (hsub y (by simp [hy]))
    have := ih (l'.erase x) hnd'.2 hsub'
    rw [List.length_erase_of_mem hx] at this
    have hpos : 0 < l'.length := List.length_pos_of_mem hx
    simp only [List.length_cons]
    omega

/-- **Bounded state.**  Hence the table never holds more entries than there are registered methods
— whatever the number of requests served. -/
theorem C13_bounded_state (keysOf : List SigKey) (memo : SigMemo) (hnd : (memo.map (·.1)).Nodup)
    (hsub : ∀ kv ∈ memo, kv.1 ∈ keysOf) : memo.length ≤ keysOf.length := by
  have := nodup_subset_length (memo.map (·.1)) keysOf hnd (by
    intro k hk
    obtain ⟨kv, hkv, rfl⟩ := List.mem_map.mp hk
    exact hsub kv hkv)
  simpa using this

/-- The pinned code's key retains the view instance created for the request (and through it the
request context): one view-method request leaves the fresh object id 1000 in the memo. -/
theorem C13_no_retention_counterexample :
    let m : MethodDef := { name := "vm", sig := [⟨"a", .posOrKw, false⟩], view := true, ctx := some "context", body := fun r => .ret r }
    memoRetains (handleRpcMethodCached [("vm", m)] (fun m => m.sig) (fun m => keyPinned m ⟨1, 2⟩ 1000)
      (fun _ => [⟨"self", .posOrKw, false⟩, ⟨"a", .posOrKw, false⟩]) [] "vm" (.pos [.int 1])).2 = [1000] := by
  decide

/-! ### threads -/

/-- **Interleaving independence.**  Under any interleaving of the lookup / insert steps of concurrent
dispatches, whatever a lookup sees is the pure function's value and the table stays consistent: a
thread computes the same signature — hence the same answer — whatever the other threads do. -/
theorem C13_interleaving_independence (f : κ → ν) (memo : List (κ × ν)) (h : MemoOk f memo) (steps : List (MemoStep κ)) :
    (∀ o ∈ (runSteps f memo steps).1, ∀ v, o.2.2 = some v → v = f o.2.1)
    ∧ MemoOk f (runSteps f memo steps).2 := by
  induction steps generalizing memo with
  | nil => exact ⟨fun o ho => (by cases ho), h⟩
  | cons s rest ih =>
    cases s with
    | lookup t k =>
      simp only [runSteps]
      have := ih memo h
      refine ⟨?_, this.2⟩
      intro o ho v hv
      rcases List.mem_cons.mp ho with rfl | ho
      · exact memoGet_ok f memo h k v hv
      · exact this.1 o ho v hv
    | insert t k =>
      simp only [runSteps]
      apply ih
      intro kv hkv
      rcases List.mem_cons.mp hkv with rfl | hkv
      · rfl
      · exact h kv hkv

example : KeyFaithful (fun _ => [⟨"self", .posOrKw, false⟩, ⟨"a", .posOrKw, false⟩])
    (fun m => keyFixed m ⟨1, 2⟩) { name := "vm", sig := [⟨"a", .posOrKw, false⟩], view := true, body := fun r => .ret r } := by
  unfold KeyFaithful; decide

end Pjrpc
