/-
  C17 — documented parameters are the accepted parameters.
-/
import PjrpcModel.Spec
import PjrpcModel.Props.C04
namespace Pjrpc
open Json

/-- a plain function whose validator and spec extractor share the exclusion predicate -/
structure SpecFn (m : MethodDef) : Prop where
  notView : m.view = false
  simple : m.sig.Simple

theorem exclusions_eq_specExclude (m : MethodDef) (h : m.view = false) : m.exclusions = specExclude m := by
  simp [MethodDef.exclusions, specExclude, h]

theorem documentedParams_eq (m : MethodDef) (hm : SpecFn m) : documentedParams m = reduceSig m.sig m.exclusions := by
  unfold documentedParams inspectedSig reduceSig
  rw [hm.notView, exclusions_eq_specExclude m hm.notView]
  simp only [Bool.false_eq_true, ↓reduceIte]
  apply List.filter_congr
  intro p hp
  rcases hm.simple.kinds p hp with hk | hk <;> simp [hk]

/-- The parameter names the documents list, and which of them they mark required, are exactly the
names the dispatcher binds and exactly those without a default. -/
theorem C17_names_agree (m : MethodDef) (hm : SpecFn m) :
    documentedNames m = sigNames (reduceSig m.sig m.exclusions)
    ∧ requiredNames m = ((reduceSig m.sig m.exclusions).filter (!·.hasDefault)).map (·.name) := by
  simp [documentedNames, requiredNames, documentedParams_eq m hm, sigNames]

/-- The context parameter and excluded parameters appear in neither. -/
theorem C17_excluded_absent (m : MethodDef) (x : String) (hx : x ∈ specExclude m) :
    x ∉ documentedNames m ∧ x ∉ requiredNames m := by
  have h1 : x ∉ documentedNames m := by
    intro h
    obtain ⟨p, hp, rfl⟩ := List.mem_map.mp h
    have := (List.mem_filter.mp hp).2
    simp only [Bool.and_eq_true, Bool.not_eq_true', List.contains_eq_mem, decide_eq_false_iff_not] at this
    exact this.1 hx
  refine ⟨h1, ?_⟩
  intro h
  obtain ⟨p, hp, rfl⟩ := List.mem_map.mp h
  exact h1 (List.mem_map.mpr ⟨p, (List.mem_filter.mp hp).1, rfl⟩)

/-- **Accept iff.**  A params object (a named mapping with key set K) is bound by the dispatcher iff
`required ⊆ K ⊆ documented`: satisfying the published names / required list is never refused with
-32602 by binding; omitting a required name or adding an unlisted one always is. -/
theorem C17_accept_iff (m : MethodDef) (hm : SpecFn m) (kw : KwArgs) (hnd : (kwKeys kw).Nodup) :
    (∃ bound, sigBind (reduceSig m.sig m.exclusions) (.named kw) = .ok bound) ↔
      ((∀ r ∈ requiredNames m, r ∈ kwKeys kw) ∧ (∀ k ∈ kwKeys kw, k ∈ documentedNames m)) := by
  have hsR : (reduceSig m.sig m.exclusions).Simple := hm.simple.filter _
  have hn := C17_names_agree m hm
  simp only [sigBind]
  rw [bindKw_simple _ hsR kw hnd, hn.1, hn.2]
  have hsup : supplied (reduceSig m.sig m.exclusions) kw = true ↔
      ∀ r ∈ ((reduceSig m.sig m.exclusions).filter (!·.hasDefault)).map (·.name), r ∈ kwKeys kw := by
    simp only [supplied, List.all_eq_true, Bool.or_eq_true, kwHas, List.mem_map, List.mem_filter, Bool.not_eq_true',
      forall_exists_index, and_imp]
    constructor
    · intro h r p hp hd hr
      rcases h p hp with h1 | h1
      · rw [hd] at h1; cases h1
      · rw [← hr]; exact (lookup_isSome_iff _ _).mp h1
    · intro h p hp
      cases hd : p.hasDefault with
      | true => exact Or.inl rfl
      | false => exact Or.inr ((lookup_isSome_iff _ _).mpr (h p.name p hp hd rfl))
  have hall : kw.all (fun kv => (sigNames (reduceSig m.sig m.exclusions)).contains kv.1) = true ↔
      ∀ k ∈ kwKeys kw, k ∈ sigNames (reduceSig m.sig m.exclusions) := by
    simp only [List.all_eq_true, List.contains_eq_mem, decide_eq_true_eq, kwKeys, List.mem_map, forall_exists_index, and_imp]
    constructor
    · intro h k kv hkv hk; rw [← hk]; exact h kv hkv
    · intro h kv hkv; exact h kv.1 kv hkv rfl
  constructor
  · rintro ⟨bound, hb⟩
    by_cases ha : acceptKw (reduceSig m.sig m.exclusions) kw = true
    · simp only [acceptKw, Bool.and_eq_true] at ha
      exact ⟨hsup.mp ha.1, hall.mp ha.2⟩
    · have hf : acceptKw (reduceSig m.sig m.exclusions) kw = false := by simpa using ha
      rw [hf] at hb
      simp at hb
  · rintro ⟨h1, h2⟩
    have : acceptKw (reduceSig m.sig m.exclusions) kw = true := by
      simp only [acceptKw, Bool.and_eq_true]
      exact ⟨hsup.mpr h1, hall.mpr h2⟩
    exact ⟨boundOf (reduceSig m.sig m.exclusions) kw, by simp [this]⟩

/-- The witness of defect D16 (recorded): for a class-based view the generators inspect the unbound
function, so the implicit first parameter is documented as required while the binder never accepts
it. -/
theorem C17_view_counterexample :
    let m : MethodDef := { name := "vm", sig := [⟨"a", .posOrKw, false⟩], view := true, body := fun r => .ret r }
    "self" ∈ requiredNames m
    ∧ (∀ kw, (kwKeys kw).Nodup → "self" ∈ kwKeys kw → ∀ b, sigBind (reduceSig m.sig m.exclusions) (.named kw) ≠ .ok b) := by
  refine ⟨by decide, ?_⟩
  intro kw hnd hself b hb
  have hs : Signature.Simple [(⟨"a", .posOrKw, false⟩ : Param)] := ⟨by intro p hp; simp at hp; subst hp; exact Or.inl rfl, by decide⟩
  simp only [sigBind, MethodDef.exclusions, ↓reduceIte, reduceSig] at hb
  have hsig : List.filter (fun p : Param => !([] : List String).contains p.name) [⟨"a", .posOrKw, false⟩] = [⟨"a", .posOrKw, false⟩] := by decide
  rw [hsig, bindKw_simple _ hs kw hnd] at hb
  have : acceptKw [(⟨"a", .posOrKw, false⟩ : Param)] kw = false := by
    simp only [acceptKw, Bool.and_eq_false_iff]
    right
    rw [Bool.eq_false_iff]
    intro hall
    simp only [List.all_eq_true, List.contains_eq_mem, decide_eq_true_eq] at hall
    obtain ⟨kv, hkv, hk⟩ := List.mem_map.mp hself
    have := hall kv hkv
    simp [sigNames, hk] at this
  simp [this] at hb

example : SpecFn { name := "f", sig := [⟨"ctx", .posOrKw, false⟩, ⟨"a", .posOrKw, false⟩, ⟨"k", .kwOnly, true⟩],
                   ctx := some "ctx", body := fun r => .ret r } :=
  ⟨rfl, ⟨by intro p hp; simp at hp; rcases hp with rfl | rfl | rfl <;> simp [Param.simple], by decide⟩⟩

end Pjrpc
