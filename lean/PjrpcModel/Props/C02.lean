/-
  C02 — one response per call carrying the identical id, none per notification; an accepted batch
  is exactly the map of the single dispatch over its elements (responses in request order, logs
  concatenated); a rejected batch executes nothing; exactly-once execution.
-/
import PjrpcModel.Props.C06
import PjrpcModel.Props.C12
namespace Pjrpc
open Json

/-- The decidable premise on user middlewares: the kinds that keep the request id (pass-through,
request-rewriting, response-rewriting, and a short circuit that answers UNSET to a notification and
a response carrying the request id otherwise).  `shortFixed` fabricates an id: C12 says (and the code
does) that whatever a middleware returns is sent, so C01/C02 need this premise. -/
def MwKind.wellBehaved : MwKind → Bool
  | .shortFixed .. => false
  | _ => true

def Config.WellBehaved (cfg : Config) : Prop := ∀ k ∈ cfg.middlewares, k.wellBehaved = true

/-- A handler answers a call by exactly one well-formed response with the identical id and a
notification by nothing. -/
def Handler.Answers (h : Handler) : Prop :=
  ∀ req ctx,
    (req.id = none → (h req ctx).1 = .unset) ∧
    (∀ i, req.id = some i → ∃ r, (h req ctx).1 = .set r ∧ r.id = some i ∧ r.WF)

theorem handleRequest_answers (reg : Registry) (t : HandlerTable) : (handleRequest reg t).Answers := by
  intro req ctx
  unfold handleRequest
  cases handleRpcMethod reg req.method req.params with
  | mk res ev =>
    cases res <;> cases hid : req.id <;> simp [Response.WF, MaybeSet.isSet]

theorem MwKind.apply_answers (k : MwKind) (i : Nat) (next : Handler) (hk : k.wellBehaved = true)
    (hn : next.Answers) : (k.apply i next).Answers := by
  intro req ctx
  cases k with
  | pass => simpa [MwKind.apply] using hn req ctx
  | short v => cases hid : req.id <;> simp [MwKind.apply, hid, Response.WF, MaybeSet.isSet]
  | shortFixed id v => simp [MwKind.wellBehaved] at hk
  | rename m => simpa [MwKind.apply] using hn { req with method := m } ctx
  | setParams p => simpa [MwKind.apply] using hn { req with params := p } ctx
  | appendParam v => simpa [MwKind.apply] using hn { req with params := req.params.appended v } ctx
  | wrapResult =>
    have := hn req ctx
    simp only [MwKind.apply]
    refine ⟨fun h0 => ?_, fun id hid => ?_⟩
    · rw [this.1 h0]
    · obtain ⟨r, hr, hrid, hwf⟩ := this.2 id hid
      rw [hr]
      obtain ⟨rid, res, err⟩ := r
      cases res <;> cases err <;> simp_all [Response.WF, MaybeSet.isSet]

theorem buildChain_answers (inner : Handler) (hi : inner.Answers) (mws : List MwKind) (i : Nat)
    (hm : ∀ k ∈ mws, k.wellBehaved = true) : (buildChain inner i mws).Answers := by
  induction mws generalizing i with
  | nil => exact hi
  | cons k ks ih =>
    exact MwKind.apply_answers k i _ (hm k (by simp)) (ih (i + 1) (fun k' hk' => hm k' (by simp [hk'])))

theorem Config.handler_answers (cfg : Config) (h : cfg.WellBehaved) : cfg.handler.Answers :=
  buildChain_answers _ (handleRequest_answers _ _) _ 0 h

/-- A valid single request with an id is answered by exactly one response carrying the identical id
(`ReqId` keeps JSON type and value: `"1"` and `1` are different constructors). -/
theorem C02_call_answered (cfg : Config) (hwb : cfg.WellBehaved) (j : Json) (req : Request) (i : ReqId) (ctx : String)
    (hj : j.isArr = false) (hreq : Request.fromJson j = .ok req) (hid : req.id = some i) :
    ∃ r : Response, (dispatch cfg (.ok j) ctx).1 = .reply r.toJson [r.code] ∧ r.id = some i ∧ r.WF := by
  rw [C12_chain_result_is_sent cfg j req ctx hj hreq]
  obtain ⟨r, hr, hrid, hwf⟩ := (cfg.handler_answers hwb req ctx).2 i hid
  exact ⟨r, by simp [hr, replySingle], hrid, hwf⟩

/-- A notification is never answered — whether it succeeds or fails (the handler's outcome does not
enter the statement). -/
theorem C02_notification_silent (cfg : Config) (hwb : cfg.WellBehaved) (j : Json) (req : Request) (ctx : String)
    (hj : j.isArr = false) (hreq : Request.fromJson j = .ok req) (hid : req.id = none) :
    (dispatch cfg (.ok j) ctx).1 = .nothing := by
  rw [C12_chain_result_is_sent cfg j req ctx hj hreq]
  simp [(cfg.handler_answers hwb req ctx).1 hid]

/-! ### Batches -/

/-- Collect the replies single dispatches produced: silent ones dropped, request order kept,
nothing at all if every one is silent. -/
def collectReplies (rs : List DispatchResult) : DispatchResult :=
  let docs := rs.filterMap (fun r => match r with
    | .reply doc codes => some (doc, codes)
    | _ => none)
  match docs with
  | [] => .nothing
  | _ => .reply (.arr (docs.map (·.1))) (docs.map (·.2)).flatten

theorem fromJson_ok_not_arr (j : Json) (r : Request) (h : Request.fromJson j = .ok r) : j.isArr = false := by
  cases j <;> simp_all [Request.fromJson, Json.isArr]

/-- element-wise: `f x = ok y` along two lists of equal length -/
inductive ParsedAs {α β} (f : α → Py β) : List α → List β → Prop
  | nil : ParsedAs f [] []
  | cons {x y xs ys} : f x = .ok y → ParsedAs f xs ys → ParsedAs f (x :: xs) (y :: ys)

theorem mapPy_ok_iff {α β} (f : α → Py β) (xs : List α) (ys : List β) :
    mapPy f xs = .ok ys ↔ ParsedAs f xs ys := by
  induction xs generalizing ys with
  | nil =>
    cases ys with
    | nil => simp [mapPy]; exact .nil
    | cons y ys => simp [mapPy]; intro h; cases h
  | cons x xs ih =>
    unfold mapPy
    cases hfx : f x with
    | raised e => simp; intro h; cases h; simp_all
    | ok y =>
      cases hm : mapPy f xs with
      | raised e =>
        simp
        intro h
        cases h with
        | cons h1 h2 => have := (ih _).mpr h2; simp_all
      | ok ys' =>
        simp
        constructor
        · rintro rfl; exact .cons hfx ((ih _).mp hm)
        · intro h
          cases h with
          | cons h1 h2 =>
            have := (ih _).mpr h2
            simp_all

theorem ParsedAs.functional {α β} {f : α → Py β} {xs : List α} {ys zs : List β}
    (h1 : ParsedAs f xs ys) (h2 : ParsedAs f xs zs) : ys = zs := by
  induction h1 generalizing zs with
  | nil => cases h2; rfl
  | cons hx _ ih =>
    cases h2 with
    | cons hx' h2' => rw [hx] at hx'; cases hx'; rw [ih h2']

theorem flatten_singletons {α β} (f : α → β) (xs : List α) : (xs.map (fun x => [f x])).flatten = xs.map f := by
  induction xs with
  | nil => rfl
  | cons x xs ih => simp [ih]

theorem batch_requests_of_fromJson (xs : List Json) (b : BatchRequest)
    (h : BatchRequest.fromJson (.arr xs) = .ok b) :
    ParsedAs Request.fromJson xs b.requests ∧ (callIds b.requests).Nodup := by
  unfold BatchRequest.fromJson at h
  cases xs with
  | nil => simp at h
  | cons x xs =>
    simp only at h
    cases hm : mapPy Request.fromJson (x :: xs) with
    | raised e => rw [hm] at h; cases h
    | ok rs =>
      rw [hm] at h
      simp only at h
      have hreq : b.requests = rs := by
        unfold BatchRequest.construct BatchRequest.extend BatchRequest.empty at h
        simp only at h
        split at h
        · cases h
        · cases h; simp
      rw [hreq]
      exact ⟨(mapPy_ok_iff _ _ _).mp hm, (C06_construct_ok_iff_nodup rs).mp ⟨b, h⟩⟩

/-- ids of the responses a well-behaved handler produces for a list of requests -/
theorem keepSet_ids (h : Handler) (hA : h.Answers) (ctx : String) (rs : List Request) :
    (keepSet (rs.map (fun r => (h r ctx).1))).map (·.id) = (callIds rs).map some
    ∧ ∀ r ∈ keepSet (rs.map (fun r => (h r ctx).1)), r.WF := by
  induction rs with
  | nil => simp [keepSet, callIds]
  | cons r rs ih =>
    cases hid : r.id with
    | none =>
      have := (hA r ctx).1 hid
      simp only [List.map_cons, this, keepSet, callIds, List.filterMap_cons, hid]
      exact ih
    | some i =>
      obtain ⟨resp, hr, hrid, hwf⟩ := (hA r ctx).2 i hid
      simp only [List.map_cons, hr, keepSet, callIds, List.filterMap_cons, hid, List.mem_cons]
      refine ⟨by rw [hrid]; congr 1; exact ih.1, ?_⟩
      rintro x (rfl | hx)
      · exact hwf
      · exact ih.2 x hx

theorem addIds_ok_of_nodup (new : List (Option ReqId)) (h : (new.filterMap id).Nodup) :
    ∃ r, addIds true [] new = .ok r := by
  rcases addIds_total true [] new with hr | hr
  · exact hr
  · rcases addIds_raise_spec [] new hr with h1 | ⟨i, _, hm⟩
    · exact absurd h h1
    · simp at hm

/-- The response batch of a well-behaved chain over duplicate-free requests passes the strict
duplicate-id check of `BatchResponse`: the `IdentityError` branch of `dispatch` is unreachable. -/
theorem batch_ids_unique_no_raise (h : Handler) (hA : h.Answers) (ctx : String) (rs : List Request)
    (hnd : (callIds rs).Nodup) :
    ∃ b, BatchResponse.construct (keepSet (rs.map (fun r => (h r ctx).1))) = .ok b
      ∧ b.toJson = .arr ((keepSet (rs.map (fun r => (h r ctx).1))).map Response.toJson) := by
  have hids := (keepSet_ids h hA ctx rs).1
  have : ((keepSet (rs.map (fun r => (h r ctx).1))).map (·.id)).filterMap id = callIds rs := by
    rw [hids]; simp [List.filterMap_map]
  obtain ⟨ids, hok⟩ := addIds_ok_of_nodup _ (this ▸ hnd)
  refine ⟨_, by simp [BatchResponse.construct, BatchResponse.extend, hok]; rfl, ?_⟩
  simp [BatchResponse.toJson]

/-- **Batch = map.**  An accepted batch (valid, duplicate-free, within the size limit) is answered by
exactly the replies its elements receive when each is dispatched alone, in request order — nothing
at all if every element is silent — the codes concatenated, and the execution log is the
concatenation of the elements' logs (so the batch causes exactly the executions its elements cause). -/
theorem C02_batch_is_map (cfg : Config) (hwb : cfg.WellBehaved) (xs : List Json) (b : BatchRequest) (ctx : String)
    (hb : BatchRequest.fromJson (.arr xs) = .ok b)
    (hsz : tooLarge cfg.maxBatchSize b.requests.length = false) :
    dispatch cfg (.ok (.arr xs)) ctx =
      (collectReplies (xs.map (fun x => (dispatch cfg (.ok x) ctx).1)),
       (xs.map (fun x => (dispatch cfg (.ok x) ctx).2)).flatten) := by
  obtain ⟨hall, hnd⟩ := batch_requests_of_fromJson xs b hb
  have hA := cfg.handler_answers hwb
  -- each element alone
  have hsingle : ∀ x r, Request.fromJson x = .ok r →
      dispatch cfg (.ok x) ctx = (match (cfg.handler r ctx).1 with
        | .unset => .nothing
        | .set resp => replySingle resp, (cfg.handler r ctx).2) :=
    fun x r hx => C12_chain_result_is_sent cfg x r ctx (fromJson_ok_not_arr x r hx) hx
  have hlog : (xs.map (fun x => (dispatch cfg (.ok x) ctx).2)) = b.requests.map (fun r => (cfg.handler r ctx).2) := by
    clear hb hsz hnd
    generalize b.requests = reqs at hall
    induction hall with
    | nil => rfl
    | cons hx _ ih => simp [hsingle _ _ hx, ih]
  have hres : collectReplies (xs.map (fun x => (dispatch cfg (.ok x) ctx).1))
      = (match keepSet (b.requests.map (fun r => (cfg.handler r ctx).1)) with
         | [] => .nothing
         | rs => .reply (.arr (rs.map Response.toJson)) (rs.map Response.code)) := by
    have key : (xs.map (fun x => (dispatch cfg (.ok x) ctx).1)).filterMap (fun r => match r with
        | .reply doc codes => some (doc, codes)
        | _ => none)
        = (keepSet (b.requests.map (fun r => (cfg.handler r ctx).1))).map (fun r => (r.toJson, [r.code])) := by
      clear hb hsz hnd hlog
      generalize b.requests = reqs at hall
      induction hall with
      | nil => rfl
      | @cons x r xs' rs' hx _ ih =>
        simp only [List.map_cons, List.filterMap_cons, hsingle _ _ hx]
        cases hh : (cfg.handler r ctx).1 with
        | unset => simpa [keepSet] using ih
        | set resp => simp [keepSet, replySingle, ih]
    unfold collectReplies
    simp only [key]
    cases keepSet (b.requests.map (fun r => (cfg.handler r ctx).1)) with
    | nil => rfl
    | cons r rs => simp [Function.comp_def, flatten_singletons]
  rw [hres, hlog]
  simp only [dispatch, Json.isArr, ↓reduceIte, hb, hsz, Bool.false_eq_true, runBatch_eq, assembleBatch]
  obtain ⟨bb, hbb, hjson⟩ := batch_ids_unique_no_raise cfg.handler hA ctx b.requests hnd
  cases hk : keepSet (b.requests.map (fun r => (cfg.handler r ctx).1)) with
  | nil => rfl
  | cons r rs =>
    rw [hk] at hbb hjson
    simp [hbb, hjson]

/-- A rejected batch (empty, an element that is not a valid request, duplicate ids, over the size
limit) is answered by a single `-32600` object with `id: null` and executes nothing. -/
theorem C02_rejected_batch_executes_nothing (cfg : Config) (xs : List Json) (ctx : String)
    (h : (¬ ∃ b, BatchRequest.fromJson (.arr xs) = .ok b)
      ∨ ∃ b, BatchRequest.fromJson (.arr xs) = .ok b ∧ tooLarge cfg.maxBatchSize b.requests.length = true) :
    ∃ d, dispatch cfg (.ok (.arr xs)) ctx
      = (replySingle ⟨none, .unset, .set (invalidRequestWith (.set d))⟩, []) := by
  rcases h with h | ⟨b, hb, hs⟩
  · cases hr : BatchRequest.fromJson (.arr xs) with
    | ok b => exact absurd ⟨b, hr⟩ h
    | raised e => exact ⟨freeText, by simp [dispatch, Json.isArr, hr]⟩
  · exact ⟨freeText, by simp [dispatch, Json.isArr, hb, hs]⟩

/-- Duplicate call ids make a batch invalid: it is then rejected as a whole. -/
theorem C02_duplicate_ids_rejected (xs : List Json) (rs : List Request)
    (hall : ParsedAs Request.fromJson xs rs) (hdup : ¬ (callIds rs).Nodup) :
    ¬ ∃ b, BatchRequest.fromJson (.arr xs) = .ok b := by
  rintro ⟨b, hb⟩
  obtain ⟨hall', hnd⟩ := batch_requests_of_fromJson xs b hb
  exact hdup ((hall.functional hall') ▸ hnd)

/-! ### Exactly-once execution (the library's own handler, no request-rewriting middleware) -/

def Event.isExec : Event → Bool
  | .exec .. => true
  | _ => false

/-- The executions one element causes: exactly one — of the addressed method, with the arguments
the call protocol delivers — iff the method exists, the parameters bind (and validate) and the call
goes through; none otherwise. -/
def expectedExec (reg : Registry) (req : Request) : List Event :=
  match reg.get req.method with
  | none => []
  | some m =>
    if m.view && m.initRaises then []
    else match m.bind req.params with
      | .raised _ => []
      | .ok (lead, kw) =>
        match callKw m.sig lead kw with
        | .raised _ => []
        | .ok recv => [.exec m.name (.obj (recv ++ m.viewCtx))]

theorem runHandlerList_no_exec (key : Option Int) (i : Nat) (hs : List HandlerKind) (e : RpcError) :
    (runHandlerList key i hs e).2.filter Event.isExec = [] := by
  induction hs generalizing i e with
  | nil => rfl
  | cons h hs ih => simp [runHandlerList, Event.isExec, ih]

theorem C02_exactly_once (reg : Registry) (t : HandlerTable) (req : Request) (ctx : String) :
    (handleRequest reg t req ctx).2.filter Event.isExec = expectedExec reg req := by
  have hm : (handleRpcMethod reg req.method req.params).2 = expectedExec reg req := by
    unfold handleRpcMethod expectedExec runBody
    repeat' split
    all_goals simp_all
  have hf : (expectedExec reg req).filter Event.isExec = expectedExec reg req := by
    unfold expectedExec
    repeat' split
    all_goals simp [Event.isExec]
  unfold handleRequest
  cases hr : handleRpcMethod reg req.method req.params with
  | mk res ev =>
    rw [hr] at hm
    simp only at hm
    subst hm
    cases res <;> cases req.id <;>
      simp [runHandlers, List.filter_append, runHandlerList_no_exec, hf]

/-- For a batch served without middlewares: the executions are exactly the expected executions of
its elements, in request order — no other executions occur. -/
theorem C02_batch_exactly_once (cfg : Config) (hmw : cfg.middlewares = []) (xs : List Json) (b : BatchRequest) (ctx : String)
    (hb : BatchRequest.fromJson (.arr xs) = .ok b)
    (hsz : tooLarge cfg.maxBatchSize b.requests.length = false) :
    (dispatch cfg (.ok (.arr xs)) ctx).2.filter Event.isExec
      = (b.requests.map (expectedExec cfg.registry)).flatten := by
  rw [C12_per_element cfg _ b ctx rfl hb hsz]
  simp only [Config.handler, hmw, buildChain]
  induction b.requests with
  | nil => rfl
  | cons r rs ih => simp [List.filter_append, C02_exactly_once, ih]

/-! ### Non-vacuity -/

example : (⟨[], [.pass, .short .null, .wrapResult], [], none⟩ : Config).WellBehaved := by
  intro k hk; simp at hk; rcases hk with rfl | rfl | rfl <;> rfl

end Pjrpc
