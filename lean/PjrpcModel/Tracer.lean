/-
  pjrpc/client/client.py:484-513 / 618-647 `traced` (one model for the sync and async twins) and
  its composition `retried(traced(_send))` (539-541, 673-675).
-/
import PjrpcModel.Retry
namespace Pjrpc

inductive TEvent (ρ ε : Type) where
  | begin (tracer : Nat) (ctx : Nat)
  | end_ (tracer : Nat) (ctx : Nat) (r : ρ)
  | error (tracer : Nat) (ctx : Nat) (e : ε)
  deriving Repr, DecidableEq, Inhabited

/-- `trace_ctx = _trace_ctx or SimpleNamespace()`: the caller's context object (identity 0) if one
was supplied, else a fresh namespace for this attempt (identity attempt+1). -/
def traceCtx (callerSupplied : Bool) (attempt : Nat) : Nat := if callerSupplied then 0 else attempt + 1

/-- one traced attempt: `begin` for every tracer in order; then `error` for every tracer if the
attempt raised (BaseException included) — and the same exception is re-raised — else `end`. -/
def tracedAttempt {ρ ε : Type} (nTracers : Nat) (ctx : Nat) (out : Attempt ρ ε) : List (TEvent ρ ε) :=
  (List.range nTracers).map (fun t => TEvent.begin t ctx) ++
    (match out with
     | .resp r => (List.range nTracers).map (fun t => TEvent.end_ t ctx r)
     | .exc e => (List.range nTracers).map (fun t => TEvent.error t ctx e))

/-- the event log of a call: every attempt the retry loop makes is traced -/
def tracedRun {ρ ε : Type} (nTracers : Nat) (callerCtx : Bool) (outs : Nat → Attempt ρ ε) (sends : Nat) :
    List (TEvent ρ ε) :=
  ((List.range sends).map (fun k => tracedAttempt nTracers (traceCtx callerCtx k) (outs k))).flatten

end Pjrpc
