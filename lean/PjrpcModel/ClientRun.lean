/-
  The client's `send` pipeline assembled: `retried(traced(_send))` over a script of transport
  replies (client.py:539-541), for single requests and batches.
-/
import PjrpcModel.Client
import PjrpcModel.Tracer
namespace Pjrpc

/-- a request object handed to `send`: single or batch -/
inductive AnyRequest where
  | single (r : Request)
  | batch (rs : List Request)
  deriving Repr, DecidableEq, Inhabited

inductive AnyResponse where
  | single (r : Response)
  | batch (b : BatchResponse)
  deriving Repr, DecidableEq, Inhabited

def AnyRequest.toJson : AnyRequest → Json
  | .single r => r.toJson
  | .batch rs => .arr (rs.map Request.toJson)

/-- one `_send` attempt -/
def sendAny (cfg : ClientCfg) (req : AnyRequest) (reply : WireReply) : Attempt (Option AnyResponse) ClientExc :=
  match req with
  | .single r =>
    match sendSingle cfg r reply with
    | .ok x => .resp (x.map AnyResponse.single)
    | .raised e => .exc e
  | .batch rs =>
    match sendBatch cfg rs reply with
    | .ok x => .resp (x.map AnyResponse.batch)
    | .raised e => .exc e

/-- the class hierarchy (MRO names) of the exceptions the library itself raises -/
def libMro : Exc → List String
  | .deserialization => ["DeserializationError", "BaseError", "ValueError", "Exception", "BaseException"]
  | .identity => ["IdentityError", "BaseError", "Exception", "BaseException"]
  | .baseError => ["BaseError", "Exception", "BaseException"]
  | .jsonDecode => ["JSONDecodeError", "ValueError", "Exception", "BaseException"]
  | .type_ => ["TypeError", "Exception", "BaseException"]
  | .value => ["ValueError", "Exception", "BaseException"]
  | .assertion => ["AssertionError", "Exception", "BaseException"]
  | .key => ["KeyError", "LookupError", "Exception", "BaseException"]
  | .attribute => ["AttributeError", "Exception", "BaseException"]
  | .recursion => ["RecursionError", "RuntimeError", "Exception", "BaseException"]
  | .validation => ["ValidationError", "Exception", "BaseException"]
  | .connectionRefused => ["ConnectionRefusedError", "ConnectionError", "OSError", "Exception", "BaseException"]
  | .other t => [t]

structure RetryStrategy (α : Type) where
  delays : List α                  -- what `backoff()` yields
  codes : List Int := []           -- `codes` (None and the empty set are both "no code retry")
  excs : List String := []         -- names of the listed exception classes
  deriving Repr

/-- `response is not None and response.is_error and codes and response.get_error().code in codes`;
for a batch `is_error` is the batch-level error. -/
def respRetryable (codes : List Int) : Option AnyResponse → Bool
  | none => false
  | some (.single r) => match r.error with
    | .set e => codes.contains e.code
    | .unset => false
  | some (.batch b) => match b.error with
    | .set e => codes.contains e.code
    | .unset => false

/-- `except tuple(exceptions or {})`: an instance of a listed class or of a subclass -/
def excRetryable (mroOf : String → List String) (listed : List String) : ClientExc → Bool
  | .exc (.other t) => listed.any (fun c => (mroOf t).contains c)
  | .exc e => listed.any (fun c => (libMro e).contains c)
  | .rpc _ => false

def policyOf {α} (mroOf : String → List String) (s : RetryStrategy α) : Policy (Option AnyResponse) ClientExc :=
  ⟨respRetryable s.codes, excRetryable mroOf s.excs⟩

structure SendRun (α : Type) where
  run : Run α (Option AnyResponse) ClientExc
  trace : List (TEvent (Option AnyResponse) ClientExc)

/-- `send(request, _trace_ctx=…, _retry_strategy=…)` -/
def clientSend {α} (cfg : ClientCfg) (mroOf : String → List String) (nTracers : Nat) (callerCtx : Bool)
    (clientStrategy : Option (RetryStrategy α)) (perRequest : Option (Option (RetryStrategy α)))
    (req : AnyRequest) (replies : Nat → WireReply) : SendRun α :=
  let outs := fun k => sendAny cfg req (replies k)
  let run := retried (chooseStrategy perRequest clientStrategy) (policyOf mroOf) (·.delays) outs
  ⟨run, tracedRun nTracers callerCtx outs run.sends⟩

/-- `call` / `batch.call`: the value handed to the caller -/
inductive CallValue where
  | value (v : Json)
  | tuple (vs : List Json)
  | nothing
  deriving Repr, DecidableEq, Inhabited

def callValue (isCall : Bool) : Attempt (Option AnyResponse) ClientExc → Outcome CallValue
  | .exc e => .raised e
  | .resp none => if isCall then .raised (.exc .assertion) else .ok .nothing   -- `assert response is not None` in `call`
  | .resp (some (.single r)) =>
    match r.resultOf with
    | .ok v => .ok (.value v)
    | .raised e => .raised e
  | .resp (some (.batch b)) =>
    match b.resultOf with
    | .ok vs => .ok (.tuple vs)
    | .raised e => .raised e

end Pjrpc
