/-
  pjrpc/server/dispatcher.py: Method.bind / ViewMethod.bind, `_handle_rpc_method`,
  `_handle_rpc_request`, `_handle_request`, the middleware chain, the error-handler fold,
  `dispatch` (synchronous dispatcher; the asynchronous twin is in Async.lean) and
  `extract_error_codes`.  Transcribed from the tree after the repairs D1 (non-decode ValueError of
  the loader → -32700) and D2 (all-notification batch → no reply).

  User code stays higher order: a method body is a function from what it received to an outcome; it
  logs its execution.  Middlewares and error handlers are interpreted from finite descriptions
  (`MwKind`, `HandlerKind`) that the harness also compiles to real Python callables.
-/
import PjrpcModel.Bind
namespace Pjrpc

/-- What a method body does with the arguments it received. -/
inductive MethodOutcome where
  | ret (v : Json)                 -- returns a JSON-encodable value
  | rpc (e : RpcError)             -- raises a JsonRpcError
  | exc (tag : String)             -- raises any other Exception (tag = class name + marker text)
  deriving Repr, DecidableEq, Inhabited

structure MethodDef where
  name : String
  sig : Signature                  -- the function's parameters (for a view method: without `self`)
  ctx : Option String := none      -- name of the context parameter
  positional : Bool := false       -- pass the context as first positional argument
  view : Bool := false             -- class-based view method
  excluded : List String := []     -- parameters selected by the validator's exclusion predicate
  initRaises : Bool := false       -- (views) the view constructor raises
  /-- the validator's verdict on the bound arguments: `none` = ValidationError, `some a` = the
      arguments handed to the method (unchanged, or coerced) -/
  post : KwArgs → Option KwArgs := some
  body : Json → MethodOutcome

/-- Execution log. -/
inductive Event where
  | exec (method : String) (received : Json)
  | mwEnter (idx : Nat) (method : String) (ctx : String)
  | mwLeave (idx : Nat)
  | handler (key : Option Int) (idx : Nat) (code : Int)
  deriving Repr, DecidableEq, Inhabited

abbrev MaybeResp := MaybeSet Response
abbrev Handler := Request → String → MaybeResp × List Event

/-- `(self.context,) if self.context else ()` -/
def MethodDef.ctxExclusion (m : MethodDef) : List String :=
  match m.ctx with
  | some c => if c != "" then [c] else []
  | none => []

/-- Names removed from the signature before binding: the context parameter (`if self.context`) and
what the validator's predicate selects.  A view method's bound method is validated as it is (only
the predicate applies). -/
def MethodDef.exclusions (m : MethodDef) : List String :=
  if m.view then m.excluded else m.ctxExclusion ++ m.excluded

/-- dispatcher.py:62-66: how the context is handed over (functions only; a view receives it through
its constructor). -/
def MethodDef.attachCtx (m : MethodDef) (args : KwArgs) : List Json × KwArgs :=
  if m.view then ([], args)
  else match m.ctx with
    | none => ([], args)
    | some c =>
      if m.positional then ([ctxMarker], args)                  -- method_args.append(context)
      else ([], kwSet c ctxMarker args)                         -- method_kwargs[self.context] = context

/-- dispatcher.py:56-68 `Method.bind` / 107-113 `ViewMethod.bind`: the positional and keyword
arguments of the `functools.partial`, or ValidationError. -/
def MethodDef.bind (m : MethodDef) (params : Params) : Py (List Json × KwArgs) :=
  match sigBind (reduceSig m.sig m.exclusions) params with
  | .raised _ => .raised .validation
  | .ok args =>
    match m.post args with
    | none => .raised .validation
    | some args' => .ok (m.attachCtx args')

/-- What the view instance was constructed with (`view_cls(context) if self.context else view_cls()`). -/
def MethodDef.viewCtx (m : MethodDef) : KwArgs :=
  if m.view then
    [("<self.context>", match m.ctx with
      | some c => if c != "" then ctxMarker else .str "<none>"
      | none => .str "<none>")]
  else []

inductive MethodResult where
  | value (v : Json)
  | rpcError (e : RpcError)
  | crashed                        -- a non-JsonRpcError exception escapes `_handle_rpc_method`
  deriving Repr, DecidableEq, Inhabited

def mkError (c : ErrClass) (code : Int) (msg : String) (data : MaybeSet Json) : RpcError := ⟨code, msg, data, c.name⟩
def parseErrorWith (d : MaybeSet Json) : RpcError := ⟨-32700, "Parse error", d, "ParseError"⟩
def invalidRequestWith (d : MaybeSet Json) : RpcError := ⟨-32600, "Invalid Request", d, "InvalidRequestError"⟩
def methodNotFoundWith (d : MaybeSet Json) : RpcError := ⟨-32601, "Method not found", d, "MethodNotFoundError"⟩
def invalidParamsWith (d : MaybeSet Json) : RpcError := ⟨-32602, "Invalid params", d, "InvalidParamsError"⟩
def internalError : RpcError := ⟨-32603, "Internal error", .unset, "InternalError"⟩
def serverError : RpcError := ⟨-32000, "Server error", .unset, "ServerError"⟩

/-- library-generated free text (exception messages copied into `data`, "method ... not found", "batch too large"):
compared only as "is a string", so that rewording a message is not mistaken for a change of behaviour -/
def freeText : Json := .str "<text>"

abbrev Registry := List (String × MethodDef)

def Registry.get (reg : Registry) (name : String) : Option MethodDef :=
  match reg.find? (fun kv => kv.1 == name) with
  | some kv => some kv.2
  | none => none

/-- `bound_method()` inside its `try`: JsonRpcError is re-raised as it is, any other Exception
becomes `ServerError()` without data; the body ran once either way. -/
def runBody (m : MethodDef) (recv : Json) : MethodResult × List Event :=
  ((match m.body recv with
    | .ret v => MethodResult.value v
    | .rpc e => .rpcError e
    | .exc _ => .rpcError serverError), [.exec m.name recv])

/-- dispatcher.py:500-523 `_handle_rpc_method`. -/
def handleRpcMethod (reg : Registry) (name : String) (params : Params) : MethodResult × List Event :=
  match reg.get name with
  | none => (.rpcError (methodNotFoundWith (.set freeText)), [])
  | some m =>
    if m.view && m.initRaises then (.crashed, [])
    else
      match m.bind params with
      | .raised _ => (.rpcError (invalidParamsWith (.set (.arr [freeText]))), [])   -- data=e, encoded as list(e.args)
      | .ok (lead, kw) =>
        match callKw m.sig lead kw with
        | .raised _ => (.rpcError serverError, [])              -- TypeError inside bound_method(): `except Exception`
        | .ok received => runBody m (Json.obj (received ++ m.viewCtx))

/-- Error handlers: finite descriptions interpreted identically by the harness. -/
inductive HandlerKind where
  | ident                          -- returns the error it received
  | recode (code : Int)            -- returns JsonRpcError(code, same message, same data)
  | setData (d : Json)             -- returns the same error with data replaced
  deriving Repr, DecidableEq, Inhabited

def HandlerKind.apply : HandlerKind → RpcError → RpcError
  | .ident, e => e
  | .recode c, e => { e with code := c, cls := "JsonRpcError" }
  | .setData d, e => { e with data := .set d }

/-- `self._error_handlers`: key `None` (generic) or a code. -/
abbrev HandlerTable := List (Option Int × List HandlerKind)

def HandlerTable.get (t : HandlerTable) (k : Option Int) : List HandlerKind :=
  match t.find? (fun kv => kv.1 == k) with
  | some kv => kv.2
  | none => []

def runHandlerList (key : Option Int) : Nat → List HandlerKind → RpcError → RpcError × List Event
  | _, [], e => (e, [])
  | i, h :: hs, e =>
    let (e', ev) := runHandlerList key (i + 1) hs (h.apply e)
    (e', .handler key i e.code :: ev)

/-- dispatcher.py:485-486: `chain(handlers.get(None, []), handlers.get(error.code, []))`, the
per-code list being selected once, by the code of the *original* error. -/
def runHandlers (t : HandlerTable) (e : RpcError) : RpcError × List Event :=
  let (e1, ev1) := runHandlerList none 0 (t.get none) e
  let (e2, ev2) := runHandlerList (some e.code) 0 (t.get (some e.code)) e1
  (e2, ev1 ++ ev2)

/-- dispatcher.py:474-498 `_handle_request` + `_handle_rpc_request`: the innermost handler. -/
def handleRequest (reg : Registry) (handlers : HandlerTable) : Handler := fun req _ctx =>
  let (res, ev) := handleRpcMethod reg req.method req.params
  match res with
  | .value v =>
    match req.id with
    | none => (.unset, ev)
    | some i => (.set ⟨some i, .set v, .unset⟩, ev)
  | .rpcError e =>
    let (e', hev) := runHandlers handlers e
    match req.id with
    | none => (.unset, ev ++ hev)
    | some i => (.set ⟨some i, .unset, .set e'⟩, ev ++ hev)
  | .crashed =>
    let (e', hev) := runHandlers handlers internalError
    match req.id with
    | none => (.unset, ev ++ hev)
    | some i => (.set ⟨some i, .unset, .set e'⟩, ev ++ hev)

/-- Middlewares: the four kinds the property names, plus an ill-behaved short circuit. -/
inductive MwKind where
  | pass                                       -- calls the next handler, returns its result
  | short (v : Json)                           -- answers itself: UNSET for a notification, else Response(request.id, result=v)
  | shortFixed (id : Option ReqId) (v : Json)  -- answers Response(id, result=v) whatever the request was
  | rename (method : String)                   -- calls next with the method name replaced
  | setParams (p : Params)                     -- calls next with the params replaced
  | wrapResult                                 -- calls next; a successful result r becomes [r]
  | appendParam (v : Json)                     -- mutates `request.params` in place (`.append(v)` when it is a list), then calls next
  deriving Repr, DecidableEq, Inhabited

/-- `request.params.append(v)` on the request's own parameter list (absent parameters are an empty list). -/
def Params.appended (p : Params) (v : Json) : Params :=
  match p with
  | .pos l => .pos (l ++ [v])
  | .none => .pos [v]
  | other => other

def MwKind.apply (idx : Nat) (k : MwKind) (next : Handler) : Handler := fun req ctx =>
  let enter := Event.mwEnter idx req.method ctx
  let leave := Event.mwLeave idx
  match k with
  | .pass =>
    let (r, ev) := next req ctx
    (r, enter :: ev ++ [leave])
  | .short v =>
    ((match req.id with
      | none => MaybeSet.unset
      | some i => .set ⟨some i, .set v, .unset⟩), [enter, leave])
  | .shortFixed id v => (.set ⟨id, .set v, .unset⟩, [enter, leave])
  | .rename m =>
    let (r, ev) := next { req with method := m } ctx
    (r, enter :: ev ++ [leave])
  | .setParams p =>
    let (r, ev) := next { req with params := p } ctx
    (r, enter :: ev ++ [leave])
  | .appendParam v =>
    let (r, ev) := next { req with params := req.params.appended v } ctx
    (r, enter :: ev ++ [leave])
  | .wrapResult =>
    let (r, ev) := next req ctx
    ((match r with
      | .set ⟨i, .set v, .unset⟩ => .set ⟨i, .set (.arr [v]), .unset⟩
      | other => other), enter :: ev ++ [leave])

/-- dispatcher.py:419-421: `for middleware in reversed(middlewares): handler = partial(middleware,
handler=handler)` — first declared outermost. -/
def buildChain (inner : Handler) : Nat → List MwKind → Handler
  | _, [] => inner
  | i, k :: ks => k.apply i (buildChain inner (i + 1) ks)

structure Config where
  registry : Registry
  middlewares : List MwKind := []
  handlers : HandlerTable := []
  maxBatchSize : Option Int := none

def Config.handler (cfg : Config) : Handler :=
  buildChain (handleRequest cfg.registry cfg.handlers) 0 cfg.middlewares

/-- What `json_loader(request_text)` did. -/
inductive LoadResult where
  | decodeError                    -- json.JSONDecodeError
  | valueError                     -- another ValueError (integer literal over the digit limit)
  | recursionError
  | ok (j : Json)
  deriving Repr, DecidableEq, Inhabited

inductive DispatchResult where
  | nothing
  | reply (doc : Json) (codes : List Int)
  | raised (e : Exc)
  deriving Repr, DecidableEq, Inhabited

/-- dispatcher.py:23-27 `extract_error_codes` for a single response. -/
def Response.code (r : Response) : Int :=
  match r.error with
  | .set e => e.code
  | .unset => 0

def replySingle (r : Response) : DispatchResult := .reply r.toJson [r.code]

/-- Run the handler over the batch elements in request order, threading the log. -/
def runBatch (h : Handler) (ctx : String) : List Request → List MaybeResp × List Event
  | [] => ([], [])
  | r :: rs =>
    let (x, ev) := h r ctx
    let (xs, evs) := runBatch h ctx rs
    (x :: xs, ev ++ evs)

def keepSet : List MaybeResp → List Response
  | [] => []
  | .unset :: xs => keepSet xs
  | .set r :: xs => r :: keepSet xs

/-- dispatcher.py:457-462: the batch response built from the responses that are not UNSET.
Nothing to send when there is none (D2); the strict `BatchResponse` constructor may raise
`IdentityError` on duplicate response ids. -/
def assembleBatch (rs : List Response) : DispatchResult :=
  match rs with
  | [] => .nothing
  | rs =>
    match BatchResponse.construct rs with
    | .raised e => .raised e
    | .ok b => .reply b.toJson (rs.map Response.code)

/-- `max_batch_size and len(request) > max_batch_size` -/
def tooLarge (maxBatch : Option Int) (n : Nat) : Bool :=
  match maxBatch with
  | none => false
  | some m => m != 0 && (n : Int) > m

/-- dispatcher.py:423-472 `Dispatcher.dispatch`. -/
def dispatch (cfg : Config) (lr : LoadResult) (ctx : String) : DispatchResult × List Event :=
  match lr with
  | .decodeError => (replySingle ⟨none, .unset, .set (parseErrorWith (.set freeText))⟩, [])
  | .valueError => (replySingle ⟨none, .unset, .set (parseErrorWith (.set freeText))⟩, [])
  | .recursionError => (.raised .recursion, [])
  | .ok j =>
    if j.isArr then
      match BatchRequest.fromJson j with
      | .raised _ => (replySingle ⟨none, .unset, .set (invalidRequestWith (.set freeText))⟩, [])
      | .ok batch =>
        if tooLarge cfg.maxBatchSize batch.requests.length then
          (replySingle ⟨none, .unset, .set (invalidRequestWith (.set freeText))⟩, [])
        else
          let (results, ev) := runBatch cfg.handler ctx batch.requests
          (assembleBatch (keepSet results), ev)
    else
      match Request.fromJson j with
      | .raised _ => (replySingle ⟨none, .unset, .set (invalidRequestWith (.set freeText))⟩, [])
      | .ok req =>
        let (r, ev) := cfg.handler req ctx
        match r with
        | .unset => (.nothing, ev)
        | .set resp => (replySingle resp, ev)

end Pjrpc
