/-
  pjrpc/client/retry.py: the backoff generators (16-101), the retry loops `retry` / `retry_async`
  (118-195, one model for both twins) and the `retried` wrapper's choice of strategy
  (client.py:515-537).  Generic in the numeric carrier `α` of the delays.
-/
namespace Pjrpc

/-- outcome of one send attempt: it returned (a response, or `None` for a notification) or raised -/
inductive Attempt (ρ ε : Type) where
  | resp (r : ρ)
  | exc (e : ε)
  deriving Repr, DecidableEq, Inhabited

/-- which outcomes are retried: `response is not None and response.is_error and codes and
response.get_error().code in codes`, and `except tuple(exceptions or {})` -/
structure Policy (ρ ε : Type) where
  retryResp : ρ → Bool
  retryExc : ε → Bool

structure Run (α ρ ε : Type) where
  final : Attempt ρ ε
  sends : Nat
  sleeps : List α
  deriving Repr

/-- retry.py:131-153: one iteration per attempt; `delays` is the backoff iterator, `next(delays,
None)` is taken only when the outcome is retryable; the loop ends by `return response` / `raise e`.
Structural recursion on the remaining delays: termination *is* the boundedness argument. -/
def retryLoop {α ρ ε : Type} (p : Policy ρ ε) (outs : Nat → Attempt ρ ε) : List α → Nat → Run α ρ ε
  | delays, k =>
    match outs k with
    | .resp r =>
      if p.retryResp r then
        match delays with
        | [] => ⟨.resp r, 1, []⟩                     -- no delay left: `return response`
        | d :: ds =>
          let run := retryLoop p outs ds (k + 1)       -- `time.sleep(delay); continue`
          ⟨run.final, run.sends + 1, d :: run.sleeps⟩
      else ⟨.resp r, 1, []⟩
    | .exc e =>
      if p.retryExc e then
        match delays with
        | [] => ⟨.exc e, 1, []⟩                      -- `raise e`
        | d :: ds =>
          let run := retryLoop p outs ds (k + 1)
          ⟨run.final, run.sends + 1, d :: run.sleeps⟩
      else ⟨.exc e, 1, []⟩                            -- not listed: propagates at once

/-! ### backoff generators -/

/-- retry.py:35-51 `PeriodicBackoff`: `interval + jitter()` for each of the `attempts` retries
(`jitter k` is the k-th call of the jitter function). -/
def periodicDelays {α : Type} [Add α] (attempts : Nat) (interval : α) (jitter : Nat → α) : List α :=
  (List.range attempts).map (fun k => interval + jitter k)

/-- `min(self.max_value, value) if self.max_value is not None else value` -/
def capped {α : Type} [Min α] (maxValue : Option α) (v : α) : α :=
  match maxValue with
  | some m => min m v
  | none => v

/-- retry.py:54-75 `ExponentialBackoff`: `base * factor ** n + jitter()`, capped. -/
def exponentialDelays {α : Type} [Add α] [Mul α] [Min α] [HPow α Nat α]
    (attempts : Nat) (base factor : α) (maxValue : Option α) (jitter : Nat → α) : List α :=
  (List.range attempts).map (fun n => capped maxValue (base * factor ^ n + jitter n))

/-- the `cur` variable of retry.py:90-100: 1, 2, 3, 5, 8, … -/
def fibCur : Nat → Nat × Nat      -- (prev, cur) after n iterations
  | 0 => (1, 1)
  | n + 1 => let (prev, cur) := fibCur n; (cur, prev + cur)

/-- retry.py:78-101 `FibonacciBackoff`: `cur * multiplier + jitter()`, capped. -/
def fibonacciDelays {α : Type} [Add α] [Mul α] [Min α] [NatCast α]
    (attempts : Nat) (multiplier : α) (maxValue : Option α) (jitter : Nat → α) : List α :=
  (List.range attempts).map (fun n => capped maxValue (((fibCur n).2 : α) * multiplier + jitter n))

/-! ### which strategy applies -/

/-- client.py:527-531 `retried`: `_retry_strategy` of the request if given (even an explicit `None`,
which disables retrying), else the client's. -/
def chooseStrategy {σ : Type} (perRequest : Option (Option σ)) (clientWide : Option σ) : Option σ :=
  match perRequest with
  | some s => s
  | none => clientWide

/-- `retried(method)`: with a strategy the retry loop, without one a single call. -/
def retried {α ρ ε σ : Type} (strategy : Option σ) (policyOf : σ → Policy ρ ε) (delaysOf : σ → List α)
    (outs : Nat → Attempt ρ ε) : Run α ρ ε :=
  match strategy with
  | some s => retryLoop (policyOf s) outs (delaysOf s) 0
  | none => ⟨outs 0, 1, []⟩

end Pjrpc
