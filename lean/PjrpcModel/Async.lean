/-
  The asynchronous dispatcher (pjrpc/server/dispatcher.py:526-668) under a scheduler.

  A *process* is a list of atomic segments separated by suspension points (`await` of something not
  yet ready); a *schedule* is the order in which the event loop resumes processes.  `gather` starts
  all element handlers and collects their results **by index**.  The element handler of the
  asynchronous dispatcher is the same chain as the synchronous one (Dispatch.lean); its run is cut
  into segments at the suspension points of the user's coroutines (method body, middleware, error
  handler).  The only shared component the segments touch is the append-only event log.
-/
import PjrpcModel.Dispatch
namespace Pjrpc

/-! ### generic scheduler -/

abbrev Seg (σ lam : Type) := σ → lam → σ × lam

structure Proc (σ lam : Type) where
  loc : lam
  todo : List (Seg σ lam)

/-- run the next segment of process `i` (nothing happens if `i` is finished or does not exist) -/
def stepAt {σ lam} : List (Proc σ lam) → Nat → σ → σ × List (Proc σ lam)
  | [], _, s => (s, [])
  | p :: ps, 0, s =>
    match p.todo with
    | [] => (s, p :: ps)
    | g :: gs => ((g s p.loc).1, ⟨(g s p.loc).2, gs⟩ :: ps)
  | p :: ps, i + 1, s => ((stepAt ps i s).1, p :: (stepAt ps i s).2)

def runSched {σ lam} (ps : List (Proc σ lam)) (s : σ) : List Nat → σ × List (Proc σ lam)
  | [] => (s, ps)
  | i :: is => runSched (stepAt ps i s).2 (stepAt ps i s).1 is

/-- a segment's effect on the process-local state does not depend on the shared store -/
def Seg.NonInterfering {σ lam} (g : Seg σ lam) : Prop := ∀ s s' l, (g s l).2 = (g s' l).2
def Proc.NonInterfering {σ lam} (p : Proc σ lam) : Prop := ∀ g ∈ p.todo, Seg.NonInterfering g

/-- what a process finally holds when it runs alone from store `s0` -/
def soloLoc {σ lam} (s0 : σ) : lam → List (Seg σ lam) → lam
  | l, [] => l
  | l, g :: gs => soloLoc s0 (g s0 l).2 gs

def Proc.final {σ lam} (s0 : σ) (p : Proc σ lam) : lam := soloLoc s0 p.loc p.todo

def Proc.done {σ lam} (p : Proc σ lam) : Bool := p.todo.isEmpty

/-- `gather`: results in argument (index) order -/
def gatherResults {σ lam} (ps : List (Proc σ lam)) : List lam := ps.map (·.loc)

/-- sequential mode: each process runs to completion before the next one starts -/
def seqSchedule {σ lam} (ps : List (Proc σ lam)) : List Nat :=
  (ps.zipIdx.map (fun (p, i) => List.replicate p.todo.length i)).flatten

/-! ### the dispatcher's element handlers as processes -/

/-- shared log entries: an event of element `i`, or element `i` reaching a suspension point -/
inductive AEvent where
  | ev (i : Nat) (e : Event)
  | suspend (i : Nat)
  deriving Repr, DecidableEq, Inhabited

/-- Cut an element's event list into chunks: `susp e` suspension points follow event `e`. -/
def chunks (susp : Event → Nat) : List Event → List (List Event)
  | [] => [[]]
  | e :: es =>
    match chunks susp es with
    | [] => [[e]]                                     -- unreachable: `chunks` is never empty
    | c :: cs =>
      if susp e = 0 then (e :: c) :: cs
      else [e] :: (List.replicate (susp e - 1) []) ++ (c :: cs)

/-- local state of an element handler: its response once it has finished -/
abbrev ElemLocal := Option MaybeResp

/-- one segment: append the chunk (tagged), then either suspend again or finish with the response -/
def mkSeg (i : Nat) (chunk : List Event) (last : Option MaybeResp) : Seg (List AEvent) ElemLocal :=
  fun log loc =>
    match last with
    | none => (log ++ chunk.map (AEvent.ev i) ++ [AEvent.suspend i], loc)
    | some r => (log ++ chunk.map (AEvent.ev i), some r)

def mkSegs (i : Nat) (resp : MaybeResp) : List (List Event) → List (Seg (List AEvent) ElemLocal)
  | [] => []
  | [c] => [mkSeg i c (some resp)]
  | c :: c' :: cs => mkSeg i c none :: mkSegs i resp (c' :: cs)

/-- the process of batch element `i` -/
def elemProc (h : Handler) (ctx : String) (susp : Event → Nat) (i : Nat) (req : Request) : Proc (List AEvent) ElemLocal :=
  ⟨none, mkSegs i (h req ctx).1 (chunks susp (h req ctx).2)⟩

def batchProcs (h : Handler) (ctx : String) (susp : Event → Nat) (reqs : List Request) : List (Proc (List AEvent) ElemLocal) :=
  reqs.zipIdx.map (fun (r, i) => elemProc h ctx susp i r)

/-- responses collected from the gathered locals (`if resp` keeps the set ones) -/
def collectLocals : List ElemLocal → List Response
  | [] => []
  | some (.set r) :: xs => r :: collectLocals xs
  | _ :: xs => collectLocals xs

inductive AsyncOutcome where
  | result (r : DispatchResult) (log : List AEvent)
  | incomplete                                        -- the schedule did not run every handler to its end
  deriving Repr, DecidableEq, Inhabited

/-- dispatcher.py:566-616 `AsyncDispatcher.dispatch` for a batch whose element handlers are resumed
in the order `sched` (concurrent mode), or one after the other (sequential mode). -/
def dispatchAsyncBatch (cfg : Config) (ctx : String) (susp : Event → Nat) (concurrent : Bool)
    (reqs : List Request) (sched : List Nat) : AsyncOutcome :=
  let procs := batchProcs cfg.handler ctx susp reqs
  let sched' := if concurrent then sched else seqSchedule procs
  let (log, final) := runSched procs [] sched'
  if final.all Proc.done then .result (assembleBatch (collectLocals (gatherResults final))) log
  else .incomplete

end Pjrpc

namespace Pjrpc

/-- dispatcher.py:566-616 `AsyncDispatcher.dispatch`: the same parse / reject / size-limit steps as
the synchronous twin; a single request awaits its handler; a batch gathers its element handlers (or
awaits them one by one when `concurrent_batch` is off). -/
def dispatchAsync (cfg : Config) (lr : LoadResult) (ctx : String) (susp : Event → Nat) (concurrent : Bool)
    (sched : List Nat) : AsyncOutcome :=
  match lr with
  | .decodeError => .result (replySingle ⟨none, .unset, .set (parseErrorWith (.set freeText))⟩) []
  | .valueError => .result (replySingle ⟨none, .unset, .set (parseErrorWith (.set freeText))⟩) []
  | .recursionError => .result (.raised .recursion) []
  | .ok j =>
    if j.isArr then
      match BatchRequest.fromJson j with
      | .raised _ => .result (replySingle ⟨none, .unset, .set (invalidRequestWith (.set freeText))⟩) []
      | .ok batch =>
        if tooLarge cfg.maxBatchSize batch.requests.length then
          .result (replySingle ⟨none, .unset, .set (invalidRequestWith (.set freeText))⟩) []
        else dispatchAsyncBatch cfg ctx susp concurrent batch.requests sched
    else
      match Request.fromJson j with
      | .raised _ => .result (replySingle ⟨none, .unset, .set (invalidRequestWith (.set freeText))⟩) []
      | .ok req =>
        -- a single handler: the only "schedule" is its own sequence of resumptions
        .result (match (cfg.handler req ctx).1 with
          | .unset => .nothing
          | .set resp => replySingle resp) ((cfg.handler req ctx).2.map (AEvent.ev 0))

end Pjrpc
