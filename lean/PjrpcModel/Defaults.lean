/-
  Configuration defaults and string constants the model uses.  Each is proved equal to the value the
  translator extracts from the source (Props/Constants.lean), so a changed default breaks a proof.
-/
import PjrpcModel.Msg
namespace Pjrpc.Defaults

def version : String := "2.0"
def defaultContentType : String := "application/json"
def requestContentTypes : List String := ["application/json", "application/json-rpc", "application/jsonrequest"]
def responseContentTypes : List String := ["application/json", "application/json-rpc"]
def httpDefaultStatus : Int := 200
def clientStrict : Bool := true
def batchStrict : Bool := true
def concurrentBatch : Bool := true
/-- `max_batch_size=None` -/
def maxBatchSize : Option Nat := none
def methodPositional : Bool := false
def sequentialStart : Int := 1
def sequentialStep : Int := 1
def mockerPassthrough : Bool := false
def mockerOnce : Bool := false
def pydanticCoerce : Bool := true

end Pjrpc.Defaults
