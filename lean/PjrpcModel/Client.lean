/-
  pjrpc/client/client.py: request construction for every call notation, `_send` (encode →
  transport → decode → `from_json` → relate), `_relate` for single requests and batches (after the
  repair D8: responses ordered like the requests), `Response.result` / `BatchResponse.result`
  (v20.py:196-205, 515-532), and the id generators of pjrpc/common/generators.py.
-/
import PjrpcModel.Dispatch
namespace Pjrpc

structure ClientCfg where
  strict : Bool := true
  errorCls : ErrClass := .jsonRpcError
  reg : ErrRegistry := builtinRegistry

/-- What the transport (`_request`) did with one request text. -/
inductive WireReply where
  | noBody                         -- returned None
  | emptyText                      -- returned ''
  | text (lr : LoadResult)         -- returned a non-empty text; `lr` is what `json_loader` makes of it
  | raises (e : Exc)               -- raised
  deriving Repr, DecidableEq, Inhabited

/-- `bool(response_text)` -/
def WireReply.truthy : WireReply → Bool
  | .text _ => true
  | _ => false

/-- what reaches the caller as an exception: a library / transport exception, or a JSON-RPC error
raised from `.result` -/
inductive ClientExc where
  | exc (e : Exc)
  | rpc (e : RpcError)
  deriving Repr, DecidableEq, Inhabited

inductive Outcome (α : Type) where
  | ok (a : α)
  | raised (e : ClientExc)
  deriving Repr, DecidableEq, Inhabited

/-- `json_loader(response_text)` on the reply of a request that expects a response -/
def loadReply : WireReply → Outcome Json
  | .raises e => .raised (.exc e)
  | .noBody => .raised (.exc .type_)                 -- json.loads(None): TypeError
  | .emptyText => .raised (.exc .jsonDecode)
  | .text .decodeError => .raised (.exc .jsonDecode)
  | .text .valueError => .raised (.exc .value)
  | .text .recursionError => .raised (.exc .recursion)
  | .text (.ok j) => .ok j

/-- client.py:367-380 `_relate` for a single request -/
def relateSingle (cfg : ClientCfg) (req : Request) (resp : Response) : Outcome Response :=
  if cfg.strict && resp.id.isSome && resp.id != req.id then .raised (.exc .identity) else .ok resp

/-- client.py:539-564 `_send` for a single `Request`. -/
def sendSingle (cfg : ClientCfg) (req : Request) (reply : WireReply) : Outcome (Option Response) :=
  if req.isNotification then
    match reply with
    | .raises e => .raised (.exc e)
    | r => if cfg.strict && r.truthy then .raised (.exc .baseError) else .ok none   -- "unexpected response"
  else
    match loadReply reply with
    | .raised e => .raised e
    | .ok j =>
      match Response.fromJson cfg.reg cfg.errorCls j with
      | .raised e => .raised (.exc e)
      | .ok resp =>
        match relateSingle cfg req resp with
        | .raised e => .raised e
        | .ok r => .ok (some r)

/-- v20.py:196-205 `Response.result` -/
def Response.resultOf (r : Response) : Outcome Json :=
  match r.error with
  | .set e => .raised (.rpc e)
  | .unset =>
    match r.result with
    | .set v => .ok v
    | .unset => .ok .null            -- unreachable for a constructed response

/-- client.py:431-454 `call`: `assert response is not None`, then `.result`. -/
def callResult (cfg : ClientCfg) (req : Request) (reply : WireReply) : Outcome Json :=
  match sendSingle cfg req reply with
  | .raised e => .raised e
  | .ok none => .raised (.exc .assertion)
  | .ok (some r) => r.resultOf

/-! ### batches -/

def takeById (i : ReqId) : List Response → Option Response × List Response
  | [] => (none, [])
  | r :: rs =>
    if r.id == some i then (some r, rs)
    else let (found, rest) := takeById i rs; (found, r :: rest)

/-- client.py:159-171: every call pops its response out of the id → response map; a missing one
(strict) is an error. Returns the leftovers. -/
def popAll (strict : Bool) : List ReqId → List Response → Outcome (List Response)
  | [], pool => .ok pool
  | i :: is, pool =>
    match takeById i pool with
    | (none, _) => if strict then .raised (.exc .identity) else popAll strict is pool
    | (some _, rest) => popAll strict is rest

/-- the responses ordered like the calls (stable sort by the position of the response id among the
request ids; responses matching no call last) -/
def unmatchedBy (ids : List ReqId) (r : Response) : Bool :=
  match r.id with
  | none => true
  | some i => !ids.contains i

def orderLike (ids : List ReqId) (resps : List Response) : List Response :=
  (ids.map (fun i => resps.filter (fun r => r.id == some i))).flatten ++ resps.filter (unmatchedBy ids)

def callIdsOf (reqs : List Request) : List ReqId := reqs.filterMap (·.id)

/-- client.py:150-175 `BaseBatch._relate`. -/
def relateBatch (cfg : ClientCfg) (reqs : List Request) (b : BatchResponse) : Outcome BatchResponse :=
  if b.isError then .ok b
  else
    -- `{response.id: response for response in batch_response if response.id is not None}`
    let pool := b.responses.filter (fun r => r.id.isSome)
    match popAll cfg.strict (callIdsOf reqs) pool with
    | .raised e => .raised e
    | .ok leftovers =>
      if !leftovers.isEmpty && cfg.strict then .raised (.exc .identity)   -- unexpected response found
      else .ok { b with responses := orderLike (callIdsOf reqs) b.responses }

/-- `_send` for a `BatchRequest`. -/
def sendBatch (cfg : ClientCfg) (reqs : List Request) (reply : WireReply) : Outcome (Option BatchResponse) :=
  if reqs.all Request.isNotification then
    match reply with
    | .raises e => .raised (.exc e)
    | r => if cfg.strict && r.truthy then .raised (.exc .baseError) else .ok none
  else
    match loadReply reply with
    | .raised e => .raised e
    | .ok j =>
      match BatchResponse.fromJson cfg.reg cfg.errorCls j with
      | .raised e => .raised (.exc e)
      | .ok b =>
        match relateBatch cfg reqs b with
        | .raised e => .raised e
        | .ok b' => .ok (some b')

/-- v20.py:515-532 `BatchResponse.result`: the batch-level error, else the first errored response,
else the tuple of results in array order. -/
def firstErrorOrResults : List Response → Outcome (List Json)
  | [] => .ok []
  | r :: rs =>
    match r.resultOf with
    | .raised e => .raised e
    | .ok v =>
      match firstErrorOrResults rs with
      | .raised e => .raised e
      | .ok vs => .ok (v :: vs)

def BatchResponse.resultOf (b : BatchResponse) : Outcome (List Json) :=
  match b.error with
  | .set e => .raised (.rpc e)
  | .unset => firstErrorOrResults b.responses

/-- client.py:199-202 `Batch.call`: the tuple of results, or None when nothing came back. -/
def batchCallResult (cfg : ClientCfg) (reqs : List Request) (reply : WireReply) : Outcome (Option (List Json)) :=
  match sendBatch cfg reqs reply with
  | .raised e => .raised e
  | .ok none => .ok none
  | .ok (some b) =>
    match b.resultOf with
    | .raised e => .raised e
    | .ok vs => .ok (some vs)

/-! ### request construction: the call notations -/

/-- one item of a call notation: a method with positional or named arguments -/
structure CallSpec where
  method : String
  args : List Json := []
  kwargs : List (String × Json) := []
  notify : Bool := false
  deriving Repr, DecidableEq, Inhabited

/-- `params=args or kwargs` (client.py:427, 449, 133, 147): the tuple when non-empty, else the dict -/
def CallSpec.params (c : CallSpec) : Params :=
  if !c.args.isEmpty then .pos c.args else .named c.kwargs

/-- `assert not (args and kwargs)` -/
def CallSpec.valid (c : CallSpec) : Bool := c.args.isEmpty || c.kwargs.isEmpty

/-- `client.call(m, …)` / `client(m, …)` / `client.proxy.m(…)`: `id=next(self.id_gen_impl())` — a fresh
generator per call, hence its first value. -/
def buildCall (firstId : ReqId) (c : CallSpec) : Py Request :=
  if c.valid then .ok ⟨c.method, c.params, if c.notify then none else some firstId⟩
  else .raised .assertion

/-- `batch.add` / `batch(m, …)` / `batch.proxy.m(…)` / `batch.notify`: one generator per batch; each
call draws the next id, notifications draw none; the strict `BatchRequest` refuses duplicate ids. -/
def buildBatch (gen : Nat → ReqId) : Nat → BatchRequest → List CallSpec → Py BatchRequest
  | _, b, [] => .ok b
  | k, b, c :: cs =>
    if !c.valid then .raised .assertion
    else if c.notify then
      match b.append ⟨c.method, c.params, none⟩ with
      | .raised e => .raised e
      | .ok b' => buildBatch gen k b' cs
    else
      match b.append ⟨c.method, c.params, some (gen k)⟩ with
      | .raised e => .raised e
      | .ok b' => buildBatch gen (k + 1) b' cs

/-- `batch[(m, *params), …]` (client.py:70-85): calls only, positional parameters as a list, all
added with one `extend`. -/
def buildBatchGetitem (gen : Nat → ReqId) (b : BatchRequest) (items : List (String × List Json)) : Py BatchRequest :=
  b.extend (items.zipIdx.map (fun ((m, ps), k) => ⟨m, .pos ps, some (gen k)⟩))

/-- generators.py:13-21 `sequential(start, step)` -/
def sequentialGen (start step : Int) : Nat → ReqId := fun k => .int (start + step * k)

end Pjrpc
