/-
  Parameter binding: `inspect.Signature.bind` (CPython 3.12 `Signature._bind`, restricted to the two
  ways pjrpc calls it: a positional list *or* a named mapping), `BaseValidator.signature`
  (exclusion), and the interpreter's call protocol for `functools.partial(method, *lead, **kwargs)()`.
  pjrpc/server/validators/base.py:46-99, pjrpc/server/dispatcher.py:56-68, 107-113.

  Values a method receives are JSON values; three marker strings stand for things that are not
  client data: the server-side context object, an unfilled default, and "no context given".
-/
import PjrpcModel.Msg
namespace Pjrpc

inductive ParamKind where
  | posOnly | posOrKw | varPos | kwOnly | varKw
  deriving Repr, DecidableEq, Inhabited

structure Param where
  name : String
  kind : ParamKind
  hasDefault : Bool := false
  deriving Repr, DecidableEq, Inhabited

abbrev Signature := List Param

/-- marker: the server-side context object -/
def ctxMarker : Json := .str "<CTX>"
/-- marker: the parameter's default value (the harness gives every default this value) -/
def defaultMarker : Json := .str "<default>"

abbrev KwArgs := List (String × Json)

def kwHas (k : String) (kw : KwArgs) : Bool := (Json.lookup k kw).isSome

/-- `dict.pop(k)` on the remaining keyword arguments -/
def kwErase (k : String) : KwArgs → KwArgs
  | [] => []
  | (k', v) :: rest => if k' == k then rest else (k', v) :: kwErase k rest

/-- `d[k] = v`: replace in place if present, else append. -/
def kwSet (k : String) (v : Json) : KwArgs → KwArgs
  | [] => [(k, v)]
  | (k', v') :: rest => if k' == k then (k, v) :: rest else (k', v') :: kwSet k v rest

/-- base.py:82-99 `signature(method, exclude)`: drop the excluded parameters. -/
def reduceSig (sig : Signature) (exclude : List String) : Signature :=
  sig.filter (fun p => !exclude.contains p.name)

/-! ### `Signature._bind`, positional-list mode (`kwargs = {}`) -/

/-- Second phase with no keyword arguments left: every remaining parameter that is not variadic
must have a default. -/
def bindRestNoKw : Signature → Py Unit
  | [] => .ok ()
  | p :: ps =>
    match p.kind with
    | .varKw | .varPos => bindRestNoKw ps
    | _ => if p.hasDefault then bindRestNoKw ps else .raised .type_    -- missing a required argument

/-- First phase: walk the positional arguments along the parameters. -/
def bindPos : Signature → List Json → Py KwArgs
  | [], [] => .ok []
  | [], _ :: _ => .raised .type_                               -- too many positional arguments
  | p :: ps, [] =>
    -- no more positional arguments: look at the next parameter
    match p.kind with
    | .varPos => (fun _ => ([] : KwArgs)) <$> bindRestNoKw ps
    | .varKw => (fun _ => ([] : KwArgs)) <$> bindRestNoKw (p :: ps)
    | _ =>
      if p.hasDefault then (fun _ => ([] : KwArgs)) <$> bindRestNoKw (p :: ps)
      else .raised .type_                                       -- missing a required argument
  | p :: ps, a :: as =>
    match p.kind with
    | .varKw | .kwOnly => .raised .type_                        -- too many positional arguments
    | .varPos =>
      -- *args takes everything that is left
      match bindRestNoKw ps with
      | .raised e => .raised e
      | .ok _ => .ok [(p.name, .arr (a :: as))]
    | _ =>
      match bindPos ps as with
      | .raised e => .raised e
      | .ok rest => .ok ((p.name, a) :: rest)

/-! ### `Signature._bind`, named-mapping mode (`args = ()`) -/

/-- Second phase: pop each remaining parameter's name out of the keyword arguments.  Returns the
bound pairs (in parameter order), the `**kwargs` parameter if one was met, and the leftovers. -/
def bindKwLoop : Signature → KwArgs → Option String → Py (KwArgs × Option String × KwArgs)
  | [], kw, kwp => .ok ([], kwp, kw)
  | p :: ps, kw, kwp =>
    match p.kind with
    | .varKw => bindKwLoop ps kw (some p.name)
    | .varPos => bindKwLoop ps kw kwp
    | k =>
      match Json.lookup p.name kw with
      | none =>
        if p.hasDefault then bindKwLoop ps kw kwp else .raised .type_   -- missing a required argument
      | some v =>
        if k == .posOnly then .raised .type_                    -- positional only, passed as keyword
        else
          match bindKwLoop ps (kwErase p.name kw) kwp with
          | .raised e => .raised e
          | .ok (bound, kwp', left) => .ok ((p.name, v) :: bound, kwp', left)

/-- first phase with no positional arguments: only the first parameter is inspected; returns the
parameters the second phase iterates over -/
def bindKwStart (sig : Signature) (kw : KwArgs) : Py Signature :=
  match sig with
  | [] => .ok []
  | p :: ps =>
    match p.kind with
    | .varPos => .ok ps
    | k =>
      if kwHas p.name kw then
        if k == .posOnly then .raised .type_ else .ok (p :: ps)
      else if k == .varKw || p.hasDefault then .ok (p :: ps)
      else .raised .type_                                     -- missing a required argument

/-- after the loop: `if kwargs:` — leftovers go to `**kwargs` or are an error -/
def bindKwFinish : Py (KwArgs × Option String × KwArgs) → Py KwArgs
  | .raised e => .raised e
  | .ok (bound, kwp, left) =>
    if left.isEmpty then .ok bound
    else match kwp with
      | some name => .ok (bound ++ [(name, .obj left)])
      | none => .raised .type_                                  -- unexpected keyword argument

def bindKw (sig : Signature) (kw : KwArgs) : Py KwArgs :=
  match bindKwStart sig kw with
  | .raised e => .raised e
  | .ok rest => bindKwFinish (bindKwLoop rest kw none)

/-- base.py:66-80 `bind(signature, params)`; the result is `BoundArguments.arguments`. -/
def sigBind (sig : Signature) : Params → Py KwArgs
  | .none => bindPos sig []
  | .pos xs => bindPos sig xs
  | .named kvs => bindKw sig kvs

/-! ### The call `functools.partial(method, *lead, **kwargs)()` -/

def Param.positional (p : Param) : Bool := p.kind == .posOnly || p.kind == .posOrKw
def Param.keywordable (p : Param) : Bool := p.kind == .posOrKw || p.kind == .kwOnly

/-- Assign the leading positional arguments.  Returns the slots filled so far and the surplus. -/
def fillLead : Signature → List Json → KwArgs × List Json
  | _, [] => ([], [])
  | [], as => ([], as)
  | p :: ps, a :: as =>
    if p.positional then
      let (slots, extra) := fillLead ps as
      ((p.name, a) :: slots, extra)
    else ([], a :: as)

/-- Route each keyword argument: to its parameter's slot, or to `**kwargs`, or fail. -/
def routeKw (sig : Signature) (hasVarKw : Bool) : KwArgs → KwArgs → KwArgs → Py (KwArgs × KwArgs)
  | [], slots, extra => .ok (slots, extra)
  | (k, v) :: rest, slots, extra =>
    if sig.any (fun p => p.keywordable && p.name == k) then
      if kwHas k slots then .raised .type_                      -- multiple values for argument
      else routeKw sig hasVarKw rest (slots ++ [(k, v)]) extra
    else if hasVarKw then routeKw sig hasVarKw rest slots (extra ++ [(k, v)])
    else .raised .type_                                         -- unexpected keyword / positional-only

/-- What one parameter receives: its slot, the surplus positionals (`*args`), the unrouted keywords
(`**kwargs`), its default — or the call fails. -/
def paramValue (slots : KwArgs) (surplus : List Json) (extraKw : KwArgs) (p : Param) : Py Json :=
  match p.kind with
  | .varPos => .ok (.arr surplus)
  | .varKw => .ok (.obj extraKw)
  | _ =>
    match Json.lookup p.name slots with
    | some v => .ok v
    | none => if p.hasDefault then .ok defaultMarker else .raised .type_   -- missing argument

/-- Produce what the body sees, parameter by parameter. -/
def collect (slots : KwArgs) (surplus : List Json) (extraKw : KwArgs) : Signature → Py KwArgs
  | [] => .ok []
  | p :: ps =>
    match paramValue slots surplus extraKw p with
    | .raised e => .raised e
    | .ok v =>
      match collect slots surplus extraKw ps with
      | .raised e => .raised e
      | .ok rest => .ok ((p.name, v) :: rest)

/-- The interpreter's call protocol for a call made of `lead` positional arguments and the keyword
arguments `kw`.  Result: the mapping parameter ↦ received value, in parameter order. -/
def callKw (sig : Signature) (lead : List Json) (kw : KwArgs) : Py KwArgs :=
  let (slots, surplus) := fillLead sig lead
  let hasVarPos := sig.any (fun p => p.kind == .varPos)
  let hasVarKw := sig.any (fun p => p.kind == .varKw)
  if !surplus.isEmpty && !hasVarPos then .raised .type_         -- takes N positional arguments
  else
    match routeKw sig hasVarKw kw slots [] with
    | .raised e => .raised e
    | .ok (slots, extraKw) => collect slots surplus extraKw sig

/-- What a *direct* Python call `f(*list)` / `f(**mapping)` would bind (the reference the property
speaks about): the same call protocol with the client's arguments passed as given. -/
def directCall (sig : Signature) : Params → Py KwArgs
  | .none => callKw sig [] []
  | .pos xs => callKw sig xs []
  | .named kvs => callKw sig [] kvs

end Pjrpc
