/-
  Helper lemmas about `Bind.lean` for signatures made of positional-or-keyword / keyword-only
  parameters with distinct names ("simple" signatures): closed forms of `bindPos`, `bindKw`,
  `callKw`.  Used by Props/C04.lean and Props/C17.lean.
-/
import PjrpcModel.Bind
namespace Pjrpc
open Json

def sigNames (sig : Signature) : List String := sig.map (·.name)
def kwKeys (kw : KwArgs) : List String := kw.map (·.1)

def Param.simple (p : Param) : Prop := p.kind = .posOrKw ∨ p.kind = .kwOnly

structure Signature.Simple (sig : Signature) : Prop where
  kinds : ∀ p ∈ sig, p.simple
  nodup : (sigNames sig).Nodup

theorem Signature.Simple.tail {p : Param} {ps : Signature} (h : Signature.Simple (p :: ps)) : Signature.Simple ps :=
  ⟨fun q hq => h.kinds q (by simp [hq]), (List.nodup_cons.mp h.nodup).2⟩

theorem Signature.Simple.head_notin {p : Param} {ps : Signature} (h : Signature.Simple (p :: ps)) :
    p.name ∉ sigNames ps := (List.nodup_cons.mp h.nodup).1

theorem Signature.Simple.filter {sig : Signature} (h : sig.Simple) (f : Param → Bool) : Signature.Simple (sig.filter f) :=
  ⟨fun q hq => h.kinds q (List.mem_filter.mp hq).1, by
    unfold sigNames
    exact (List.Sublist.map _ List.filter_sublist).nodup h.nodup⟩

/-! ### association-list facts -/

theorem lookup_none_iff (k : String) (kw : KwArgs) : lookup k kw = none ↔ k ∉ kwKeys kw := by
  induction kw with
  | nil => simp [lookup, kwKeys]
  | cons kv rest ih =>
    obtain ⟨k', v⟩ := kv
    simp only [lookup, kwKeys, List.map_cons, List.mem_cons, not_or]
    by_cases h : k' = k
    · simp [h]
    · have : (k' == k) = false := by simp [h]
      simp only [this, Bool.false_eq_true, ↓reduceIte]
      rw [ih]; simp [kwKeys]; intro _; exact fun e => h e.symm

theorem lookup_isSome_iff (k : String) (kw : KwArgs) : (lookup k kw).isSome ↔ k ∈ kwKeys kw := by
  have := lookup_none_iff k kw
  cases h : lookup k kw with
  | none => simp [this.mp h]
  | some v =>
    simp only [Option.isSome_some, true_iff]
    apply Classical.byContradiction
    intro hn
    rw [this.mpr hn] at h; cases h

theorem lookup_append (k : String) (a b : KwArgs) :
    lookup k (a ++ b) = (lookup k a).orElse (fun _ => lookup k b) := by
  induction a with
  | nil => simp [lookup]
  | cons kv rest ih =>
    obtain ⟨k', v⟩ := kv
    simp only [List.cons_append, lookup]
    split <;> simp [ih]

theorem lookup_cons_ne (k k' : String) (v : Json) (kw : KwArgs) (h : k' ≠ k) :
    lookup k ((k', v) :: kw) = lookup k kw := by
  simp [lookup, h]

theorem kwErase_eq_filter (k : String) (kw : KwArgs) (hnd : (kwKeys kw).Nodup) :
    kwErase k kw = kw.filter (fun kv => kv.1 != k) := by
  induction kw with
  | nil => rfl
  | cons kv rest ih =>
    obtain ⟨k', v⟩ := kv
    simp only [kwKeys, List.map_cons, List.nodup_cons] at hnd
    simp only [kwErase, List.filter_cons]
    by_cases h : k' = k
    · subst h
      simp only [beq_self_eq_true, ↓reduceIte, bne_self_eq_false, Bool.false_eq_true]
      symm
      rw [List.filter_eq_self]
      intro kv hkv
      have : kv.1 ≠ k' := fun e => hnd.1 (e ▸ List.mem_map_of_mem (f := (·.1)) hkv)
      simp [this]
    · have h1 : (k' == k) = false := by simp [h]
      have h2 : (k' != k) = true := by simp [h]
      simp only [h1, Bool.false_eq_true, ↓reduceIte, h2]
      rw [ih hnd.2]

theorem lookup_filter_ne (k k0 : String) (kw : KwArgs) (h : k ≠ k0) :
    lookup k (kw.filter (fun kv => kv.1 != k0)) = lookup k kw := by
  induction kw with
  | nil => rfl
  | cons kv rest ih =>
    obtain ⟨k', v⟩ := kv
    simp only [List.filter_cons]
    by_cases h' : k' = k0
    · subst h'
      simp only [bne_self_eq_false, Bool.false_eq_true, ↓reduceIte, ih]
      rw [lookup_cons_ne]; exact fun e => h e.symm
    · have : (k' != k0) = true := by simp [h']
      simp only [this, ↓reduceIte, lookup, ih]

theorem kwKeys_filter_nodup (kw : KwArgs) (f : String × Json → Bool) (h : (kwKeys kw).Nodup) :
    (kwKeys (kw.filter f)).Nodup := by
  unfold kwKeys
  exact (List.Sublist.map _ List.filter_sublist).nodup h

/-! ### `bindRestNoKw`, `collect`, `routeKw` on simple signatures -/

def allDefault (sig : Signature) : Bool := sig.all (·.hasDefault)

theorem bindRestNoKw_simple (sig : Signature) (h : ∀ p ∈ sig, p.simple) :
    bindRestNoKw sig = if allDefault sig then .ok () else .raised .type_ := by
  induction sig with
  | nil => rfl
  | cons p ps ih =>
    have hp := h p (by simp)
    have ih' := ih (fun q hq => h q (by simp [hq]))
    unfold bindRestNoKw
    cases hd : p.hasDefault <;> rcases hp with hk | hk <;> rw [hk] <;>
      simp [allDefault, hd, ih']

/-- every parameter has a filled slot or a default -/
def satisfied (sig : Signature) (slots : KwArgs) : Bool :=
  sig.all (fun p => (lookup p.name slots).isSome || p.hasDefault)

/-- what the body of a function with a simple signature receives -/
def recvOf (sig : Signature) (slots : KwArgs) : KwArgs :=
  sig.map (fun p => (p.name, (lookup p.name slots).getD defaultMarker))

theorem collect_simple (sig : Signature) (h : ∀ p ∈ sig, p.simple) (slots : KwArgs) (sur : List Json) (ex : KwArgs) :
    collect slots sur ex sig = if satisfied sig slots then .ok (recvOf sig slots) else .raised .type_ := by
  induction sig with
  | nil => rfl
  | cons p ps ih =>
    have hp := h p (by simp)
    have ih' := ih (fun q hq => h q (by simp [hq]))
    unfold collect paramValue
    rw [ih']
    cases hs : satisfied ps slots <;> cases hl : lookup p.name slots <;> cases hd : p.hasDefault <;>
      rcases hp with hk | hk <;> rw [hk] <;>
      simp [satisfied, recvOf, hl, hd] <;> simp_all [satisfied] <;> grind

theorem any_keywordable (sig : Signature) (h : ∀ p ∈ sig, p.simple) (k : String) :
    sig.any (fun p => p.keywordable && p.name == k) = (sigNames sig).contains k := by
  induction sig with
  | nil => rfl
  | cons p ps ih =>
    have hp := h p (by simp)
    have ih' := ih (fun q hq => h q (by simp [hq]))
    simp only [List.any_cons, sigNames, List.map_cons, List.contains_cons]
    have hkw : p.keywordable = true := by
      rcases hp with hk | hk <;> simp [Param.keywordable, hk]
    rw [hkw, ih']
    simp only [Bool.true_and]
    congr 1
    exact Bool.eq_iff_iff.mpr ⟨fun h => by simpa using (by simpa using h : p.name = k).symm, fun h => by simpa using (by simpa using h : k = p.name).symm⟩

theorem any_varPos_simple (sig : Signature) (h : ∀ p ∈ sig, p.simple) :
    sig.any (fun p => p.kind == .varPos) = false ∧ sig.any (fun p => p.kind == .varKw) = false := by
  induction sig with
  | nil => exact ⟨rfl, rfl⟩
  | cons p ps ih =>
    have hp := h p (by simp)
    have ih' := ih (fun q hq => h q (by simp [hq]))
    simp only [List.any_cons, ih'.1, ih'.2, Bool.or_false]
    rcases hp with hk | hk <;> simp [hk]

/-- keyword arguments with distinct names, all naming parameters, none already filled: every one is
routed to its slot -/
theorem routeKw_ok (sig : Signature) (h : ∀ p ∈ sig, p.simple) (K slots ex : KwArgs)
    (hin : ∀ k ∈ kwKeys K, k ∈ sigNames sig) (hnd : (kwKeys K).Nodup)
    (hdis : ∀ k ∈ kwKeys K, k ∉ kwKeys slots) :
    routeKw sig false K slots ex = .ok (slots ++ K, ex) := by
  induction K generalizing slots with
  | nil => simp [routeKw]
  | cons kv rest ih =>
    obtain ⟨k, v⟩ := kv
    simp only [kwKeys, List.map_cons, List.mem_cons, forall_eq_or_imp, List.nodup_cons] at hin hnd hdis
    unfold routeKw
    rw [any_keywordable sig h k]
    have hc : (sigNames sig).contains k = true := by simpa using hin.1
    have hs : kwHas k slots = false := by
      simp only [kwHas]
      rw [Bool.eq_false_iff]; intro hh
      exact hdis.1 ((lookup_isSome_iff k slots).mp hh)
    simp only [hc, ↓reduceIte, hs, Bool.false_eq_true]
    rw [ih (slots ++ [(k, v)]) hin.2 hnd.2]
    · simp
    · intro k' hk'
      simp only [kwKeys, List.map_append, List.map_cons, List.map_nil, List.mem_append, List.mem_singleton, not_or]
      exact ⟨hdis.2 k' hk', fun e => hnd.1 (e ▸ hk')⟩

/-- a keyword that names no parameter makes the call fail -/
theorem routeKw_unknown (sig : Signature) (h : ∀ p ∈ sig, p.simple) (K slots ex : KwArgs)
    (hbad : ∃ k ∈ kwKeys K, k ∉ sigNames sig) : ∃ e, routeKw sig false K slots ex = .raised e := by
  induction K generalizing slots ex with
  | nil => simp [kwKeys] at hbad
  | cons kv rest ih =>
    obtain ⟨k, v⟩ := kv
    unfold routeKw
    rw [any_keywordable sig h k]
    by_cases hc : (sigNames sig).contains k = true
    · simp only [hc, ↓reduceIte]
      split
      · exact ⟨_, rfl⟩
      · apply ih
        obtain ⟨k', hk', hn⟩ := hbad
        simp only [kwKeys, List.map_cons, List.mem_cons] at hk'
        rcases hk' with rfl | hk'
        · simp at hc; exact absurd hc hn
        · exact ⟨k', hk', hn⟩
    · have hc' : (sigNames sig).contains k = false := by simpa using hc
      rw [hc']; exact ⟨_, rfl⟩

end Pjrpc

namespace Pjrpc
open Json

/-! ### `Signature.bind` on simple signatures: closed forms -/

/-- the keyword arguments the binder keeps, in parameter order -/
def boundOf (sig : Signature) (kw : KwArgs) : KwArgs :=
  sig.filterMap (fun p => (lookup p.name kw).map (fun v => (p.name, v)))

/-- every parameter is supplied or has a default -/
def supplied (sig : Signature) (kw : KwArgs) : Bool :=
  sig.all (fun p => p.hasDefault || kwHas p.name kw)

theorem filter_notin_cons_of_lookup_none (k : String) (ns : List String) (kw : KwArgs) (h : lookup k kw = none) :
    kw.filter (fun kv => !(k :: ns).contains kv.1) = kw.filter (fun kv => !ns.contains kv.1) := by
  apply List.filter_congr
  intro kv hkv
  have : kv.1 ≠ k := by
    intro e
    exact (lookup_none_iff k kw).mp h (e ▸ List.mem_map_of_mem (f := (·.1)) hkv)
  simp [this]

theorem filter_all_true {α} (xs : List α) : xs.filter (fun _ => true) = xs := by
  induction xs with
  | nil => rfl
  | cons x xs ih => simp [ih]

theorem filterMap_congr' {α β} (f g : α → Option β) (xs : List α) (h : ∀ x ∈ xs, f x = g x) :
    xs.filterMap f = xs.filterMap g := by
  induction xs with
  | nil => rfl
  | cons x xs ih =>
    simp only [List.filterMap_cons, h x (by simp)]
    rw [ih (fun y hy => h y (by simp [hy]))]

theorem all_congr' {α} (f g : α → Bool) (xs : List α) (h : ∀ x ∈ xs, f x = g x) : xs.all f = xs.all g := by
  induction xs with
  | nil => rfl
  | cons x xs ih =>
    simp only [List.all_cons, h x (by simp)]
    rw [ih (fun y hy => h y (by simp [hy]))]

theorem bindKwLoop_simple (sig : Signature) (hs : sig.Simple) (kw : KwArgs) (hnd : (kwKeys kw).Nodup) (kwp : Option String) :
    bindKwLoop sig kw kwp =
      if supplied sig kw then .ok (boundOf sig kw, kwp, kw.filter (fun kv => !(sigNames sig).contains kv.1))
      else .raised .type_ := by
  induction sig generalizing kw with
  | nil => simp [bindKwLoop, supplied, boundOf, sigNames, filter_all_true]
  | cons p ps ih =>
    have hp := hs.kinds p (by simp)
    have hnot := hs.head_notin
    have hstep : bindKwLoop (p :: ps) kw kwp =
        (match lookup p.name kw with
         | none => if p.hasDefault = true then bindKwLoop ps kw kwp else Py.raised Exc.type_
         | some v =>
           match bindKwLoop ps (kwErase p.name kw) kwp with
           | Py.raised e => Py.raised e
           | Py.ok (bound, kwp', left) => Py.ok ((p.name, v) :: bound, kwp', left)) := by
      rw [bindKwLoop]
      rcases hp with hk | hk <;> simp only [hk] <;> cases lookup p.name kw <;> first | rfl | simp
    rw [hstep]
    cases hl : lookup p.name kw with
    | none =>
      simp only
      have hsup : supplied (p :: ps) kw = (p.hasDefault && supplied ps kw) := by
        simp [supplied, kwHas, hl]
      have hb : boundOf (p :: ps) kw = boundOf ps kw := by simp [boundOf, hl]
      have hf := filter_notin_cons_of_lookup_none p.name (sigNames ps) kw hl
      have hn : sigNames (p :: ps) = p.name :: sigNames ps := rfl
      rw [hsup, hb, hn, hf]
      cases hd : p.hasDefault with
      | false => simp
      | true => simp [ih hs.tail kw hnd]
    | some v =>
      simp only
      have hnd' : (kwKeys (kwErase p.name kw)).Nodup := by
        rw [kwErase_eq_filter _ _ hnd]; exact kwKeys_filter_nodup _ _ hnd
      rw [ih hs.tail (kwErase p.name kw) hnd']
      have hlk : ∀ q ∈ ps, lookup q.name (kwErase p.name kw) = lookup q.name kw := by
        intro q hq
        rw [kwErase_eq_filter _ _ hnd]
        apply lookup_filter_ne
        intro e
        exact hnot (e ▸ List.mem_map_of_mem (f := (·.name)) hq)
      have hsup : supplied ps (kwErase p.name kw) = supplied ps kw := by
        simp only [supplied, kwHas]
        apply all_congr'
        intro q hq; rw [hlk q hq]
      have hbound : boundOf ps (kwErase p.name kw) = boundOf ps kw := by
        simp only [boundOf]
        apply filterMap_congr'
        intro q hq; rw [hlk q hq]
      have hleft : (kwErase p.name kw).filter (fun kv => !(sigNames ps).contains kv.1)
          = kw.filter (fun kv => !(sigNames (p :: ps)).contains kv.1) := by
        rw [kwErase_eq_filter _ _ hnd, List.filter_filter]
        apply List.filter_congr
        intro kv _
        have hn : sigNames (p :: ps) = p.name :: sigNames ps := rfl
        rw [hn]
        simp only [List.contains_cons, Bool.not_or, bne]
        rw [Bool.and_comm]
      have hsup2 : supplied (p :: ps) kw = supplied ps kw := by
        simp [supplied, kwHas, hl]
      have hb2 : boundOf (p :: ps) kw = (p.name, v) :: boundOf ps kw := by simp [boundOf, hl]
      rw [hsup, hbound, hleft, hsup2, hb2]
      cases supplied ps kw <;> rfl

/-- the named mapping is accepted: everything required is there and nothing unknown is -/
def acceptKw (sig : Signature) (kw : KwArgs) : Bool :=
  supplied sig kw && kw.all (fun kv => (sigNames sig).contains kv.1)

theorem bindKw_simple (sig : Signature) (hs : sig.Simple) (kw : KwArgs) (hnd : (kwKeys kw).Nodup) :
    bindKw sig kw = if acceptKw sig kw then .ok (boundOf sig kw) else .raised .type_ := by
  have hempty : (kw.filter (fun kv => !(sigNames sig).contains kv.1)).isEmpty
      = kw.all (fun kv => (sigNames sig).contains kv.1) := by
    clear hnd
    induction kw with
    | nil => rfl
    | cons kv rest ih =>
      simp only [List.filter_cons, List.all_cons]
      cases (sigNames sig).contains kv.1 <;> simp_all
  -- after the first phase the loop runs over the whole signature, or the first parameter is missing
  have hfinish : bindKwFinish (bindKwLoop sig kw none)
      = if acceptKw sig kw then .ok (boundOf sig kw) else .raised .type_ := by
    rw [bindKwLoop_simple sig hs kw hnd none]
    simp only [acceptKw, ← hempty]
    cases supplied sig kw with
    | false => rfl
    | true =>
      simp only [↓reduceIte, Bool.true_and, bindKwFinish]
  unfold bindKw
  cases sig with
  | nil => simpa [bindKwStart] using hfinish
  | cons p ps =>
    have hp := hs.kinds p (by simp)
    have hstart : bindKwStart (p :: ps) kw
        = (if kwHas p.name kw = true then Py.ok (p :: ps)
           else if p.hasDefault = true then Py.ok (p :: ps) else Py.raised Exc.type_) := by
      unfold bindKwStart
      rcases hp with hk | hk <;> simp [hk]
    rw [hstart]
    cases h1 : kwHas p.name kw with
    | true => simpa using hfinish
    | false =>
      cases hd : p.hasDefault with
      | true => simpa using hfinish
      | false => simp [acceptKw, supplied, hd, h1]

/-- positional mode: the binder fills exactly the slots the call protocol fills -/
theorem fillLead_nil (sig : Signature) : fillLead sig [] = ([], []) := by
  cases sig <;> rfl

theorem satisfied_cons_ne (ps : Signature) (k : String) (v : Json) (slots : KwArgs) (h : k ∉ sigNames ps) :
    satisfied ps ((k, v) :: slots) = satisfied ps slots := by
  simp only [satisfied]
  apply all_congr'
  intro q hq
  rw [lookup_cons_ne]
  intro e; exact h (e ▸ List.mem_map_of_mem (f := (·.name)) hq)

theorem satisfied_nil (sig : Signature) : satisfied sig [] = allDefault sig := by
  simp [satisfied, allDefault, lookup]

theorem bindPos_simple (sig : Signature) (hs : sig.Simple) (xs : List Json) :
    bindPos sig xs =
      if (fillLead sig xs).2.isEmpty && satisfied sig (fillLead sig xs).1 then .ok (fillLead sig xs).1
      else .raised .type_ := by
  induction sig generalizing xs with
  | nil => cases xs <;> simp [bindPos, fillLead, satisfied]
  | cons p ps ih =>
    have hp := hs.kinds p (by simp)
    cases xs with
    | nil =>
      simp only [fillLead, List.isEmpty_nil, Bool.true_and, satisfied_nil]
      have hstep : bindPos (p :: ps) [] =
          (if p.hasDefault = true then (fun _ => ([] : KwArgs)) <$> bindRestNoKw (p :: ps) else Py.raised Exc.type_) := by
        rw [bindPos]
        rcases hp with hk | hk <;> simp [hk]
      rw [hstep]
      have := bindRestNoKw_simple (p :: ps) hs.kinds
      cases hd : p.hasDefault with
      | false => simp [allDefault, hd]
      | true =>
        simp only [↓reduceIte, this]
        cases allDefault (p :: ps) <;> rfl
    | cons a as =>
      unfold bindPos
      rcases hp with hk | hk
      · rw [hk]
        simp only
        have hpos : p.positional = true := by simp [Param.positional, hk]
        rw [ih hs.tail as]
        simp only [fillLead, hpos, ↓reduceIte]
        have hsat : satisfied (p :: ps) ((p.name, a) :: (fillLead ps as).1) = satisfied ps (fillLead ps as).1 := by
          simp only [satisfied, List.all_cons, lookup, beq_self_eq_true, ↓reduceIte, Option.isSome_some, Bool.true_or, Bool.true_and]
          exact satisfied_cons_ne ps p.name a _ hs.head_notin
        rw [hsat]
        cases (fillLead ps as).2.isEmpty && satisfied ps (fillLead ps as).1 <;> rfl
      · rw [hk]
        have hpos : p.positional = false := by simp [Param.positional, hk]
        simp [fillLead, hpos]

/-- keys the positional binder produces: distinct parameter names -/
theorem fillLead_keys (sig : Signature) (hs : sig.Simple) (xs : List Json) :
    (kwKeys (fillLead sig xs).1).Nodup ∧ ∀ k ∈ kwKeys (fillLead sig xs).1, k ∈ sigNames sig := by
  induction sig generalizing xs with
  | nil => cases xs <;> simp [fillLead, kwKeys]
  | cons p ps ih =>
    cases xs with
    | nil => simp [fillLead, kwKeys]
    | cons a as =>
      simp only [fillLead]
      split
      · have := ih hs.tail as
        simp only [kwKeys, List.map_cons, List.nodup_cons, List.mem_cons, sigNames, forall_eq_or_imp, true_or, true_and]
        refine ⟨⟨fun hmem => hs.head_notin (this.2 _ hmem), this.1⟩, fun k hk => Or.inr (this.2 k hk)⟩
      · simp [kwKeys]

theorem boundOf_keys (sig : Signature) (hs : sig.Simple) (kw : KwArgs) :
    (kwKeys (boundOf sig kw)).Nodup ∧ ∀ k ∈ kwKeys (boundOf sig kw), k ∈ sigNames sig := by
  induction sig with
  | nil => simp [boundOf, kwKeys]
  | cons p ps ih =>
    have := ih hs.tail
    simp only [boundOf, List.filterMap_cons]
    cases lookup p.name kw with
    | none =>
      simp only [Option.map_none]
      exact ⟨this.1, fun k hk => List.mem_cons_of_mem _ (this.2 k hk)⟩
    | some v =>
      simp only [Option.map_some, kwKeys, List.map_cons, List.nodup_cons, List.mem_cons, sigNames, forall_eq_or_imp, true_or, true_and]
      exact ⟨⟨fun hmem => hs.head_notin (this.2 _ hmem), this.1⟩, fun k hk => Or.inr (this.2 k hk)⟩

theorem lookup_boundOf (sig : Signature) (hs : sig.Simple) (kw : KwArgs) (q : Param) (hq : q ∈ sig) :
    lookup q.name (boundOf sig kw) = lookup q.name kw := by
  induction sig with
  | nil => cases hq
  | cons p ps ih =>
    simp only [boundOf, List.filterMap_cons]
    rcases List.mem_cons.mp hq with rfl | hq'
    · cases hl : lookup q.name kw with
      | none =>
        simp only [Option.map_none]
        have : q.name ∉ kwKeys (boundOf ps kw) := fun hmem => hs.head_notin ((boundOf_keys ps hs.tail kw).2 _ hmem)
        exact (lookup_none_iff _ _).mpr this
      | some v => simp [lookup]
    · have hne : p.name ≠ q.name := fun e => hs.head_notin (e ▸ List.mem_map_of_mem (f := (·.name)) hq')
      cases lookup p.name kw with
      | none => simpa [boundOf] using ih hs.tail hq'
      | some v =>
        simp only [Option.map_some]
        rw [lookup_cons_ne _ _ _ _ hne]
        simpa [boundOf] using ih hs.tail hq'

end Pjrpc

namespace Pjrpc
open Json

/-! ### the call protocol on simple signatures -/

theorem callKw_simple (sig : Signature) (hs : sig.Simple) (lead : List Json) (K : KwArgs)
    (hsur : (fillLead sig lead).2 = []) (hnd : (kwKeys K).Nodup)
    (hin : ∀ k ∈ kwKeys K, k ∈ sigNames sig) (hdis : ∀ k ∈ kwKeys K, k ∉ kwKeys (fillLead sig lead).1) :
    callKw sig lead K =
      if satisfied sig ((fillLead sig lead).1 ++ K) then .ok (recvOf sig ((fillLead sig lead).1 ++ K))
      else .raised .type_ := by
  unfold callKw
  have hv := any_varPos_simple sig hs.kinds
  cases hf : fillLead sig lead with
  | mk slots sur =>
    rw [hf] at hsur hdis
    simp only at hsur hdis
    subst hsur
    simp only [List.isEmpty_nil, Bool.not_true, Bool.false_and, Bool.false_eq_true, ↓reduceIte, hv.2]
    rw [routeKw_ok sig hs.kinds K slots [] hin hnd hdis]
    simp only
    exact collect_simple sig hs.kinds _ _ _

theorem callKw_surplus (sig : Signature) (hs : sig.Simple) (lead : List Json) (K : KwArgs)
    (hsur : (fillLead sig lead).2 ≠ []) : callKw sig lead K = .raised .type_ := by
  unfold callKw
  have hv := any_varPos_simple sig hs.kinds
  cases hf : fillLead sig lead with
  | mk slots sur =>
    rw [hf] at hsur
    simp only at hsur
    cases sur with
    | nil => exact absurd rfl hsur
    | cons a as => simp [hv.1]

theorem callKw_unknown_kw (sig : Signature) (hs : sig.Simple) (K : KwArgs)
    (hbad : ∃ k ∈ kwKeys K, k ∉ sigNames sig) : ∃ e, callKw sig [] K = .raised e := by
  unfold callKw
  have hv := any_varPos_simple sig hs.kinds
  rw [fillLead_nil]
  simp only [List.isEmpty_nil, Bool.not_true, Bool.false_and, Bool.false_eq_true, ↓reduceIte, hv.2]
  obtain ⟨e, he⟩ := routeKw_unknown sig hs.kinds K [] [] hbad
  exact ⟨e, by rw [he]⟩

theorem satisfied_eq_supplied (sig : Signature) (kw : KwArgs) : satisfied sig kw = supplied sig kw := by
  simp only [satisfied, supplied, kwHas]
  apply all_congr'
  intro p _
  rw [Bool.or_comm]

theorem lookup_recvOf (sig : Signature) (hs : sig.Simple) (slots : KwArgs) (q : Param) (hq : q ∈ sig) :
    lookup q.name (recvOf sig slots) = some ((lookup q.name slots).getD defaultMarker) := by
  induction sig with
  | nil => cases hq
  | cons p ps ih =>
    simp only [recvOf, List.map_cons]
    rcases List.mem_cons.mp hq with rfl | hq'
    · simp [lookup]
    · have hne : p.name ≠ q.name := fun e => hs.head_notin (e ▸ List.mem_map_of_mem (f := (·.name)) hq')
      rw [lookup_cons_ne _ _ _ _ hne]
      exact ih hs.tail hq'

theorem kwSet_notin (k : String) (v : Json) (kw : KwArgs) (h : k ∉ kwKeys kw) : kwSet k v kw = kw ++ [(k, v)] := by
  induction kw with
  | nil => rfl
  | cons kv rest ih =>
    obtain ⟨k', v'⟩ := kv
    simp only [kwKeys, List.map_cons, List.mem_cons, not_or] at h
    have : (k' == k) = false := by simp [Ne.symm h.1]
    simp only [kwSet, this, Bool.false_eq_true, ↓reduceIte, List.cons_append]
    rw [ih h.2]

theorem recvOf_congr (sig : Signature) (a b : KwArgs) (h : ∀ p ∈ sig, lookup p.name a = lookup p.name b) :
    recvOf sig a = recvOf sig b := by
  simp only [recvOf]
  apply List.map_congr_left
  intro p hp; rw [h p hp]

theorem satisfied_congr (sig : Signature) (a b : KwArgs) (h : ∀ p ∈ sig, lookup p.name a = lookup p.name b) :
    satisfied sig a = satisfied sig b := by
  simp only [satisfied]
  apply all_congr'
  intro p hp; rw [h p hp]

end Pjrpc
