/-
  pjrpc/server/specs/openapi.py (`OpenAPI.schema`, `_extract_errors`, component registration) and
  pjrpc/server/specs/openrpc.py (`OpenRPC.schema`, `_extract_errors`, `_extract_params_schema`): the
  generators' plumbing over *abstract* extractor results, after the repairs D13 (annotated error
  lists are copied), D14 (loop-local component prefix), D15 (`.get('properties', {})`).
  Also the parameter view of the spec extractor (specs/extractors/pydantic.py:222-245) for C17.
-/
import PjrpcModel.Dispatch
namespace Pjrpc

/-- `utils.join_path(path, p)`: `f'{path.rstrip("/")}/{p.lstrip("/")}'` when `p` is non-empty.  The
strip functions are parameters of the model (string trimming is not reasoned about). -/
def joinPath (rstrip lstrip : String → String) (path p : String) : String :=
  if p == "" then path else rstrip path ++ "/" ++ lstrip p

/-- `s.rstrip('/')` and `s.lstrip('/')` -/
def rstripSlash (s : String) : String := String.ofList (s.toList.reverse.dropWhile (· == '/')).reverse
def lstripSlash (s : String) : String := String.ofList (s.toList.dropWhile (· == '/'))

/-- `utils.join_path(path, p)` as the code computes it -/
def joinPathC (path p : String) : String := joinPath rstripSlash lstripSlash path p

/-- `join_path(path, *paths)`: the fold over the further parts -/
def joinPaths (path : String) (parts : List String) : String := parts.foldl joinPathC path

def stripPrefixChars : List Char → List Char → Option (List Char)
  | [], s => some s
  | _ :: _, [] => none
  | p :: ps, c :: cs => if p == c then stripPrefixChars ps cs else none

/-- utils.py `remove_prefix`: `s[len(prefix):]` if `s.startswith(prefix)` else `s` -/
def removePrefix (s pre : String) : String :=
  match stripPrefixChars pre.toList s.toList with
  | some r => String.ofList r
  | none => s

/-- utils.py `remove_suffix`: `s[0:-len(suffix)]` if `suffix and s.endswith(suffix)` else `s` -/
def removeSuffix (s suf : String) : String :=
  if suf == "" then s
  else
    match stripPrefixChars suf.toList.reverse s.toList.reverse with
    | some r => String.ofList r.reverse
    | none => s

/-- the annotation heap: cells holding the lists users passed as `errors=[…]`; several methods may
share one cell -/
abbrev Heap := List (List Int)

/-- what the generators read from one registered method -/
structure SpecMethod where
  endpoint : String                -- key of `methods_map` the method is served under
  name : String                    -- exposed method name
  errorsCell : Option Nat := none  -- heap cell of the annotated `errors` list (none: not annotated)
  extErrors : List Int := []       -- error codes the extractors find (docstring `raises`), stack order
  prefixAnn : Option String := none  -- `component_name_prefix` annotation
  tags : List String := []
  comps : List String := []        -- component names the extractors return for this method (local names)
  refs : List String := []         -- component names this method's schemas reference (local names)
  deriving Repr, DecidableEq, Inhabited

/-- `{error.code: error for error in errors}.values()`: first position, one entry per code -/
def dedupCodes : List Int → List Int
  | [] => []
  | c :: cs => c :: (dedupCodes cs).filter (· != c)

structure OpEntry where
  key : String                     -- `f'{prefix}#{method.name}'`
  errors : List Int                -- documented error codes
  tags : List String
  refs : List String               -- `$ref` targets under #/components/schemas/
  deriving Repr, DecidableEq, Inhabited

structure ApiDoc where
  paths : List OpEntry := []       -- dict: a later entry under an existing key replaces it in place
  components : List String := []  -- keys of components.schemas
  deriving Repr, DecidableEq, Inhabited

def putPath (e : OpEntry) : List OpEntry → List OpEntry
  | [] => [e]
  | x :: xs => if x.key == e.key then e :: xs else x :: putPath e xs

def putComp (c : String) (cs : List String) : List String := if cs.contains c then cs else cs ++ [c]

/-- the component prefix in force for a method: its annotation if truthy, else the document default
(D14: computed per method, not carried over) -/
def prefixOf (defaultPrefix : String) (m : SpecMethod) : String :=
  match m.prefixAnn with
  | some p => if p == "" then defaultPrefix else p
  | none => defaultPrefix

/-- the errors documented for a method, and the heap afterwards.  `copyErrors = true` is the repaired
code (works on a copy); `false` reproduces the pinned code, which extended the annotated list. -/
def methodErrors (copyErrors : Bool) (heap : Heap) (m : SpecMethod) : List Int × Heap :=
  match m.errorsCell with
  | none => (dedupCodes m.extErrors, heap)
  | some c =>
    let annotated := heap.getD c []
    let all := annotated ++ m.extErrors
    (dedupCodes all, if copyErrors then heap else heap.set c all)

/-- the entry generated for one method: a function of that method alone (and of the document-level
path and default prefix) -/
def entryOf (rstrip lstrip : String → String) (path defaultPrefix : String) (errors : List Int) (m : SpecMethod) : OpEntry :=
  ⟨joinPath rstrip lstrip path m.endpoint ++ "#" ++ m.name, errors, m.tags,
   m.refs.map (prefixOf defaultPrefix m ++ ·)⟩

structure GenState where
  doc : ApiDoc := {}
  heap : Heap

/-- openapi.py:677-763 `OpenAPI.schema` -/
def genOpenApi (copyErrors : Bool) (rstrip lstrip : String → String) (path defaultPrefix : String) (heap : Heap)
    (ms : List SpecMethod) : GenState :=
  ms.foldl (fun st m =>
    let (errs, heap') := methodErrors copyErrors st.heap m
    let e := entryOf rstrip lstrip path defaultPrefix errs m
    { doc := { paths := putPath e st.doc.paths,
               components := (m.comps.map (prefixOf defaultPrefix m ++ ·)).foldl (fun cs c => putComp c cs) st.doc.components },
      heap := heap' }) { heap := heap }

/-- openrpc.py:448-489 `OpenRPC.schema`: one method record per method of the root endpoint (`''`), a
list (no replacement), components unprefixed -/
def genOpenRpc (copyErrors : Bool) (heap : Heap) (ms : List SpecMethod) : GenState :=
  (ms.filter (·.endpoint == "")).foldl (fun st m =>
    let (errs, heap') := methodErrors copyErrors st.heap m
    { doc := { paths := st.doc.paths ++ [⟨m.name, errs, m.tags, m.refs⟩],
               components := m.comps.foldl (fun cs c => putComp c cs) st.doc.components },
      heap := heap' }) { heap := heap }

/-! ### documented parameters (C17) -/

/-- names the spec generators exclude: `exclude=[method.context] if method.context else []` plus the
extractor's own predicate -/
def specExclude (m : MethodDef) : List String := m.ctxExclusion ++ m.excluded

/-- the callable the generators inspect: `method.method` — for a view method the *unbound* function,
whose first parameter is `self` -/
def inspectedSig (m : MethodDef) : Signature :=
  if m.view then ⟨"self", .posOrKw, false⟩ :: m.sig else m.sig

/-- specs/extractors/pydantic.py:222-245 `_build_params_model`: parameters not excluded, of kind
positional-or-keyword / keyword-only; required iff no default -/
def documentedParams (m : MethodDef) : List Param :=
  (inspectedSig m).filter (fun p => !(specExclude m).contains p.name && (p.kind == .posOrKw || p.kind == .kwOnly))

def documentedNames (m : MethodDef) : List String := (documentedParams m).map (·.name)
def requiredNames (m : MethodDef) : List String := ((documentedParams m).filter (!·.hasDefault)).map (·.name)

end Pjrpc
